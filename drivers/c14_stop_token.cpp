// Instantiation source for C14 rules (never executed).
#include <pika/synchronization/stop_token.hpp>

namespace verif_c14 {
    struct cb
    {
        void operator()() const noexcept {}
    };
}    // namespace verif_c14
template class pika::stop_callback<verif_c14::cb>;
