// Instantiation source for C14 rules (never executed).
#include <pika/synchronization/stop_token.hpp>

namespace verif_c14 {
    struct cb
    {
        void operator()() const noexcept {}
    };
}    // namespace verif_c14
template class pika::stop_callback<verif_c14::cb>;
namespace verif_c14 {
    // the constructors are member templates: instantiate both (token by const reference / by rvalue)
    inline void instantiate(pika::stop_token const& t, pika::stop_token&& u)
    {
        pika::stop_callback<cb> a(t, cb{});
        pika::stop_callback<cb> b(std::move(u), cb{});
    }
}    // namespace verif_c14
