// Instantiation source for C09 rules (never executed).
#include <pika/synchronization/barrier.hpp>
#include <pika/synchronization/event.hpp>
#include <pika/synchronization/latch.hpp>
#include <pika/synchronization/once.hpp>

namespace verif_c09 {
    inline void f() {}
    struct completion
    {
        void operator()() noexcept {}
    };
    inline void instantiate()
    {
        pika::once_flag flag;
        pika::call_once(flag, &f);
        pika::barrier<completion> b(2);
        auto t = b.arrive();
        b.wait(std::move(t));
        b.arrive_and_wait();
        b.arrive_and_drop();
        pika::barrier<> b2(2);
        b2.arrive_and_wait();
    }
}    // namespace verif_c09
