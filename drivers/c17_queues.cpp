// Instantiation source for C17 rules (never executed).
#include <pika/concurrency/deque.hpp>
#include <pika/concurrency/detail/contiguous_index_queue.hpp>
#include <pika/schedulers/lockfree_queue_backends.hpp>

#include <cstdint>

// (not an explicit instantiation of the whole class: contiguous_index_queue::operator= is ill-formed when
// instantiated - it assigns a range to the cache_line_data wrapper instead of its data_ member)
namespace verif_c17 {
    inline void instantiate()
    {
        pika::concurrency::detail::contiguous_index_queue<std::uint32_t> q(0, 10);
        (void) q.pop_left();
        (void) q.pop_right();
        (void) q.empty();
        q.reset(0, 1);
        pika::concurrency::detail::contiguous_index_queue<std::uint32_t> q2(q);
    }
}    // namespace verif_c17
template struct pika::concurrency::detail::deque<int>;
template struct pika::threads::detail::lockfree_fifo_backend<int*>;
#if defined(PIKA_HAVE_CXX11_STD_ATOMIC_128BIT)
template struct pika::threads::detail::lockfree_lifo_backend<int*>;
template struct pika::threads::detail::lockfree_abp_fifo_backend<int*>;
template struct pika::threads::detail::lockfree_abp_lifo_backend<int*>;
#endif
