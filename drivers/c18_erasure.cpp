// Instantiation source for C18 rules (never executed).
#include <pika/execution/algorithms/just.hpp>
#include <pika/execution_base/any_sender.hpp>
#include <pika/functional/function.hpp>
#include <pika/functional/unique_function.hpp>

namespace verif_c18 {
    namespace ex = pika::execution::experimental;
    struct sink
    {
        template <typename... Ts>
        void set_value(Ts&&...) && noexcept
        {
        }
        template <typename E>
        void set_error(E&&) && noexcept
        {
        }
        void set_stopped() && noexcept {}
        constexpr ex::empty_env get_env() const& noexcept { return {}; }
    };
    inline void instantiate()
    {
        ex::unique_any_sender<int> u(ex::just(1));
        ex::unique_any_sender<int> u2(std::move(u));
        u = std::move(u2);
        u.reset();
        ex::any_sender<int> a(ex::just(1));
        ex::any_sender<int> a2(a);
        a = a2;
        a2 = std::move(a);
        ex::unique_any_sender<int> u3(std::move(a2));
        u3 = ex::any_sender<int>(ex::just(2));
        auto os = ex::connect(std::move(u3), sink{});
        ex::start(os);
        auto os2 = ex::connect(a, sink{});
        ex::start(os2);
        // re-seating through reset(): from an lvalue wrapper (a copy), an rvalue wrapper, a concrete sender (C18.R7)
        ex::any_sender<int> a3(ex::just(3)), a4(ex::just(4));
        a3.reset(a4);
        a3.reset(std::move(a4));
        a3.reset(ex::just(5));
        ex::any_sender<int> const a5(ex::just(5));
        a3.reset(a5);
        ex::unique_any_sender<int> u4(ex::just(6)), u5(ex::just(7));
        u4.reset(std::move(u5));
        u4.reset(ex::just(8));
        u4.reset(a3);

        pika::util::detail::function<void()> f = [] {};
        pika::util::detail::function<void()> g = f;
        g = std::move(f);
        pika::util::detail::unique_function<void()> uf = [] {};
        pika::util::detail::unique_function<void()> ug = std::move(uf);
        ug();
        g();
        ug.reset();
    }
}    // namespace verif_c18
