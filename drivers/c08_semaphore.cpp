// Instantiation source for C08 rules (never executed).
#include <pika/execution/algorithms/just.hpp>
#include <pika/execution/algorithms/sync_wait.hpp>
#include <pika/synchronization/counting_semaphore.hpp>
#include <pika/synchronization/sliding_semaphore.hpp>

template class pika::counting_semaphore<>;
template class pika::binary_semaphore<>;
template class pika::sliding_semaphore_var<>;

namespace verif_c08 {
    inline void instantiate_sync_wait()
    {
        namespace ex = pika::execution::experimental;
        pika::this_thread::experimental::sync_wait(ex::just());
        (void) pika::this_thread::experimental::sync_wait(ex::just(3));
    }
}    // namespace verif_c08
