// Instantiation source for C06 rules (never executed): header-only lock types.
#include <pika/concurrency/spinlock.hpp>
#include <pika/synchronization/mutex.hpp>
#include <pika/synchronization/recursive_mutex.hpp>
#include <pika/thread_support/spinlock.hpp>

template struct pika::detail::recursive_mutex_impl<>;
