// Parse source for C10 rules (never executed): scheduler operation states and schedule_from.
#include <pika/execution/algorithms/schedule_from.hpp>
#include <pika/executors/std_thread_scheduler.hpp>
#include <pika/executors/thread_pool_scheduler.hpp>
#include <pika/executors/thread_pool_scheduler_bulk.hpp>
