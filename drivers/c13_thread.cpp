// Instantiation source for C13 rules (never executed).
#include <pika/threading/jthread.hpp>
#include <pika/threading/thread.hpp>
namespace verif_c13 {
    inline void f()
    {
        pika::jthread t;
    }
}    // namespace verif_c13
