// Parse source for C20 rules (never executed): the MPI sender adaptor (needs the MPI flags).
#include <pika/async_mpi/mpi_helpers.hpp>
#include <pika/async_mpi/mpi_polling.hpp>
#include <pika/async_mpi/transform_mpi.hpp>
