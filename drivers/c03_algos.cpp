// Parse source for C03 rules (never executed): every sender adaptor / factory header.
#include <pika/execution/algorithms/bulk.hpp>
#include <pika/execution/algorithms/continues_on.hpp>
#include <pika/execution/algorithms/drop_operation_state.hpp>
#include <pika/execution/algorithms/drop_value.hpp>
#include <pika/execution/algorithms/ensure_started.hpp>
#include <pika/execution/algorithms/execute.hpp>
#include <pika/execution/algorithms/just.hpp>
#include <pika/execution/algorithms/let_error.hpp>
#include <pika/execution/algorithms/let_value.hpp>
#include <pika/execution/algorithms/require_started.hpp>
#include <pika/execution/algorithms/schedule_from.hpp>
#include <pika/execution/algorithms/split.hpp>
#include <pika/execution/algorithms/split_tuple.hpp>
#include <pika/execution/algorithms/start_detached.hpp>
#include <pika/execution/algorithms/sync_wait.hpp>
#include <pika/execution/algorithms/then.hpp>
#include <pika/execution/algorithms/transfer_just.hpp>
#include <pika/execution/algorithms/transfer_when_all.hpp>
#include <pika/execution/algorithms/unpack.hpp>
#include <pika/execution/algorithms/when_all.hpp>
#include <pika/execution/algorithms/when_all_vector.hpp>
#include <pika/execution_base/any_sender.hpp>

// Instantiations for code whose template *pattern* has no CFG (range-for over a dependent range).
#include <tuple>
#include <vector>
namespace verif_c03 {
    namespace ex = pika::execution::experimental;
    struct sink
    {
        template <typename... Ts>
        void set_value(Ts&&...) && noexcept
        {
        }
        template <typename E>
        void set_error(E&&) && noexcept
        {
        }
        void set_stopped() && noexcept {}
        constexpr ex::empty_env get_env() const& noexcept { return {}; }
    };
    inline void body(int) {}
    template <typename S>
    void run(S&& s)
    {
        auto os = ex::connect(std::forward<S>(s), sink{});
        ex::start(os);
    }
    inline void instantiate()
    {
        run(ex::bulk(ex::just(), 10, &body));
        auto [a, b] = ex::split_tuple(ex::just(std::tuple<int, double>(1, 2.0)));
        run(std::move(a));
        run(std::move(b));
        std::vector<decltype(ex::just(1))> v;
        run(ex::when_all_vector(std::move(v)));
        std::vector<decltype(ex::just())> w;
        run(ex::when_all_vector(std::move(w)));
    }
}    // namespace verif_c03
