// Instantiation source for C11 rules (never executed).
#include <pika/execution/algorithms/bulk.hpp>
#include <pika/execution/algorithms/just.hpp>
#include <pika/execution/algorithms/then.hpp>
#include <pika/executors/thread_pool_scheduler.hpp>
#include <pika/executors/thread_pool_scheduler_bulk.hpp>

#include <cstddef>

namespace verif_c11 {
    namespace ex = pika::execution::experimental;
    struct sink
    {
        template <typename... Ts>
        void set_value(Ts&&...) && noexcept
        {
        }
        template <typename E>
        void set_error(E&&) && noexcept
        {
        }
        void set_stopped() && noexcept {}
        constexpr ex::empty_env get_env() const& noexcept { return {}; }
    };
    inline void body64(std::size_t) {}
    inline void body32(int) {}
    inline void body64v(std::size_t, int&) {}
    template <typename S>
    void run(S&& s)
    {
        auto os = ex::connect(std::forward<S>(s), sink{});
        ex::start(os);
    }
    inline void instantiate()
    {
        ex::thread_pool_scheduler sched{};
        run(ex::bulk(ex::schedule(sched), std::size_t(10), &body64));
        run(ex::bulk(ex::schedule(sched), 10, &body32));
        run(ex::bulk(ex::schedule(sched) | ex::then([] { return 1; }), std::size_t(10), &body64v));
        // generic (scheduler-less) bulk
        run(ex::bulk(ex::just(), 10, &body32));
        run(ex::bulk(ex::just(1), std::size_t(10), &body64v));
    }
}    // namespace verif_c11
