// Instantiation source for C07 rules (never executed).
#include <pika/synchronization/condition_variable.hpp>
#include <pika/synchronization/mutex.hpp>
#include <pika/synchronization/stop_token.hpp>

#include <mutex>

namespace verif_c07 {
    inline bool pred() { return true; }
    struct user_lock
    {
        void lock() {}
        void unlock() {}
    };
    inline void instantiate()
    {
        pika::mutex m;
        std::unique_lock<pika::mutex> l(m);
        pika::condition_variable cv;
        cv.wait(l);
        cv.wait(l, &pred);
        (void) cv.wait_until(l, pika::chrono::steady_time_point(std::chrono::steady_clock::now()));
        (void) cv.wait_until(l, pika::chrono::steady_time_point(std::chrono::steady_clock::now()), &pred);
        cv.notify_one();
        cv.notify_all();

        pika::condition_variable_any cva;
        cva.wait(l);
        cva.wait(l, &pred);
        (void) cva.wait_until(l, pika::chrono::steady_time_point(std::chrono::steady_clock::now()));
        (void) cva.wait_until(l, pika::chrono::steady_time_point(std::chrono::steady_clock::now()), &pred);
        pika::stop_source src;
        (void) cva.wait(l, src.get_token(), &pred);
        (void) cva.wait_until(l, src.get_token(), pika::chrono::steady_time_point(std::chrono::steady_clock::now()), &pred);
        user_lock ul;
        cva.wait(ul);
        (void) cva.wait_until(ul, pika::chrono::steady_time_point(std::chrono::steady_clock::now()));
        (void) cva.wait(ul, src.get_token(), &pred);
        cva.notify_one();
        cva.notify_all();
    }
}    // namespace verif_c07
