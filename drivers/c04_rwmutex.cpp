// Instantiation source for C04 rules (never executed).
#include <pika/execution/async_rw_mutex.hpp>
#include <pika/execution/algorithms/start_detached.hpp>

namespace verif_c04 {
    namespace ex = pika::execution::experimental;
    struct sink
    {
        template <typename... Ts>
        void set_value(Ts&&...) && noexcept
        {
        }
        template <typename E>
        void set_error(E&&) && noexcept
        {
        }
        void set_stopped() && noexcept {}
        constexpr ex::empty_env get_env() const& noexcept { return {}; }
    };
    template <typename S>
    void run(S&& s)
    {
        auto os = ex::connect(std::forward<S>(s), sink{});
        ex::start(os);
    }
    inline void instantiate()
    {
        ex::async_rw_mutex<> m;
        run(m.read());
        run(m.readwrite());
        ex::async_rw_mutex<int> mi(0);
        run(mi.read());
        run(mi.readwrite());
    }
}    // namespace verif_c04
