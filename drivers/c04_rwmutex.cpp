// Instantiation source for C04 rules (never executed).
#include <pika/execution/async_rw_mutex.hpp>
#include <pika/execution/algorithms/start_detached.hpp>

namespace verif_c04 {
    namespace ex = pika::execution::experimental;
    struct sink
    {
        template <typename... Ts>
        void set_value(Ts&&...) && noexcept
        {
        }
        template <typename E>
        void set_error(E&&) && noexcept
        {
        }
        void set_stopped() && noexcept {}
        constexpr ex::empty_env get_env() const& noexcept { return {}; }
    };
    template <typename S>
    void run(S&& s)
    {
        auto os = ex::connect(std::forward<S>(s), sink{});
        ex::start(os);
    }
    inline void instantiate()
    {
        ex::async_rw_mutex<> m;
        run(m.read());
        run(m.readwrite());
        ex::async_rw_mutex<int> mi(0);
        run(mi.read());
        run(mi.readwrite());
        // assignment over a sender that has not been started (C04.R9)
        auto r1 = mi.read();
        auto r2 = mi.read();
        r1 = std::move(r2);
        auto r3 = mi.read();
        r1 = r3;
        auto w1 = mi.readwrite();
        auto w2 = mi.readwrite();
        w1 = std::move(w2);
        run(std::move(r1));
        run(std::move(r3));
        run(std::move(w1));
        auto v1 = m.read();
        auto v2 = m.read();
        v1 = std::move(v2);
        auto v3 = m.read();
        v1 = v3;
        auto x1 = m.readwrite();
        auto x2 = m.readwrite();
        x1 = std::move(x2);
        run(std::move(v1));
        run(std::move(v3));
        run(std::move(x1));
    }
}    // namespace verif_c04
