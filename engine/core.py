# Core of the /verif static checker: flag derivation, fact extraction (with cache), fact model,
# expression rendering/normalisation and the generic forward dataflow used by the rule kinds.
# Nothing here runs pika; everything is computed from the facts pikafacts emits for the
# *current* /repo working tree.
import glob
import hashlib
import json
import os
import re
import subprocess
import sys
import time
from collections import defaultdict, deque

VERIF = os.path.dirname(os.path.dirname(os.path.abspath(__file__)))
REPO = os.environ.get("PIKA_REPO", "/repo")
BUILD = os.path.join(REPO, "_build")
PIKAFACTS = os.path.join(VERIF, "bin", "pikafacts")
CACHE = os.environ.get("VERIF_CACHE") or os.path.join(VERIF, ".cache")
KNOWN = os.path.join(VERIF, "known_functions.txt")
LIBS = os.path.join(REPO, "libs", "pika")

DEFAULT_DEFINES = ["-DFMT_SHARED", "-DPIKA_EXPORTS", "-DSPDLOG_COMPILED_LIB", "-DSPDLOG_FMT_EXTERNAL",
                   "-DSPDLOG_SHARED_LIB", "-D_GNU_SOURCE", "-DNDEBUG"]
MPI_FLAGS = ["-DPIKA_HAVE_MPI", "-DPIKA_HAVE_MODULE_MPI_BASE", "-DPIKA_HAVE_MODULE_ASYNC_MPI",
             "-I/usr/lib/x86_64-linux-gnu/openmpi/include",
             "-I" + os.path.join(REPO, "libs/pika/async_mpi/include"),
             "-I" + os.path.join(REPO, "libs/pika/mpi_base/include")]


class AnalysisBroken(Exception):
    """Anchor not found / TU does not parse / idiom unknown: exit 2, never pass or violation."""


_flags_cache = None
EXTRA = []          # extra configuration flags (thorough tier), appended to every extraction


def base_flags():
    """Compiler flags, derived on every run from the build tree and the directory layout."""
    global _flags_cache
    if _flags_cache is not None:
        return _flags_cache
    defines = None
    std = "-std=c++20"
    incs = []
    src = "layout"
    try:
        rules = subprocess.run(["ninja", "-C", BUILD, "-t", "rules"], capture_output=True, text=True,
                               timeout=60).stdout.split()
        rule = [r for r in rules if re.match(r"CXX_COMPILER__pika_unscanned_", r)]
        if rule:
            db = json.loads(subprocess.run(["ninja", "-C", BUILD, "-t", "compdb"] + rule, capture_output=True,
                                           text=True, timeout=60).stdout)
            if db:
                toks = db[0]["command"].split()
                defines = [t for t in toks if t.startswith("-D")]
                for i, t in enumerate(toks):
                    if t.startswith("-std="):
                        std = t.replace("gnu++", "c++")
                    if t.startswith("-I"):
                        incs.append(t)
                src = "ninja compdb rule " + rule[0]
    except Exception:
        pass
    if defines is None:
        defines = list(DEFAULT_DEFINES)
    # include directories: every module's include dir (source and generated), from the layout
    lay = ["-I" + BUILD]
    for d in sorted(glob.glob(os.path.join(LIBS, "*", "include"))):
        rel = os.path.relpath(d, REPO)
        lay.append("-I" + d)
        lay.append("-I" + os.path.join(BUILD, rel))
    seen = set()
    allinc = []
    for t in lay + incs:
        if t not in seen and "miniconda" not in t:
            seen.add(t)
            allinc.append(t)
    if not os.path.isdir(os.path.join(BUILD, "libs", "pika", "config", "include")):
        raise AnalysisBroken("generated headers missing under %s (configure step not done)" % BUILD)
    _flags_cache = ([std] + allinc + defines + ["-Wno-everything", "-ferror-limit=5"], src)
    return _flags_cache


TEST_INCS = ["-I" + os.path.join(REPO, "testing/testing/include"),
             "-I" + os.path.join(REPO, "libs/pika/execution_base/tests/include"),
             "-I" + os.path.join(REPO, "libs/pika/execution/tests/include")]


def _sha(s):
    return hashlib.sha256(s.encode() if isinstance(s, str) else s).hexdigest()


def _file_hash(p):
    try:
        with open(p, "rb") as f:
            return hashlib.sha256(f.read()).hexdigest()
    except OSError:
        return "missing"


def extract(tu, sels, recs=(), extra=(), roots=None, overlay=None, calls=()):
    """Run pikafacts on one TU (cached by TU + flags + selectors + content of every dependency)."""
    flags, _ = base_flags()
    flags = list(flags) + list(EXTRA) + list(extra)
    # llvm::Regex is POSIX ERE: no \w / \d
    sels = [s_.replace("\\w", "[A-Za-z0-9_]").replace("\\d", "[0-9]") for s_ in sels]
    recs = [s_.replace("\\w", "[A-Za-z0-9_]").replace("\\d", "[0-9]") for s_ in recs]
    calls = [s_.replace("\\w", "[A-Za-z0-9_]").replace("\\d", "[0-9]") for s_ in calls]
    roots = roots or [REPO + "/", VERIF + "/drivers/"]
    os.makedirs(CACHE, exist_ok=True)
    tool_h = _file_hash(PIKAFACTS)
    key = _sha(json.dumps([tu, flags, sorted(sels), sorted(recs), roots, tool_h, sorted(calls), _file_hash(KNOWN) if os.path.exists(KNOWN) else "",
                           sorted((k, _file_hash(v)) for k, v in (overlay or {}).items())]))
    out = os.path.join(CACHE, key + ".json")
    dep = os.path.join(CACHE, key + ".deps")
    if os.path.exists(out) and os.path.exists(dep):
        try:
            with open(dep) as f:
                deps = json.load(f)
            if all(_file_hash(p) == h for p, h in deps.items()):
                with open(out) as f:
                    return json.load(f)
        except Exception:
            pass
    if not os.path.exists(PIKAFACTS):
        raise AnalysisBroken("extractor %s not built (run setup_cmd)" % PIKAFACTS)
    # several checks may extract the same TU at the same time (they share this cache): write to a private
    # temporary file and publish it atomically, never delete a published file
    tmp = "%s.%d.tmp" % (out, os.getpid())
    cmd = [PIKAFACTS, "--out", tmp]
    if os.path.exists(KNOWN):
        cmd += ["--known", KNOWN]
    for r in roots:
        cmd += ["--root", r]
    for s in sels:
        cmd += ["--sel", s]
    for s in recs:
        cmd += ["--rec", s]
    for s in calls:
        cmd += ["--calls", s]
    for k, v in (overlay or {}).items():
        cmd += ["--overlay", "%s=%s" % (k, v)]
    cmd += [tu, "--"] + flags
    p = subprocess.run(cmd, capture_output=True, text=True)
    if p.returncode != 0 or not os.path.exists(tmp):
        if os.path.exists(tmp):
            os.unlink(tmp)
        raise AnalysisBroken("pikafacts failed on %s (rc=%s):\n%s" % (tu, p.returncode, p.stderr[-3000:]))
    with open(tmp) as f:
        data = json.load(f)
    deps = {p_: _file_hash(p_) for p_ in data.get("deps", [])}
    deps[tu] = _file_hash(tu)
    dtmp = "%s.%d.tmp" % (dep, os.getpid())
    with open(dtmp, "w") as f:
        json.dump(deps, f)
    os.replace(tmp, out)
    os.replace(dtmp, dep)
    return data


# ----------------------------------------------------------------------------------------------
# expression rendering and normalisation

def short(q):
    return q.rsplit("::", 1)[-1] if q else q


def strip(e):
    """Remove wrappers that do not change the value: move/forward, casts without narrowing info."""
    while isinstance(e, dict):
        k = e.get("k")
        if k == "move":
            e = e["e"]
        elif k == "cast":
            e = e["e"]
        elif k == "call" and e.get("callee") in ("__builtin_expect",) and e.get("args"):
            e = e["args"][0]
        elif k == "call" and e.get("callee_name") == "__builtin_expect" and e.get("args"):
            e = e["args"][0]
        else:
            break
    return e


def is_moved(e):
    while isinstance(e, dict):
        if e.get("k") == "move" and e.get("which") in ("move", "cast", "forward"):
            return True
        if e.get("copied") == "move":
            return True
        if e.get("k") in ("cast",):
            e = e["e"]
            continue
        break
    return False


def callee_of(e):
    """Best name for the thing called: resolved qname, CPO variable, dependent member or name."""
    if e.get("callee_var"):
        return e["callee_var"]
    if e.get("callee"):
        return e["callee"]
    if e.get("callee_member"):
        return "?::" + e["callee_member"]
    if e.get("callee_name"):
        return "?" + e["callee_name"]
    ce = e.get("callee_expr")
    if isinstance(ce, dict):
        if ce.get("k") == "fn":
            return ce["name"]
        if ce.get("k") == "var":
            return ce["name"]
        return T(ce)
    return "?"


def callee_short(e):
    return short(callee_of(e).replace("?::", "").replace("?", ""))


def T(e):
    """Canonical text of an expression tree (derived from the AST, not from source text)."""
    if e is None:
        return ""
    if not isinstance(e, dict):
        return str(e)
    k = e.get("k")
    if k == "this":
        return "this"
    if k == "var":
        return e["name"]
    if k == "enum":
        return e.get("qname") or e["name"]
    if k == "fn":
        return e["name"]
    if k == "lit":
        if "s" in e:
            return json.dumps(e["s"])
        if e.get("null"):
            return "nullptr"
        v = e.get("v")
        if v is True:
            return "true"
        if v is False:
            return "false"
        return str(v)
    if k in ("move", "cast"):
        return T(e["e"])
    if k == "mem":
        b = e.get("base")
        if not e.get("name"):
            return T(b) if b is not None else "this"      # member of an anonymous union/struct
        arrow = e.get("arrow")
        while isinstance(b, dict) and b.get("k") == "mem" and not b.get("name"):
            arrow = b.get("arrow")          # skip anonymous union/struct members
            b = b.get("base")
        bt = T(b) if b is not None else "this"
        if e.get("static") and e.get("qname"):
            return e["qname"]
        if bt.startswith("*") and not arrow:
            return bt[1:] + "->" + e["name"]
        return bt + ("->" if arrow else ".") + e["name"]
    if k == "index":
        return T(e["base"]) + "[" + T(e["idx"]) + "]"
    if k == "un":
        op = e["op"]
        if op == "*":
            return "*" + T(e["e"])
        if e.get("post"):
            return T(e["e"]) + op
        return op + T(e["e"])
    if k == "bin":
        return "(" + T(e["l"]) + " " + e["op"] + " " + T(e["r"]) + ")"
    if k == "cond":
        return "(" + T(e["c"]) + " ? " + T(e["t"]) + " : " + T(e["f"]) + ")"
    if k == "call":
        op = e.get("op")
        recv = e.get("recv")
        args = e.get("args", [])
        if e.get("callee") == "__builtin_expect" and args:
            return T(args[0])
        if op == "->" and recv is not None:
            return T(recv)
        if op == "*" and recv is not None and not args:
            return "*" + T(recv)
        if op == "[]" and recv is not None:
            return T(recv) + "[" + ",".join(T(a) for a in args) + "]"
        if op in ("==", "!=", "<", ">", "<=", ">=", "&&", "||", "+", "-", "|", "&", "<<", ">>") :
            ops = ([recv] if recv is not None else []) + args
            if len(ops) == 2:
                return "(" + T(ops[0]) + " " + op + " " + T(ops[1]) + ")"
        if op == "!" and (recv is not None or args):
            return "!" + T(recv if recv is not None else args[0])
        if op in ("=", "+=", "-=", "|=", "&=") and recv is not None and len(args) == 1:
            return "(" + T(recv) + " " + op + " " + T(args[0]) + ")"
        if op in ("++", "--") and recv is not None:
            return op + T(recv)
        name = callee_short(e)
        if op == "()" and recv is not None and not e.get("callee_var"):
            return T(recv) + "(" + ",".join(T(a) for a in args) + ")"
        if e.get("callee_var") and op == "()":
            return short(e["callee_var"]) + "(" + ",".join(T(a) for a in args) + ")"
        if name.startswith("operator ") and recv is not None and not args:
            return T(recv)            # conversion operator (e.g. operator bool)
        if recv is not None:
            rt = T(recv)
            sep = "->" if (rt.startswith("*") or e.get("arrow") or rt == "this") else "."
            if rt.startswith("*"):
                rt = rt[1:]
            return rt + sep + name + "(" + ",".join(T(a) for a in args) + ")"
        return name + "(" + ",".join(T(a) for a in args) + ")"
    if k in ("construct", "ctor"):
        a_ = e.get("args", [])
        if e.get("rec") in ("std::basic_string", "std::basic_string_view") and a_ and isinstance(strip(a_[0]), dict) and "s" in strip(a_[0]):
            return json.dumps(strip(a_[0])["s"])       # std::string("lit") reads as the literal
        return short(e.get("rec") or e.get("type") or "T") + "{" + ",".join(T(a) for a in e.get("args", [])) + "}"
    if k == "lambda":
        return "lambda#%s" % e.get("id")
    if k == "new":
        return "new " + (e.get("type") or "")
    if k == "delete":
        return "delete " + T(e["e"])
    if k == "fold":
        return "fold(" + e.get("op", "") + "," + T(e.get("e")) + ")"
    if k == "other":
        if "val" in e:
            return str(e["val"])
        return "<" + e.get("cls", "?") + ">"
    return "<" + str(k) + ">"


def P(e):
    """Access path of an lvalue-ish expression (same as T after stripping value-preserving wrappers)."""
    return T(strip(e))


_CMP_FLIP = {">": "<", ">=": "<=", "<": ">", "<=": ">="}


def cond_atoms(e):
    """Normalise a condition leaf to (atom, positive): atom is canonical text, positive tells whether
    the source condition is atom (True) or its negation (False).  '!=' is the negation of '==',
    '>=' of '<', '<=' of '>' expressed with '<' (operands swapped)."""
    e = strip(e)
    if not isinstance(e, dict):
        return (T(e), True)
    k = e.get("k")
    if k == "un" and e["op"] == "!":
        a, p = cond_atoms(e["e"])
        return (a, not p)
    if k == "call" and e.get("op") == "!":
        sub = e.get("recv") if e.get("recv") is not None else (e.get("args") or [None])[0]
        a, p = cond_atoms(sub)
        return (a, not p)
    op = None
    l = r = None
    if k == "bin" and e["op"] in ("==", "!=", "<", ">", "<=", ">="):
        op, l, r = e["op"], e["l"], e["r"]
    elif k == "call" and e.get("op") in ("==", "!=", "<", ">", "<=", ">="):
        ops = ([e["recv"]] if e.get("recv") is not None else []) + e.get("args", [])
        if len(ops) == 2:
            op, l, r = e["op"], ops[0], ops[1]
    if op:
        lt, rt = P(l), P(r)
        if op in ("==", "!="):
            a, b = sorted([lt, rt])
            return ("%s == %s" % (a, b), op == "==")
        if op == "<":
            return ("%s < %s" % (lt, rt), True)
        if op == ">":
            return ("%s < %s" % (rt, lt), True)
        if op == ">=":
            return ("%s < %s" % (lt, rt), False)
        if op == "<=":
            return ("%s < %s" % (rt, lt), False)
    if k == "call" and callee_short(e).startswith("operator bool") and e.get("recv") is not None:
        return cond_atoms(e["recv"])
    return (T(e), True)


def walk(e, fn):
    """Pre-order walk over an expression tree."""
    if isinstance(e, dict):
        fn(e)
        for v in e.values():
            if isinstance(v, (dict, list)):
                walk(v, fn)
    elif isinstance(e, list):
        for x in e:
            walk(x, fn)


def subexprs(e, pred):
    out = []
    walk(e, lambda x: out.append(x) if pred(x) else None)
    return out


def mentions(e, path):
    """Does expression e mention access path `path` (exactly, as a sub-expression)?"""
    found = []

    def f(x):
        if x.get("k") in ("var", "mem", "this", "index") and P(x) == path:
            found.append(1)
    walk(e, f)
    return bool(found)


# ----------------------------------------------------------------------------------------------
# fact model

class Block:
    __slots__ = ("id", "events", "succ", "cond", "term", "raw")

    def __init__(self, raw):
        self.raw = raw
        self.id = raw["id"]
        self.events = raw["events"]
        self.term = raw.get("term", {})
        self.cond = self.term.get("cond")
        self.succ = [(s.get("label", "next"), s["block"], s) for s in self.term.get("succ", [])]


class Fn:
    def __init__(self, raw, facts):
        self.raw = raw
        self.facts = facts
        self.id = raw["id"]
        self.qname = raw["qname"]
        self.loc = raw.get("loc", "")
        self.pattern = raw.get("pattern", False)
        self.full = raw.get("full", self.qname)
        self.kind = raw.get("kind")
        self.record = raw.get("record")
        self.parent = raw.get("parent_fn", -1)
        self.params = raw.get("params", [])
        self.blocks = {b["id"]: Block(b) for b in raw.get("blocks", [])}
        self.entry = raw.get("entry")
        self.exit = raw.get("exit")
        self.tries = {t["id"]: t for t in raw.get("tries", [])}
        self._preds = None

    def __repr__(self):
        return "<Fn %s %s%s>" % (self.qname, self.loc, " pattern" if self.pattern else "")

    @property
    def file(self):
        return self.loc.rsplit(":", 1)[0]

    def succs(self, b, eh=False):
        return [(lab, t) for (lab, t, _) in self.blocks[b].succ if t is not None and t >= 0 and t in self.blocks]

    def preds(self):
        if self._preds is None:
            p = defaultdict(list)
            for b in self.blocks.values():
                for lab, t, _ in b.succ:
                    if t in self.blocks:
                        p[t].append((b.id, lab))
            self._preds = p
        return self._preds

    def all_events(self):
        for b in self.blocks.values():
            for i, ev in enumerate(b.events):
                yield b.id, i, ev

    def events_where(self, pred):
        return [(b, i, ev) for b, i, ev in self.all_events() if pred(ev)]

    def calls(self, name_re=None, pred=None):
        rx = re.compile(name_re) if name_re else None
        out = []
        for b, i, ev in self.all_events():
            if ev.get("k") != "call":
                continue
            if rx and not rx.search(callee_of(ev)):
                continue
            if pred and not pred(ev):
                continue
            out.append((b, i, ev))
        return out

    def lambdas(self):
        adopted = set(self.raw.get("adopted", []))
        return [f for f in self.facts.fns if f.parent == self.id or f.id in adopted]

    def reachable_blocks(self, eh=True):
        seen = set()
        work = [self.entry]
        handler_of = {}
        while work:
            b = work.pop()
            if b in seen or b not in self.blocks:
                continue
            seen.add(b)
            for lab, t in self.succs(b):
                work.append(t)
            if eh:
                for ev in self.blocks[b].events:
                    t = ev.get("try")
                    if t is not None and t in self.tries:
                        for h in self.tries[t]["handlers"]:
                            work.append(h["block"])
        return seen

    def rpo(self):
        seen = set()
        order = []

        def dfs(b):
            stack = [(b, iter([t for _, t in self.succs(b)]))]
            seen.add(b)
            while stack:
                n, it = stack[-1]
                adv = False
                for t in it:
                    if t not in seen:
                        seen.add(t)
                        stack.append((t, iter([x for _, x in self.succs(t)])))
                        adv = True
                        break
                if not adv:
                    order.append(n)
                    stack.pop()
        dfs(self.entry)
        # handler blocks are not reachable by normal edges
        for t in self.tries.values():
            for h in t["handlers"]:
                if h["block"] not in seen:
                    dfs(h["block"])
        return list(reversed(order))


class Facts:
    def __init__(self, raw, flatten=()):
        if not os.environ.get("VERIF_NO_INLINE") or flatten:
            from . import inline
            raw = inline.normalise(raw, flatten)
        self.raw = raw
        self.tu = raw.get("tu")
        allf = [Fn(f, self) for f in raw.get("functions", [])]
        self.by_id = {f.id: f for f in allf}
        # functions that do not exist in the reference tree are analysed through the callers they were spliced into
        # (a new function that nobody among the analysed functions calls - e.g. a new customisation point member - is
        # analysed like any other function)
        spliced = set(raw.get("_spliced_ids", []))
        self.new_helpers = [f for f in allf if f.raw.get("new_helper") and f.id in spliced]
        self.fns = [f for f in allf if not (f.raw.get("new_helper") and f.id in spliced)]
        self.records = raw.get("records", {})
        self.enums = raw.get("enums", {})
        self.asm = raw.get("asm", [])
        self.globals = raw.get("globals", {})

    def find(self, qname_re, pattern=None, kind=None):
        rx = re.compile(qname_re)
        out = []
        for f in self.fns:
            if not rx.search(f.qname):
                continue
            if pattern is not None and f.pattern != pattern:
                continue
            if kind is not None and f.kind != kind:
                continue
            out.append(f)
        return out

    def one(self, qname_re, **kw):
        fs = self.find(qname_re, **kw)
        if not fs:
            raise AnalysisBroken("anchor function not found: %s in %s" % (qname_re, self.tu))
        return fs

    def record(self, qname):
        out = [r for r in self.records.values() if r["qname"] == qname]
        return out


# ----------------------------------------------------------------------------------------------
# generic forward dataflow at event granularity

NONTHROWING_CALLEES = re.compile(
    r"(^|::)(set_value|set_error|set_stopped|start|move|forward|current_exception|get|owns_lock|"
    r"__builtin_expect|empty|size|load|store|exchange|fetch_add|fetch_sub|compare_exchange_weak|"
    r"compare_exchange_strong|operator bool|operator->|operator\*|has_value|reset|unlock)$")


def may_throw(ev):
    k = ev.get("k")
    if k == "throw":
        return True
    if k == "write" and ev.get("try") is not None:
        return True          # assignment through an overloaded/dependent operator= inside a try block
    if k == "decl" and ev.get("try") is not None and ev.get("init") is not None:
        return True          # construction of a local (possibly of dependent type) inside a try block
    if k in ("call", "ctor", "new"):
        if ev.get("noexcept"):
            return False
        if k == "call" and NONTHROWING_CALLEES.search(callee_of(ev)):
            return False
        return True
    return False


def forward(fn, init, transfer, edge=None, join=None, eh=True, handler_entry=None, edge_raw=None):
    """Forward dataflow to a fixed point.
    transfer(state, ev, (b, i)) -> state ; edge(state, block, label, cond) -> state or None (edge dead)
    join(a, b) -> state.  States must be comparable with ==.  Returns (before, block_in, block_out)
    where before[(b, i)] is the state just before event i of block b."""
    if join is None:
        def join(a, b):
            return a | b
    blocks = fn.blocks
    order = fn.rpo()
    pos = {b: n for n, b in enumerate(order)}
    block_in = {fn.entry: init}
    block_out = {}
    before = {}
    work = deque([fn.entry])
    inwork = {fn.entry}
    iters = 0
    while work:
        iters += 1
        if iters > 200000:
            raise AnalysisBroken("dataflow did not converge in %s" % fn.qname)
        b = work.popleft()
        inwork.discard(b)
        st = block_in.get(b)
        if st is None:
            continue
        blk = blocks[b]
        pending = []
        for i, ev in enumerate(blk.events):
            before[(b, i)] = st if (b, i) not in before or iters < 0 else st
            if eh and ev.get("try") is not None and ev["try"] in fn.tries and may_throw(ev):
                hs = handler_entry(st, ev) if handler_entry else st
                for h in fn.tries[ev["try"]]["handlers"]:
                    pending.append((h["block"], hs))
            st = transfer(st, ev, (b, i))
        block_out[b] = st
        for lab, t, raw in blk.succ:
            if t is None or t < 0 or t not in blocks:
                continue
            s2 = edge(st, blk, lab, blk.cond) if edge else st
            if s2 is None:
                continue
            if edge_raw:
                s2 = edge_raw(s2, blk, raw)
                if s2 is None:
                    continue
            pending.append((t, s2))
        for t, s2 in pending:
            old = block_in.get(t)
            new = s2 if old is None else join(old, s2)
            if old is None or new != old:
                block_in[t] = new
                if t not in inwork:
                    inwork.add(t)
                    work.append(t)
    return before, block_in, block_out


def block_path(fn, target_block):
    """Shortest block path entry -> target (for diagnostics), following normal and EH edges."""
    prev = {fn.entry: None}
    q = deque([fn.entry])
    while q:
        b = q.popleft()
        if b == target_block:
            break
        nxt = [t for _, t in fn.succs(b)]
        for ev in fn.blocks[b].events:
            t = ev.get("try")
            if t is not None and t in fn.tries:
                nxt += [h["block"] for h in fn.tries[t]["handlers"]]
        for t in nxt:
            if t not in prev:
                prev[t] = b
                q.append(t)
    if target_block not in prev:
        return []
    out = []
    b = target_block
    while b is not None:
        out.append(b)
        b = prev[b]
    return list(reversed(out))


def dominators(fn):
    """Block dominator sets (iterative), EH edges ignored."""
    order = fn.rpo()
    allb = set(order)
    dom = {b: set(allb) for b in order}
    dom[fn.entry] = {fn.entry}
    preds = fn.preds()
    changed = True
    while changed:
        changed = False
        for b in order:
            if b == fn.entry:
                continue
            ps = [p for p, _ in preds.get(b, []) if p in dom]
            if not ps:
                new = {b}
            else:
                new = set.intersection(*[dom[p] for p in ps]) | {b}
            if new != dom[b]:
                dom[b] = new
                changed = True
    return dom


# ----------------------------------------------------------------------------------------------
# results

class Violation:
    def __init__(self, rule, fn, loc, key, msg, path=None):
        self.rule = rule
        self.fn = fn.qname if isinstance(fn, Fn) else fn
        self.full = fn.full if isinstance(fn, Fn) else fn
        self.loc = loc
        self.key = key          # stable, line-independent discriminator
        self.msg = msg
        self.path = path or []

    def ident(self):
        return "%s|%s|%s" % (self.rule, self.fn, self.key)

    def to_json(self):
        return {"rule": self.rule, "function": self.fn, "instantiation": self.full, "loc": self.loc,
                "key": self.key, "message": self.msg, "path": self.path}


class Report:
    """Collects what a property check analysed and found."""

    def __init__(self, prop):
        self.prop = prop
        self.violations = []
        self.obligations = 0        # rule instance x function evaluations
        self.discharged = 0
        self.sites = 0              # events / paths / accesses examined
        self.instances = defaultdict(int)   # rule id -> non-vacuous instances
        self.samples = []
        self.tus = set()
        self.functions = set()
        self.notes = []
        self.rules = {}
        self.held = []              # (rule id, function, what) of every instance that held (import_rules filters on it)

    def rule(self, rid, text):
        self.rules[rid] = text

    def ok(self, rid, fn, what, sites=1, sample=None):
        self.obligations += 1
        self.discharged += 1
        self.sites += sites
        self.instances[rid] += 1
        if isinstance(fn, Fn):
            self.functions.add(fn.full)
        self.held.append((rid, fn.qname if isinstance(fn, Fn) else str(fn), what))
        if sample or len([s for s in self.samples if s.get("rule") == rid]) < 2:
            self.samples.append({"rule": rid, "function": fn.qname if isinstance(fn, Fn) else str(fn),
                                 "loc": fn.loc if isinstance(fn, Fn) else "", "established": what})

    def bad(self, rid, fn, loc, key, msg, path=None):
        self.obligations += 1
        self.instances[rid] += 1
        if isinstance(fn, Fn):
            self.functions.add(fn.full)
        v = Violation(rid, fn, loc, key, msg, path)
        # de-duplicate identical findings across instantiations
        if not any(o.ident() == v.ident() for o in self.violations):
            self.violations.append(v)
        return v

    def require(self, cond, what):
        if not cond:
            raise AnalysisBroken(what)


def loc_of(ev):
    return ev.get("loc", "")
