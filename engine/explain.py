# The level text of a check: the module's EXPLANATION plus one clause for every rule the module registers that the
# (older) EXPLANATION text does not mention by number.  Rule titles are read from the rep.rule("Cnn.Rk", "title")
# registrations in the module's source (string concatenations are evaluated with ast.literal_eval).
import ast
import os
import re

V = os.path.dirname(os.path.dirname(os.path.abspath(__file__)))


def rule_titles(pid):
    src = open(os.path.join(V, "rules", pid + ".py")).read()
    tree = ast.parse(src)
    out = []
    for node in ast.walk(tree):
        if isinstance(node, ast.Call) and isinstance(node.func, ast.Attribute) and node.func.attr == "rule" and len(node.args) >= 2:
            try:
                rid = ast.literal_eval(node.args[0])
                title = ast.literal_eval(node.args[1])
            except Exception:
                continue
            if isinstance(rid, str) and rid.startswith(pid + ".R"):
                out.append((rid, title))
        # rules adopted from another property's module: import_rules(rep, tier, "Cmm", (...), "Cnn.Rk", "text")
        if isinstance(node, ast.Call) and getattr(node.func, "id", getattr(node.func, "attr", "")) == "import_rules" and len(node.args) >= 6:
            try:
                rid = ast.literal_eval(node.args[4])
                title = ast.literal_eval(node.args[5])
                out.append((rid, title))
            except Exception:
                continue
    seen = set()
    uniq = []
    for rid, title in sorted(out, key=lambda x: int(x[0].rsplit("R", 1)[1])):
        if rid not in seen:
            seen.add(rid)
            uniq.append((rid, title))
    return uniq


def full_explanation(pid, explanation):
    later = []
    for rid, title in rule_titles(pid):
        short = rid.split(".")[1]
        if not re.search(r"\(%s\)|\b%s\b" % (re.escape(short), re.escape(short)), explanation):
            later.append("%s: %s" % (short, title))
    if not later:
        return explanation
    return explanation + " Rules added after this summary was written (each a structural necessary condition, decided the same way): " + " | ".join(later) + "."
