# Completion typestate for sender/receiver code (C03, C04, C11, C20): how many times does a function
# hand off its downstream receiver?  Interprocedural inside one Facts object through summaries.
import re
from .core import P, T, callee_of, callee_short, strip, subexprs, may_throw, is_moved, AnalysisBroken
from .kinds import CountFlow

NS = "pika::execution::experimental::"
CPO = {NS + "set_value": "value", NS + "set_error": "error", NS + "set_stopped": "stopped"}
# helpers whose own protocol is checked by dedicated rules; a call counts as one hand-off
PROTOCOL = {"release": "protocol", "signal_set_called": "protocol", "set_predecessor_done": "protocol", "finish": "protocol"}
INVOKED_HERE = {"with_result_of", "try_catch_exception_ptr"}


class Summary:
    __slots__ = ("normal", "exc", "channels", "sites")

    def __init__(self, normal, exc, channels, sites):
        self.normal = frozenset(normal)
        self.exc = frozenset(exc)
        self.channels = frozenset(channels)
        self.sites = sites

    def __repr__(self):
        return "<Summary normal=%s exc=%s ch=%s>" % (sorted(self.normal), sorted(self.exc), sorted(self.channels))


def _add(a, b):
    return frozenset(min(2, x + y) for x in a for y in b)


class Completions:
    def __init__(self, facts, protocol=PROTOCOL):
        self.F = facts
        self.memo = {}
        self.active = set()
        self.protocol = protocol
        self.receiver_records = set()
        for f in facts.fns:
            if f.parent == -1 and f.kind == "method" and f.qname.rsplit("::", 1)[-1] in ("set_value", "set_error", "set_stopped") and f.record:
                self.receiver_records.add(f.record)
        self.by_short = {}
        for f in facts.fns:
            if f.parent == -1:
                self.by_short.setdefault(f.qname.rsplit("::", 1)[-1], []).append(f)

    def ns_root(self, fn):
        top = fn
        while top.parent != -1 and top.parent in self.F.by_id:
            top = self.F.by_id[top.parent]
        parts = top.qname.split("::")
        return "::".join(parts[:2]), top

    def helper_candidates(self, fn, ev):
        name = callee_short(ev)
        root, top = self.ns_root(fn)
        out = []
        q = ev.get("callee")
        for f in self.by_short.get(name, []):
            if q and f.qname != q:
                continue
            if not f.qname.startswith(root + "::"):
                continue
            if f is top:
                continue
            out.append(f)
        out = [f for f in out if f.qname != top.qname]
        # receiver object is *this (directly or through `auto r = std::move(*this)`): same record only
        recv = ev.get("recv")
        if recv is not None:
            rp = P(recv)
            is_self = rp == "this"
            if not is_self and re.match(r"^\w+$", rp):
                for _, _, d in fn.all_events():
                    if d.get("k") == "decl" and d.get("var") == rp and d.get("init") is not None and P(d["init"]) in ("*this",):
                        is_self = True
                owner = fn
                while not is_self and owner.parent != -1 and owner.parent in self.F.by_id:
                    owner = self.F.by_id[owner.parent]
                    for _, _, d in owner.all_events():
                        if d.get("k") == "decl" and d.get("var") == rp and d.get("init") is not None and P(d["init"]) in ("*this",):
                            is_self = True
            if is_self and top.record:
                mine = [f for f in out if f.record == top.record]
                if mine:
                    out = mine
        # prefer the same kind (pattern vs instantiation) as the caller
        same = [f for f in out if f.pattern == top.pattern]
        return same or out

    def visitor_ops(self, rec):
        return [f for f in self.F.fns if f.parent == -1 and f.qname == rec + "::operator()"]

    def summary(self, fn):
        if fn.id in self.memo:
            return self.memo[fn.id]
        if fn.id in self.active:
            return Summary({0}, set(), set(), 0)
        self.active.add(fn.id)
        channels = set()
        sites = [0]

        def count(ev, pos):
            inc = self.event_inc(fn, ev, channels)
            if inc and inc != frozenset([0]):
                sites[0] += 1
            return inc
        cf = CountFlow(fn, count)
        s = Summary(cf.exits, cf.exc, channels, sites[0])
        self.active.discard(fn.id)
        self.memo[fn.id] = s
        return s

    def lambda_fn(self, e):
        e = strip(e)
        if isinstance(e, dict) and e.get("k") == "lambda":
            return self.F.by_id.get(e.get("id"))
        return None

    def event_inc(self, fn, ev, channels):
        """possible hand-off increments of one event: frozenset of ints, or 0"""
        k = ev.get("k")
        if k != "call":
            return 0
        cal = callee_of(ev)
        name = callee_short(ev)
        args = ev.get("args", [])
        # 1. completion CPOs
        if cal in CPO:
            channels.add(CPO[cal])
            return frozenset([1])
        # virtual hand-off of type-erased receivers (resolved, or member call on a '...receiver' pointer in a pattern)
        if name in ("set_value", "set_error", "set_stopped") and ev.get("recv") is not None and \
                ((ev.get("virtual") and "any_receiver" in (ev.get("rec") or "")) or
                 (ev.get("arrow") and re.search(r"receiver$", P(ev["recv"])) and not cal.startswith(NS))):
            channels.add({"set_value": "value", "set_error": "error", "set_stopped": "stopped"}[name])
            return frozenset([1])
        # 2. connect(sender, std::move(receiver)) or connect(sender, InternalReceiver{...}): the connected operation
        #    completes the downstream receiver later (internal receivers are themselves subject to the same rule)
        if cal == NS + "connect":
            for a in args:
                if is_moved(a) and re.search(r"receiver$", P(a)):
                    channels.add("connect")
                    return frozenset([1])
                a0 = strip(a)
                if isinstance(a0, dict) and a0.get("k") == "construct" and a0.get("rec") in self.receiver_records:
                    channels.add("connect")
                    return frozenset([1])
        # 3. invoked-here lambdas
        if name == "try_catch_exception_ptr" and len(args) >= 2:
            f, g = self.lambda_fn(args[0]), self.lambda_fn(args[1])
            if f is None or g is None:
                return 0
            sf, sg = self.summary(f), self.summary(g)
            channels.update(sf.channels | sg.channels)
            out = set(sf.normal)
            if sf.exc:
                out |= _add(sf.exc, sg.normal)
            return frozenset(out) or frozenset([0])
        if name == "with_result_of" and args:
            f = self.lambda_fn(args[0])
            if f is not None:
                sf = self.summary(f)
                channels.update(sf.channels)
                return sf.normal or frozenset([0])
        # 4. visit(Visitor{...}, variant)
        if name == "visit" and args:
            v = strip(args[0])
            rec = v.get("rec") if isinstance(v, dict) and v.get("k") == "construct" else None
            if rec is None and isinstance(v, dict) and v.get("k") == "var":
                m = re.match(r"^([\w:]+)", v.get("type") or "")
                rec = None
            ops = self.visitor_ops(rec) if rec else []
            if ops:
                out = set()
                for o in ops:
                    so = self.summary(o)
                    channels.update(so.channels)
                    out |= set(so.normal)
                if out and out != {0}:
                    return frozenset(out)
                return 0
            lam = self.lambda_fn(args[0])
            if lam is not None:
                sl = self.summary(lam)
                channels.update(sl.channels)
                return sl.normal or 0
            return 0
        # 5. std::apply(f, tuple) where f hands off
        if name in ("apply", "invoke", "invoke_fused") and args:
            a0 = args[0]
            refs = subexprs(a0, lambda x: x.get("k") == "var" and x.get("name") in CPO)
            if refs:
                for r in refs:
                    channels.add(CPO[r["name"]])
                return frozenset([1])
            lam = self.lambda_fn(a0)
            if lam is not None:
                sl = self.summary(lam)
                channels.update(sl.channels)
                return sl.normal or 0
            return 0
        # 6. protocol helpers (checked by their own rules)
        if name in self.protocol and ev.get("recv") is not None:
            channels.add(self.protocol[name])
            return frozenset([1])
        # 7. helper members / free helpers in the same detail namespace (never the P2300 CPOs themselves)
        if (cal.startswith("?") or cal.startswith("pika::")) and not cal.startswith(NS):
            cands = self.helper_candidates(fn, ev)
            if cands:
                out = set()
                ch = set()
                for c in cands:
                    sc = self.summary(c)
                    out |= set(sc.normal)
                    ch |= set(sc.channels)
                if out and out != {0}:
                    channels.update(ch)
                    return frozenset(out)
        # 8. direct invocation of a local lambda variable
        if ev.get("op") == "()" and ev.get("recv") is not None and strip(ev["recv"]).get("k") == "var":
            ini = None
            for _, _, d in fn.all_events():
                if d.get("k") == "decl" and d.get("var") == P(ev["recv"]):
                    ini = d.get("init")
            lam = self.lambda_fn(ini) if ini is not None else None
            if lam is not None:
                sl = self.summary(lam)
                channels.update(sl.channels)
                return sl.normal or 0
        return 0
