# Rule-kind engines: lock state (K1), branch facts / check-then-act (K4, K2 domination by an edge),
# counting typestate (K3), ordering (K2).  See DESIGN.md section 4 and appendix C.
import re
from .core import (AnalysisBroken, Fn, P, T, callee_of, callee_short, cond_atoms, forward, is_moved, may_throw,
                   short, strip, walk, block_path, loc_of)

GUARD_RECS = {"std::unique_lock", "std::lock_guard", "std::scoped_lock"}
UNLOCK_GUARD_RECS = {"pika::detail::unlock_guard"}
# callees that release and re-acquire the lock they are handed by reference
RELEASING = {"wait", "wait_until", "wait_for", "sleep_until", "sleep_for", "suspend", "yield", "yield_k"}
# callees that take the guard by reference and keep it held throughout
NON_RELEASING = {"size", "empty", "owns_lock", "mutex", "abort_all", "ignore_while_checking", "wait_locked",
                 "assert_owns_lock", "verify_locked", "operator bool", "push_back", "cleanup_terminated_locked",
                 "get_queue_length_locked", "ignore_all_while_checking"}


def guard_kind(rec):
    if rec in GUARD_RECS:
        return "guard"
    if rec in UNLOCK_GUARD_RECS:
        return "unlock_guard"
    return None


class LockState:
    """held: frozenset of lock ids held on all paths; guards: frozenset of (var, lock, owns)
    owns in {True, False, None(unknown: try_to_lock before the test)}; wraps: (var, inner_guard)."""
    __slots__ = ("held", "guards")

    def __init__(self, held=frozenset(), guards=frozenset()):
        self.held = held
        self.guards = guards

    def __eq__(self, o):
        return self.held == o.held and self.guards == o.guards

    def __ne__(self, o):
        return not self.__eq__(o)

    def g(self, var):
        for v, l, o, kind in self.guards:
            if v == var:
                return (l, o, kind)
        return None

    def setg(self, var, lock, owns, kind="guard"):
        gs = frozenset(x for x in self.guards if x[0] != var) | {(var, lock, owns, kind)}
        return LockState(self.held, gs)

    def delg(self, var):
        return LockState(self.held, frozenset(x for x in self.guards if x[0] != var))

    def hold(self, lock):
        return LockState(self.held | {lock}, self.guards)

    def drop(self, lock):
        return LockState(self.held - {lock}, self.guards)


def lock_join(a, b):
    held = a.held & b.held
    gs = set()
    bm = {x[0]: x for x in b.guards}
    for x in a.guards:
        y = bm.get(x[0])
        if y is None:
            continue
        if x == y:
            gs.add(x)
        elif x[1] == y[1]:
            gs.add((x[0], x[1], x[2] if x[2] == y[2] else False if (x[2] is False or y[2] is False) else None, x[3]))
    return LockState(held, frozenset(gs))


class LockFlow:
    """Forward must-analysis of which locks are held before every event of a function.

    entry_held: lock ids held at entry (requires_lock table).  Parameters of guard type are held at
    entry under the lock id '@<param>'.  `mutex_recs` lists record qnames whose lock()/unlock()
    member calls are direct lock operations (spinlock, mutex, stop_state ...)."""

    def __init__(self, fn, entry_held=(), mutex_call_re=r"(^|::)(lock|unlock|try_lock)$", alias=None,
                 extra_release=None, try_guard_recs=()):
        self.fn = fn
        self.try_guard_recs = set(try_guard_recs)
        self.alias = alias or {}
        self.unknown = []        # unrecognised idioms (reported as analysis-broken by callers)
        self.release_events = {}      # (b, i) -> lock id released there ('?' = unknown callee handed the guard)
        self.extra_release = extra_release
        st = LockState(frozenset(entry_held))
        for p in fn.params:
            if guard_kind(p.get("rec")) == "guard":
                lid = "@" + p["name"]
                st = st.hold(lid).setg(p["name"], lid, True)
        self.before, self.block_in, self.block_out = forward(
            fn, st, self._transfer, self._edge, lock_join, eh=True)

    def lid(self, e):
        p = P(e)
        return self.alias.get(p, p)

    def _release(self, st, lock, pos):
        self.release_events[pos] = lock
        return st.drop(lock)

    def _transfer(self, st, ev, pos):
        k = ev.get("k")
        if self.extra_release and self.extra_release(ev):
            self.release_events[pos] = "?"
        if k == "ctor":
            gk = guard_kind(ev.get("rec"))
            var = ev.get("var")
            args = ev.get("args", [])
            if ev.get("rec") in self.try_guard_recs and args and var:
                # project-specific RAII helper that may or may not have taken the lock (tested via operator bool)
                return st.setg(var, self.lid(args[0]), None)
            if gk == "guard":
                if not args:
                    return st.setg(var, None, False) if var else st
                if len(args) == 2 and "adopt_lock" in T(args[0]):
                    args = [args[1], args[0]]           # std::scoped_lock(std::adopt_lock, m): the tag comes first
                a0 = strip(args[0])
                a0p = P(a0)
                tag = T(args[1]) if len(args) > 1 else ""
                inner = st.g(a0p) if a0.get("k") == "var" else None
                if ev.get("copymove") == "move" and inner is not None:
                    # guard moved: into a named guard (transfer) or a temporary (consumed by a callee)
                    l, o, kind = inner
                    st2 = st.setg(a0p, l, False)
                    if var:
                        return st2.setg(var, l, o)
                    if o and l is not None:
                        return self._release(st2, l, pos)
                    return st2
                if inner is not None and "adopt_lock" in tag:
                    # lock_guard<unique_lock<M>> x(l, adopt_lock): releases l's lock at scope end
                    return st.setg(var or "?tmp", "guard:" + a0p, True, "adopt")
                if inner is not None:
                    # lock_guard<unique_lock<M>> x(l): locks l
                    l, o, kind = inner
                    st2 = st.setg(a0p, l, True)
                    if l is not None:
                        st2 = st2.hold(l)
                    return st2.setg(var or "?tmp", "guard:" + a0p, True, "adopt")
                lock = self.lid(a0)
                if "try_to_lock" in tag:
                    return st.setg(var or "?tmp", lock, None)
                if "defer_lock" in tag:
                    return st.setg(var or "?tmp", lock, False)
                if "adopt_lock" in tag:
                    return st.hold(lock).setg(var or "?tmp", lock, True)
                st2 = st.hold(lock)
                if var:
                    st2 = st2.setg(var, lock, True)
                else:
                    st2 = st2.setg("?tmp%s" % ev.get("sid"), lock, True)
                return st2
            if gk == "unlock_guard" and args:
                a0 = strip(args[0])
                a0p = P(a0)
                inner = st.g(a0p)
                if inner is not None:
                    l, o, kind = inner
                    st2 = st.setg(a0p, l, False)
                    if l is not None:
                        st2 = self._release(st2, l, pos)
                    return st2.setg(var or "?ul", "guard:" + a0p, True, "unlock_guard")
                lock = self.lid(a0)
                st2 = self._release(st, lock, pos)
                return st2.setg(var or "?ul", lock, True, "unlock_guard_direct")
            return st
        if k == "decl":
            ini = strip(ev.get("init")) if ev.get("init") else None
            if isinstance(ini, dict) and ini.get("k") == "call" and callee_short(ini) == "mutex" and \
                    ini.get("recv") is not None:
                g = st.g(P(ini["recv"]))
                if g is not None and g[0] is not None:
                    self.alias["*" + ev["var"]] = g[0]     # mtx = l.mutex(): *mtx is l's lock
            return st
        if k == "dtor":
            var = ev.get("var")
            gk = guard_kind(ev.get("rec"))
            if ev.get("temp") and gk == "guard":
                g = st.g("?tmp%s" % ev.get("of_sid"))
                if g is not None:
                    l, o, kind = g
                    st = st.delg("?tmp%s" % ev.get("of_sid"))
                    if o and l is not None:
                        return self._release(st, l, pos)
                return st
            if var is None:
                return st
            g = st.g(var)
            if g is None:
                return st
            l, o, kind = g
            st2 = st.delg(var)
            if ev.get("rec") in self.try_guard_recs:
                if o and l is not None:
                    return self._release(st2, l, pos)
                return st2
            if kind == "guard":
                if o and l is not None:
                    return self._release(st2, l, pos)
                return st2
            if kind == "adopt":
                inner_var = l[len("guard:"):]
                ig = st2.g(inner_var)
                if ig is not None and ig[0] is not None:
                    st2 = st2.setg(inner_var, ig[0], False)
                    return self._release(st2, ig[0], pos)
                return st2
            if kind == "unlock_guard":
                inner_var = l[len("guard:"):]
                ig = st2.g(inner_var)
                if ig is not None and ig[0] is not None:
                    return st2.setg(inner_var, ig[0], True).hold(ig[0])
                return st2
            if kind == "unlock_guard_direct":
                return st2.hold(l)
            return st2
        if k == "call":
            name = callee_short(ev)
            recv = ev.get("recv")
            args = ev.get("args", [])
            if recv is not None:
                rp = P(recv)
                g = st.g(rp) if strip(recv).get("k") == "var" else None
                if g is not None:
                    l, o, kind = g
                    if name == "lock":
                        st2 = st.setg(rp, l, True)
                        return st2.hold(l) if l else st2
                    if name == "unlock":
                        st2 = st.setg(rp, l, False)
                        return self._release(st2, l, pos) if l else st2
                    if name == "try_lock":
                        return st.setg(rp, l, None)
                    if name == "release":
                        return st.setg(rp, l, False)
                    if name == "operator=" and args:
                        a = strip(args[0])
                        if a.get("k") == "construct" and guard_kind(a.get("rec")) == "guard" and a.get("args"):
                            lock = self.lid(a["args"][0])
                            # the temporary guard that was created for the assignment hands its lock over
                            tmp = "?tmp%s" % a.get("sid")
                            st2 = st.delg(tmp) if st.g(tmp) else st
                            return st2.hold(lock).setg(rp, lock, True)
                        if a.get("k") == "var" and st.g(P(a)) is not None:
                            l2, o2, k2 = st.g(P(a))
                            return st.setg(P(a), l2, False).setg(rp, l2, o2)
                    return st
                # direct operations on a mutex object
                if name in ("lock", "unlock") and ev.get("rec") and not ev.get("rec", "").startswith("std::"):
                    lock = self.lid(recv)
                    if name == "lock":
                        return st.hold(lock)
                    return self._release(st, lock, pos)
            # util::yield_while([&l] { return !l.try_lock(); }): the guard is owned afterwards
            if name == "yield_while" and args and isinstance(args[0], dict) and strip(args[0]).get("k") == "lambda":
                body = self.fn.facts.by_id.get(strip(args[0]).get("id"))
                if body is not None:
                    for _, _, rev in body.all_events():
                        if rev.get("k") == "return" and rev.get("e") is not None:
                            atom, pos_ = cond_atoms(rev["e"])
                            m = re.match(r"^(?:this->)?(\w+)\.try_lock\(\)$", atom)
                            gname = m.group(1) if m else None
                            if m and st.g(gname) is None:
                                # a named function object holding a reference to the guard (its only constructor argument)
                                caps = [strip(c) for c in (strip(args[0]).get("captures") or [])]
                                caps = [c for c in caps if isinstance(c, dict) and c.get("k") == "var"]
                                if len(caps) == 1:
                                    gname = caps[0].get("name")
                            if m and not pos_ and st.g(gname) is not None:
                                l, o, kind = st.g(gname)
                                st = st.setg(gname, l, True)
                                if l is not None:
                                    st = st.hold(l)
                return st
            # guards passed by reference to a callee that releases and re-acquires
            for i, a in enumerate(args):
                a0 = strip(a)
                if a0.get("k") == "var" and st.g(P(a0)) is not None and not is_moved(a):
                    g_ = st.g(P(a0))
                    if name in RELEASING:
                        self.release_events[pos] = g_[0] or "?"
                    elif name not in NON_RELEASING:
                        self.release_events[pos] = g_[0] or "?"   # conservative for check-then-act
            return st
        return st

    def _edge(self, st, blk, label, cond):
        if cond is None or label not in ("true", "false"):
            return st
        atom, pos = cond_atoms(cond)
        truth = (label == "true") == pos
        m = re.match(r"^(\w+)(\.owns_lock\(\))?$", atom)
        if m:
            g = st.g(m.group(1))
            if g is not None and g[1] is None:
                l, o, kind = g
                if truth:
                    return st.setg(m.group(1), l, True).hold(l)
                return st.setg(m.group(1), l, False)
        m = re.match(r"^(\w+)\.try_lock\(\)$", atom)
        if m:
            g = st.g(m.group(1))
            if g is not None:
                l, o, kind = g
                if truth:
                    return st.setg(m.group(1), l, True).hold(l)
                return st.setg(m.group(1), l, False)
        return st

    def held_before(self, pos):
        st = self.before.get(pos)
        return st.held if st is not None else None


def field_accesses(fn, record, field, dep_ok=True):
    """(b, i, ev, path) for every read/write event of `record::field` in fn."""
    out = []
    for b, i, ev in fn.all_events():
        if ev.get("k") != "read":
            continue
        e = ev["e"]
        if e.get("name") != field:
            continue
        if e.get("rec"):
            if e["rec"] != record:
                continue
        elif not (dep_ok and e.get("dep")):
            continue
        out.append((b, i, ev, P(e)))
    return out


def check_guarded(rep, rid, fn, record, field, lockfield=None, lock_id=None, entry_held=(), flow=None,
                  exempt_reason=None, skip=()):
    """K1: every access to record::field in fn sees its lock held.  The lock is either the sibling
    field `lockfield` of the same object (this->f  ->  this->lockfield) or the fixed id lock_id."""
    acc = field_accesses(fn, record, field)
    if not acc:
        return 0
    flow = flow or LockFlow(fn, entry_held=entry_held)
    n = 0
    for b, i, ev, path in acc:
        if (b, i) in skip:
            continue
        if (b, 0) not in flow.before and b not in flow.block_in:
            continue   # unreachable block
        held = flow.held_before((b, i))
        if held is None:
            continue
        if lock_id is not None:
            need = lock_id
        else:
            base = path[: len(path) - len(field)]
            need = base + lockfield
        n += 1
        ok = need in held or any(h.startswith("@") for h in held) and lock_id == "@"
        if ok:
            rep.ok(rid, fn, "%s accessed at %s with %s held" % (path, loc_of(ev), need))
        else:
            rep.bad(rid, fn, loc_of(ev), "%s%s" % (path, ":w" if ev.get("written") else ":r"),
                    "%s %s without holding %s (held: %s)" % ("write to" if ev.get("written") else "read of", path, need,
                                                            sorted(held) or "nothing"),
                    path=[{"block": x} for x in block_path(fn, b)])
    return n


# ----------------------------------------------------------------------------------------------
# branch facts (K4 check-then-act, K2 "only on the true edge of")

def written_paths(ev):
    """Access paths (re)defined by this event."""
    k = ev.get("k")
    out = []
    if k == "write":
        out.append(P(ev["lhs"]))
    elif k == "decl":
        out.append(ev["var"])
    elif k == "call":
        op = ev.get("op")
        name = callee_short(ev)
        if ev.get("recv") is not None and (op in ("=", "+=", "-=", "++", "--", "|=", "&=") or
                                           name in ("store", "exchange", "fetch_add", "fetch_sub", "reset",
                                                    "swap", "clear", "push_back", "pop_front", "pop_back",
                                                    "emplace", "emplace_back", "push_front", "erase", "insert",
                                                    "splice", "compare_exchange_strong",
                                                    "compare_exchange_weak")):
            out.append(P(ev["recv"]))
        if name in ("compare_exchange_strong", "compare_exchange_weak") and ev.get("args"):
            out.append(P(ev["args"][0]))    # 'expected' is reloaded on failure
    return out


def atom_mentions(atom, path):
    return re.search(r"(?<![\w>.])" + re.escape(path) + r"(?![\w])", atom) is not None


def implied_facts(cond, truth):
    """Facts implied by 'cond evaluates to truth': the leaf itself, and for compound conditions the
    operands (a||b false => both false; a&&b true => both true; !a => a flipped)."""
    out = set()
    e = strip(cond)
    if not isinstance(e, dict):
        return out
    k = e.get("k")
    op = e.get("op")
    if (k == "un" and op == "!") or (k == "call" and op == "!"):
        sub = e.get("e") if k == "un" else (e.get("recv") if e.get("recv") is not None else (e.get("args") or [None])[0])
        return implied_facts(sub, not truth)
    ops = None
    if k == "bin" and op in ("&&", "||"):
        ops = [e["l"], e["r"]]
    if ops:
        if (op == "||" and not truth) or (op == "&&" and truth):
            for o in ops:
                out |= implied_facts(o, truth)
        atom, pos = cond_atoms(e)
        out.add((atom, truth == pos))
        return out
    atom, pos = cond_atoms(e)
    out.add((atom, truth == pos))
    return out


class FactFlow:
    """Forward must-analysis of branch facts: state = frozenset of (atom, truth).
    A fact is killed when a path mentioned in its atom is (re)defined, or when kill(ev, pos) says so
    (returns True to kill everything, or a predicate over atoms)."""

    def __init__(self, fn, kill=None, eh=True, gen=None):
        self.fn = fn
        self.kill = kill
        self.gen = gen
        # bindings "local v currently equals the value expression E had when v was defined, and nothing E reads has
        # changed since": a branch on v then establishes the facts of a branch on E (bool const queued = f(x);
        # if (queued) ...).  Must-analysis of its own, computed first.
        self._bind_trees = {}
        self._bind_out = {}
        self._bindings(fn, eh)
        self.before, self.block_in, self.block_out = forward(
            fn, frozenset(), self._transfer, self._edge, lambda a, b: a & b, eh=eh, edge_raw=self._edge_raw)

    def _bindings(self, fn, eh):
        trees = self._bind_trees

        def tr(st, ev, pos):
            if st:
                wp = written_paths(ev)
                if wp:
                    st = frozenset(b for b in st if not any(b[0] == p_ or atom_mentions(b[1], p_) for p_ in wp))
            k = ev.get("k")
            if k == "decl" and ev.get("init") is not None and re.sub(r"\bconst\b", "", str(ev.get("type", ""))).strip() == "bool":
                t_ = T(strip(ev["init"]))
                if t_ not in ("true", "false") and not atom_mentions(t_, ev["var"]):
                    trees[(ev["var"], t_)] = ev["init"]
                    st = frozenset(b for b in st if b[0] != ev["var"]) | frozenset([(ev["var"], t_)])
            return st
        try:
            _, _, bout = forward(fn, frozenset(), tr, None, lambda a, b: a & b, eh=eh)
            self._bind_out = bout
        except Exception:
            self._bind_out = {}

    def _transfer(self, st, ev, pos):
        if st:
            wp = written_paths(ev)
            if wp:
                st = frozenset(f for f in st if not any(atom_mentions(f[0], p) for p in wp))
        if self.kill and st:
            r = self.kill(ev, pos)
            if r is True:
                st = frozenset()
            elif callable(r):
                st = frozenset(f for f in st if not r(f[0]))
        if self.gen:
            g = self.gen(ev, pos)
            if g:
                st = st | frozenset(g)
        return st

    def edge_facts(self, blk, label):
        """Facts established by leaving blk over its 'true'/'false' edge (a bool local stands for the condition it was
        initialised with)."""
        cond = blk.cond
        if cond is None or label not in ("true", "false"):
            return set()
        new = implied_facts(cond, label == "true")
        binds = self._bind_out.get(blk.id) or ()
        if binds:
            extra = set()
            for a, t in new:
                if re.match(r"^[A-Za-z_]\w*$", a):
                    for v, txt in binds:
                        if v == a and (v, txt) in self._bind_trees:
                            extra |= implied_facts(self._bind_trees[(v, txt)], t)
            new = set(new) | extra
        return set(new)

    def _edge(self, st, blk, label, cond):
        if cond is None or label not in ("true", "false"):
            return st
        new = self.edge_facts(blk, label)
        atoms = {a for a, _ in new}
        # an assignment inside the condition is already accounted for by _transfer
        return frozenset(f for f in st if f[0] not in atoms) | frozenset(new)

    def _edge_raw(self, st, blk, raw):
        # switch edges: 'case C' establishes cond == C
        if raw.get("label") == "case" and blk.cond is not None and raw.get("case") is not None:
            a, b = sorted([P(blk.cond), P(raw["case"])])
            atom = "%s == %s" % (a, b)
            return frozenset(f for f in st if f[0] != atom) | {(atom, True)}
        return st

    def facts_before(self, pos):
        return self.before.get(pos)


def unchecked_reaches_exit(fn, discharges, flow=None):
    """May-analysis: the state 'unchecked' enters at the function's entry and is removed on every CFG edge whose
    facts (FactFlow.edge_facts: the branch condition, bool locals resolved) satisfy discharges(atom, truth).  Blocks
    ending in a noreturn call are no exits.  Returns True if 'unchecked' can reach the normal exit - i.e. some path
    returns without having passed a discharging edge."""
    flow = flow or FactFlow(fn)

    def edge(st, blk, lab, cond):
        if blk.term.get("noreturn"):
            return None
        if st and any(discharges(a, t) for a, t in flow.edge_facts(blk, lab)):
            return frozenset()
        return st
    _, bin_, _ = forward(fn, frozenset(["unchecked"]), lambda st, ev, pos: st, edge=edge)
    at_exit = bin_.get(fn.exit)
    if at_exit is None:
        raise AnalysisBroken("%s has no reachable normal exit" % fn.qname)
    return "unchecked" in at_exit


# ----------------------------------------------------------------------------------------------
# counting typestate (K3)

def _shift(s, n=1):
    out = set()
    for c in s:
        if isinstance(c, int):
            out.add(min(2, c + n))
        else:
            out.add(c)
    return frozenset(out)


class CountFlow:
    """How many events of a class occur on the paths of fn: state = subset of {0,1,2(=2+)}.
    count(ev, pos) -> 0/1/2 or a frozenset of possible increments (for spliced summaries).
    Paths ending in throw / noreturn are not part of `exits`.  `exc` collects the states in which
    an exception may leave the function (outside any try of fn)."""

    def __init__(self, fn, count, eh=True, init=frozenset([0])):
        self.fn = fn
        self.count = count
        self.exc = set()
        self.ret_states = {}
        self.before, self.block_in, self.block_out = forward(
            fn, init, self._transfer, None, lambda a, b: a | b, eh=eh)
        # exits: states at return events and at fall-off into the exit block
        ex = set()
        for (b, i), st in self.ret_states.items():
            ex |= st
        # fall-off: predecessors of exit whose last event is not return/throw
        for p, lab in fn.preds().get(fn.exit, []):
            blk = fn.blocks[p]
            if p not in self.block_out:
                continue
            last = [e for e in blk.events if e.get("k") in ("return", "throw")]
            if last:
                continue
            if blk.term.get("noreturn"):
                continue
            ex |= self.block_out[p]
        self.exits = frozenset(c for c in ex if isinstance(c, int))

    def _transfer(self, st, ev, pos):
        k = ev.get("k")
        c = self.count(ev, pos)
        if may_throw(ev) and ev.get("try") is None:
            self.exc |= set(x for x in st if isinstance(x, int))
        if c:
            if isinstance(c, (set, frozenset)):
                out = set()
                for inc in c:
                    out |= _shift(st, inc) if inc else st
                st = frozenset(out)
            else:
                st = _shift(st, c)
        if k == "return":
            # events of the return expression were counted before; dtors after do not matter here
            self.ret_states[pos] = st
            return st
        if k == "throw":
            return frozenset()
        return st


# ----------------------------------------------------------------------------------------------
# ordering helpers (K2)

def event_positions(fn, pred):
    return [(b, i) for b, i, ev in fn.all_events() if pred(ev)]


def reaching_defs(fn, name, pos):
    """Positions of the decl/write events of local `name` that may reach pos."""
    def is_def(ev):
        if ev.get("k") == "decl" and ev.get("var") == name:
            return True
        if ev.get("k") == "write" and P(ev["lhs"]) == name:
            return True
        if ev.get("k") == "call" and ev.get("op") in ("=", "+=", "-=") and ev.get("recv") is not None and P(ev["recv"]) == name:
            return True
        return False

    def tr(st, ev, p):
        return frozenset([p]) if is_def(ev) else st
    before, _, _ = forward(fn, frozenset(), tr, None, lambda a, b: a | b, eh=True)
    return before.get(pos, frozenset())


def reaching_init(fn, name, pos):
    """Initialiser / assigned tree of the unique definition of local `name` reaching pos, else None."""
    ds = reaching_defs(fn, name, pos)
    if len(ds) != 1:
        return None
    b, i = next(iter(ds))
    ev = fn.blocks[b].events[i]
    if ev.get("k") == "decl":
        return ev.get("init")
    if ev.get("k") == "write" and ev.get("op") == "=":
        return ev.get("rhs")
    return None


def precedes_on_all_paths(fn, a_pred, b_pos, reset_pred=None, edge_pred=None, eh=True):
    """Must some event satisfying a_pred occur before position b_pos on every path from entry?
    (forward must-analysis with a boolean state; reset_pred events clear it)."""
    def tr(st, ev, pos):
        if reset_pred and reset_pred(ev):
            st = False
        if a_pred(ev):
            st = True
        return st
    er = None
    if edge_pred:
        def er(st, blk, raw):
            return True if edge_pred(blk, raw) else st
    before, _, _ = forward(fn, False, tr, None, lambda a, b: a and b, eh=eh, edge_raw=er)
    return before.get(b_pos)


def always_followed_by(fn, a_pos, b_pred, stop_pred=None):
    """After the event at a_pos, does every path to a normal exit pass an event satisfying b_pred?
    Paths ending in throw/noreturn are ignored.  Implemented as a forward analysis from a_pos:
    state 'pending' is set at a_pos and cleared by b; it must be clear at every return / fall-off."""
    PEND, CLEAR = "pending", "clear"

    def tr(st, ev, pos):
        if pos == a_pos:
            return frozenset([PEND])
        if b_pred(ev):
            return frozenset([CLEAR]) if st else st
        if ev.get("k") == "throw":
            return frozenset()
        return st
    ret_bad = []

    def tr2(st, ev, pos):
        st = tr(st, ev, pos)
        if ev.get("k") == "return" and PEND in st:
            ret_bad.append(pos)
        return st
    before, bin_, bout = forward(fn, frozenset(), tr2, None, lambda a, b: a | b, eh=True)
    for p, lab in fn.preds().get(fn.exit, []):
        blk = fn.blocks[p]
        if p not in bout:
            continue
        if any(e.get("k") in ("return", "throw") for e in blk.events) or blk.term.get("noreturn"):
            continue
        if PEND in bout[p]:
            ret_bad.append((p, len(blk.events)))
    return ret_bad


# ----------------------------------------------------------------------------------------------
# finite-domain evaluation of condition trees (K7)

class Unknown(Exception):
    pass


def eval_tree(e, env):
    """Evaluate an expression tree over a finite environment: env maps canonical texts (T) of
    sub-expressions to Python values (ints for enum constants, bools).  Raises Unknown for anything
    that is neither in env nor a constant/operator over known values."""
    e0 = e
    if isinstance(e0, dict) and e0.get("k") == "cast" and str(e0.get("to")) in ("double", "float", "long double") and e0.get("e") is not None:
        v = eval_tree(e0["e"], env)           # a conversion to a floating type changes what '/' means
        return float(v) if isinstance(v, int) and not isinstance(v, bool) else v
    e = strip(e)
    if not isinstance(e, dict):
        raise Unknown(str(e))
    t = T(e)
    if t in env:
        return env[t]
    k = e.get("k")
    if k == "lit":
        if "v" in e:
            return e["v"]
        if "s" in e:
            return e["s"]          # string literal
        raise Unknown(t)
    if k == "enum":
        return e["val"]
    if "val" in e and k in ("var", "mem", "other"):
        return e["val"]
    if k == "un":
        v = eval_tree(e["e"], env)
        if e["op"] == "!":
            return not v
        if e["op"] == "-":
            return -v
        if e["op"] == "~" and isinstance(v, int):
            return ~v & 0xFFFFFFFFFFFFFFFF
        raise Unknown(t)
    if k == "call" and (e.get("op") == "~" or callee_short(e) == "operator~") and len((e.get("args") or []) + ([e["recv"]] if e.get("recv") is not None else [])) == 1:
        sub = e.get("recv") if e.get("recv") is not None else e["args"][0]          # overloaded operator~ of a flag enumeration
        v = eval_tree(sub, env)
        if isinstance(v, int) and not isinstance(v, bool):
            return ~v & 0xFFFFFFFFFFFFFFFF
        raise Unknown(t)
    if k == "call" and e.get("op") == "!":
        sub = e.get("recv") if e.get("recv") is not None else e["args"][0]
        return not eval_tree(sub, env)
    ops = None
    if k == "bin":
        op, ops = e["op"], [e["l"], e["r"]]
    elif k == "call" and e.get("op") in ("==", "!=", "<", ">", "<=", ">=", "&&", "||", "&", "|"):
        op = e["op"]
        ops = ([e["recv"]] if e.get("recv") is not None else []) + e.get("args", [])
    if ops and len(ops) == 2:
        if op == "&&":
            return bool(eval_tree(ops[0], env)) and bool(eval_tree(ops[1], env))
        if op == "||":
            return bool(eval_tree(ops[0], env)) or bool(eval_tree(ops[1], env))
        a, b = eval_tree(ops[0], env), eval_tree(ops[1], env)
        try:
            if op == "==": return a == b
            if op == "!=": return a != b
            if op == "<": return a < b
            if op == ">": return a > b
            if op == "<=": return a <= b
            if op == ">=": return a >= b
            if op == "&": return a & b
            if op == "|": return a | b
            if op == "+": return a + b
            if op == "-": return a - b
            if op == "*": return a * b
            if op == "/" and b != 0: return (a / b) if (isinstance(a, float) or isinstance(b, float)) else int(a / b)
            if op == "%" and b != 0: return int(a - b * int(a / b))
        except TypeError:
            raise Unknown(t)
        raise Unknown(t)
    if k == "cond":
        return eval_tree(e["t"], env) if eval_tree(e["c"], env) else eval_tree(e["f"], env)
    if k == "call" and callee_short(e) in ("min", "max") and len(e.get("args") or []) == 2 and e.get("recv") is None:
        a, b = eval_tree(e["args"][0], env), eval_tree(e["args"][1], env)
        return min(a, b) if callee_short(e) == "min" else max(a, b)
    if k in ("construct", "cast") and len(e.get("args") or []) == 1:
        return eval_tree(e["args"][0], env)
    if k == "construct" and str(e.get("rec", "")) == "std::basic_string" and e.get("args"):
        return eval_tree(e["args"][0], env)          # std::string("literal")
    # a rule may model selected calls (configuration look-ups with a default, string -> number conversions, ...): env["$call"](node, env)
    h = env.get("$call") if isinstance(env, dict) else None
    if h is not None and k in ("call", "construct"):
        return h(e, env)
    raise Unknown(t)


def _unk(t):
    raise Unknown(t)


def return_set(fn):
    """Set of (enum name, value) a function can return; analysis-broken if a return is not built
    from enum constants and conditional operators."""
    out = set()

    def leaves(e):
        e = strip(e)
        if e.get("k") == "cond":
            leaves(e["t"])
            leaves(e["f"])
        elif e.get("k") == "enum":
            out.add((e["name"], e["val"]))
        elif e.get("k") == "var" and not e.get("param") and e.get("name") not in seen_vars:
            # a local result variable: everything that is ever stored in it (initialiser and assignments)
            seen_vars.add(e.get("name"))
            defs = 0
            for _, _, d in fn.all_events():
                if d.get("k") == "decl" and d.get("var") == e.get("name") and d.get("init") is not None:
                    leaves(d["init"])
                    defs += 1
                elif d.get("k") == "write" and d.get("op") == "=" and P(d["lhs"]) == e.get("name"):
                    leaves(d["rhs"])
                    defs += 1
                elif d.get("k") == "call" and d.get("op") == "=" and d.get("recv") is not None and P(d["recv"]) == e.get("name") and d.get("args"):
                    leaves(d["args"][0])
                    defs += 1
            if not defs:
                raise AnalysisBroken("%s returns local %s, which is never assigned a constant" % (fn.qname, e.get("name")))
        elif e.get("k") == "var" and e.get("name") in seen_vars:
            pass
        else:
            raise AnalysisBroken("%s returns a non-constant (%s): return-set rule cannot be applied" % (fn.qname, T(e)))
    n = 0
    seen_vars = set()
    for b, i, ev in fn.all_events():
        if ev.get("k") == "return" and ev.get("e") is not None:
            leaves(ev["e"])
            n += 1
    if not n:
        raise AnalysisBroken("%s has no return value" % fn.qname)
    return out


def guarded_returns(fn, flow=None):
    """Every returned leaf value with the branch facts under which it is returned: a list of
    (leaf tree, frozenset of (atom, truth), return event).  'return c ? a : b' and 'if (c) return a; else return b;'
    give the same result (the conditional operator's condition is added to the facts of each arm)."""
    flow = flow or FactFlow(fn)
    out = []

    def leaves(e, facts, ev):
        e = strip(e)
        if e.get("k") == "cond":
            a, pos = cond_atoms(e["c"])
            leaves(e["t"], facts | {(a, pos)}, ev)
            leaves(e["f"], facts | {(a, not pos)}, ev)
        else:
            out.append((e, frozenset(facts), ev))
    for b, i, ev in fn.all_events():
        if ev.get("k") == "return" and ev.get("e") is not None and (b, i) in flow.before:
            leaves(ev["e"], set(flow.before[(b, i)] or ()), ev)
    return out


def first_outcome(fn, block_id, limit=20):
    """Follow the unique-successor chain from a block: ('return', tree) at the first return,
    ('branch', block_id) at the first conditional block, ('exit', None) at the exit."""
    b = block_id
    for _ in range(limit):
        blk = fn.blocks[b]
        for ev in blk.events:
            if ev.get("k") == "return":
                return ("return", ev.get("e"), ev)
            if ev.get("k") == "throw":
                return ("throw", None, ev)
        if blk.term.get("noreturn"):
            return ("noreturn", None, None)
        succ = [(l, t) for l, t, _ in blk.succ]
        if blk.cond is not None and len(succ) == 2:
            return ("branch", b, None)
        if len(succ) != 1:
            return ("exit", None, None) if b == fn.exit else ("branch", b, None)
        b = succ[0][1]
    return ("unknown", None, None)


def sccs(fn):
    """Strongly connected components (list of sets of block ids) of the normal-edge CFG."""
    index = {}
    low = {}
    stack = []
    on = set()
    out = []
    counter = [0]
    import sys
    sys.setrecursionlimit(10000)

    def strong(v):
        index[v] = low[v] = counter[0]
        counter[0] += 1
        stack.append(v)
        on.add(v)
        for _, w in fn.succs(v):
            if w not in index:
                strong(w)
                low[v] = min(low[v], low[w])
            elif w in on:
                low[v] = min(low[v], index[w])
        if low[v] == index[v]:
            comp = set()
            while True:
                w = stack.pop()
                on.discard(w)
                comp.add(w)
                if w == v:
                    break
            out.append(comp)
    for b in fn.blocks:
        if b not in index:
            strong(b)
    return out


def loop_of(fn, block_id):
    for c in sccs(fn):
        if block_id in c:
            if len(c) > 1 or any(t == block_id for _, t in fn.succs(block_id)):
                return c
    return None


def eval_walk(fn, start_block, atom_env=None, tree_env=None, limit=400, max_paths=64, stop=()):
    """Walk from start_block deciding every conditional leaf by atom_env (atom -> bool, through
    cond_atoms) or by eval_tree over tree_env; leaves that neither decides (logging levels, ...) are
    explored both ways.  Returns a list of (events visited, end) with end in
    'return'/'exit'/'throw'/'noreturn'/'loop'."""
    atom_env = atom_env or {}
    tree_env = tree_env or {}
    results = []

    def go(b, seen, out, budget):
        while True:
            if budget[0] <= 0:
                results.append((out, "limit"))
                return
            budget[0] -= 1
            if b in seen:
                results.append((out, "loop"))
                return
            if b in stop and seen:
                results.append((out, "stop"))
                return
            seen = seen | {b}
            if b not in fn.blocks:            # an edge without a target (the exit of a 'for (;;)' that has none)
                results.append((out, "exit"))
                return
            blk = fn.blocks[b]
            for i, ev in enumerate(blk.events):
                out = out + [(b, i, ev)]
                if ev.get("k") == "return":
                    results.append((out, "return"))
                    return
                if ev.get("k") == "throw":
                    results.append((out, "throw"))
                    return
            if blk.term.get("noreturn"):
                results.append((out, "noreturn"))
                return
            succ = blk.succ
            if not succ:
                results.append((out, "exit"))
                return
            if len(succ) == 1:
                b = succ[0][1]
                continue
            labels = [l for l, _, _ in succ]
            if "true" in labels and blk.cond is not None:
                atom, pos = cond_atoms(blk.cond)
                truth = None
                if atom in atom_env:
                    truth = atom_env[atom] == pos
                else:
                    try:
                        truth = bool(eval_tree(blk.cond, tree_env))
                    except Unknown:
                        truth = None
                if truth is None:
                    if len(results) < max_paths:
                        for l, t, _ in succ:
                            go(t, seen, out, budget)
                    return
                b = [t for l, t, _ in succ if l == ("true" if truth else "false")][0]
                continue
            if any(l in ("case", "default", "default_implicit") for l in labels):
                try:
                    v = eval_tree(blk.cond, tree_env)
                    nxt = None
                    for l, t, raw in succ:
                        if l == "case" and eval_tree(raw["case"], tree_env) == v:
                            nxt = t
                    if nxt is None:
                        d = [t for l, t, _ in succ if l.startswith("default")]
                        nxt = d[0] if d else None
                    if nxt is None:
                        results.append((out, "exit"))
                        return
                    b = nxt
                    continue
                except Unknown:
                    for l, t, _ in succ:
                        go(t, seen, out, budget)
                    return
            for l, t, _ in succ:
                go(t, seen, out, budget)
            return
    go(start_block, frozenset(), [], [limit * 10])
    return results


def eval_predicate(body, tree_env):
    """Value a (small, side-effect free) predicate function returns under an environment of canonical texts ->
    values: its CFG is walked with the environment deciding the branches, the returned expression is evaluated with
    single-definition locals replaced by their initialisers.  None if some path is not decided.  'return a > (c ? 1 : 0)'
    and 'n = a; if (c) return n > 1; return n > 0;' evaluate alike."""
    vals = set()
    for evs, end in eval_walk(body, body.entry, tree_env=tree_env):
        if end != "return" or evs[-1][2].get("e") is None:
            return None
        try:
            vals.add(bool(eval_tree(expand_locals(body, evs[-1][2]["e"]), tree_env)))
        except Unknown:
            return None
    return vals.pop() if len(vals) == 1 else None


def cond_leaves(fn, blocks=None):
    """All (block, atom, positive) condition leaves of two-way branches."""
    out = []
    for b, blk in fn.blocks.items():
        if blocks is not None and b not in blocks:
            continue
        if blk.cond is not None and any(l == "true" for l, _, _ in blk.succ):
            a, p = cond_atoms(blk.cond)
            out.append((b, a, p))
    return out


def on_every_cycle(fn, loop, block_id):
    """Does every cycle inside `loop` (a set of blocks) pass through block_id?"""
    rest = set(loop) - {block_id}
    # any cycle within rest?
    color = {}

    def dfs(v):
        color[v] = 1
        for _, w in fn.succs(v):
            if w not in rest:
                continue
            if color.get(w) == 1:
                return True
            if w not in color and dfs(w):
                return True
        color[v] = 2
        return False
    for v in rest:
        if v not in color and dfs(v):
            return False
    return True


def edge_obligations(fn, arm, discharge):
    """Obligations created on CFG edges must be discharged before the function returns or the same
    obligation is created again.  arm(blk, label) -> token or None ; discharge(ev) -> token or None.
    Returns a list of (token, where) that can reach a normal exit / re-arming undischarged."""
    problems = []

    def tr(st, ev, pos):
        t = discharge(ev)
        if t is not None and t in st:
            st = st - {t}
        if ev.get("k") == "return" and st:
            for tok in st:
                problems.append((tok, "return at %s" % loc_of(ev)))
        if ev.get("k") == "throw":
            return frozenset()
        return st

    def ed(st, blk, label, cond):
        t = arm(blk, label)
        if t is not None:
            if t in st:
                problems.append((t, "re-armed in block %d" % blk.id))
            return st | {t}
        return st
    before, bin_, bout = forward(fn, frozenset(), tr, ed, lambda a, b: a | b, eh=True)
    for p, lab in fn.preds().get(fn.exit, []):
        blk = fn.blocks[p]
        if p not in bout or blk.term.get("noreturn"):
            continue
        if any(e.get("k") in ("return", "throw") for e in blk.events):
            continue
        st = ed(bout[p], blk, lab, blk.cond) if False else bout[p]
        for tok in st:
            problems.append((tok, "fall-off from block %d" % p))
    out = []
    seen = set()
    for tok, where in problems:
        if (tok, where) not in seen:
            seen.add((tok, where))
            out.append((tok, where))
    return out


def origin(fn, e, pos=None, depth=4):
    """Value-origin normalisation: canonical text of e after following local definitions
    (`auto* const p = pool_;` then p -> this->pool_).  Only locals with a unique definition (reaching
    pos if given, else a single declaration in the function) whose initialiser is itself a path are
    followed; everything else is returned as P(e)."""
    t = P(e)
    for _ in range(depth):
        m = re.match(r"^(\*?)(\w+)(.*)$", t)
        if not m:
            break
        star, head, rest = m.groups()
        if head == "this" or any(p["name"] == head for p in fn.params):
            break
        ini = None
        if pos is not None:
            ini = reaching_init(fn, head, pos)
        if ini is None:
            ds = [ev for _, _, ev in fn.all_events() if ev.get("k") == "decl" and ev.get("var") == head]
            ws = [ev for _, _, ev in fn.all_events() if ev.get("k") == "write" and P(ev["lhs"]) == head]
            if len(ds) == 1 and not ws:
                ini = ds[0].get("init")
        if ini is None:
            break
        s = strip(ini)
        if not isinstance(s, dict) or s.get("k") not in ("var", "mem", "this", "un", "index", "call"):
            break
        if s.get("k") == "call" and (s.get("args") or s.get("op") not in ("->", "*", None)):
            break
        it = P(s)
        if it.startswith("&"):
            it = it[1:]
            if rest.startswith("->"):
                rest = "." + rest[2:]
            elif star:
                star = ""
        nt = star + it + rest
        if nt == t:
            break
        t = nt
    return t


def reaches(fn, a, b):
    """Is block b reachable from block a (normal edges, a != b or through a cycle)?"""
    seen = set()
    work = [t for _, t in fn.succs(a)]
    while work:
        x = work.pop()
        if x == b:
            return True
        if x in seen:
            continue
        seen.add(x)
        work += [t for _, t in fn.succs(x)]
    return False


def bypass_path(fn, pred, start=None):
    """Must-pass-through: is the normal exit reachable from `start` (default: entry) along CFG edges
    without executing an event that satisfies pred?  Returns the list of blocks of one such path, or
    None when every path passes through such an event.  (Block-granular: a block containing a matching
    event counts as passing; callers that need 'before position X' use precedes_on_all_paths.)"""
    hit = set(b for b, i, e in fn.all_events() if pred(e))
    s0 = fn.entry if start is None else start
    prev = {s0: None}
    work = [s0]
    while work:
        b = work.pop()
        if b in hit:
            continue
        if b == fn.exit:
            path = []
            while b is not None:
                path.append(b)
                b = prev[b]
            return path[::-1]
        for _, t in fn.succs(b):
            if t not in prev:
                prev[t] = b
                work.append(t)
    return None


def derives_from(fn, tree, pred, depth=8):
    """True if pred(text) holds for the tree itself or for the initialiser / an assigned value of a local variable the
    tree (transitively) mentions: 'for (auto& c : xs) c()' derives from 'xs' whatever the loop variable is called and
    whatever type the iterator has (unlike expand_locals, updates such as ++it do not stop the search)."""
    defs = {}
    for _, _, e in fn.all_events():
        if e.get("k") == "decl" and e.get("init") is not None:
            defs.setdefault(e["var"], []).append(e["init"])
        elif e.get("k") == "write" and e.get("rhs") is not None and strip(e["lhs"]).get("k") == "var":
            defs.setdefault(strip(e["lhs"])["name"], []).append(e["rhs"])
    seen = set()

    def names(x, acc):
        if isinstance(x, dict):
            if x.get("k") == "var":
                acc.add(x.get("name"))
            for v in x.values():
                names(v, acc)
        elif isinstance(x, list):
            for v in x:
                names(v, acc)
        return acc
    work = [(tree, depth)]
    while work:
        t, d = work.pop()
        if pred(T(t)):
            return True
        if d <= 0:
            continue
        for n in names(t, set()):
            if n in defs and n not in seen:
                seen.add(n)
                for init in defs[n]:
                    work.append((init, d - 1))
    return False


def expand_locals(fn, tree, depth=4):
    """Symbolic substitution: replace every local variable that has exactly one definition in fn (a declaration with
    an initialiser, never written afterwards) by its initialiser, recursively.  'const x = E; return f(x)' then reads
    like 'return f(E)'.  Sound for reading the value only where E's operands do not change in between - callers use it
    on small predicate lambdas / straight-line helpers."""
    import copy as _copy
    decls = {}
    written = set()
    for _, _, e in fn.all_events():
        if e.get("k") == "decl" and e.get("init") is not None:
            decls.setdefault(e["var"], []).append(e["init"])
        elif e.get("k") == "write":
            written.add(P(e["lhs"]))
    params = set(p["name"] for p in fn.params)

    def sub(x, d):
        if isinstance(x, dict):
            if x.get("k") == "var" and x.get("name") in decls and len(decls[x["name"]]) == 1 and x["name"] not in written and \
                    x["name"] not in params and d > 0:
                return sub(_copy.deepcopy(decls[x["name"]][0]), d - 1)
            return {k: sub(v, d) for k, v in x.items()}
        if isinstance(x, list):
            return [sub(v, d) for v in x]
        return x
    return sub(tree, depth)


def interp(fn, env, until=None, max_paths=32, max_steps=4000, unknown_both=True, start=None, max_visits=6, on_event=None):
    """A small concrete interpreter over the event CFG: starting with `env` (canonical text -> value), declarations and
    plain assignments of locals / members whose right-hand side evaluates are recorded (otherwise the name is forgotten),
    ++/-- on known integers are applied, branch conditions are decided with the *current* environment (a condition that
    does not evaluate is explored both ways when unknown_both).  Stops a path at the first event for which until(ev) holds
    (returned with the environment just before it), at a return / throw / the exit, or when a block repeats too often.
    Returns a list of (end, env, events, stop_event)."""
    out = []
    budget = [max_steps]

    def step_env(e_, ev):
        k = ev.get("k")
        if k == "decl" and ev.get("init") is not None:
            try:
                e_[ev["var"]] = eval_tree(ev["init"], e_)
            except Unknown:
                e_.pop(ev["var"], None)
        elif k == "write":
            name = P(ev["lhs"])
            op = ev.get("op")
            try:
                if op == "=":
                    e_[name] = eval_tree(ev["rhs"], e_)
                elif op in ("++", "--") and name in e_:
                    e_[name] = e_[name] + (1 if op == "++" else -1)
                elif op in ("+=", "-=", "%=", "*=") and name in e_:
                    r = eval_tree(ev["rhs"], e_)
                    e_[name] = {"+=": e_[name] + r, "-=": e_[name] - r, "*=": e_[name] * r, "%=": (e_[name] % r) if r else e_[name]}[op]
                else:
                    e_.pop(name, None)
            except Unknown:
                e_.pop(name, None)
        elif k == "call" and ev.get("op") == "=" and ev.get("recv") is not None and ev.get("args"):
            name = P(ev["recv"])
            try:
                e_[name] = eval_tree(ev["args"][0], e_)
            except Unknown:
                e_.pop(name, None)

    def go(b, e_, evs, visits):
        while True:
            if budget[0] <= 0 or len(out) >= max_paths:
                out.append(("limit", e_, evs, None))
                return
            budget[0] -= 1
            visits = dict(visits)
            visits[b] = visits.get(b, 0) + 1
            if visits[b] > max_visits:
                out.append(("loop", e_, evs, None))
                return
            blk = fn.blocks[b]
            for i, ev in enumerate(blk.events):
                if until is not None and until(ev):
                    out.append(("stop", dict(e_), evs + [(b, i, ev)], ev))
                    return
                evs = evs + [(b, i, ev)]
                if ev.get("k") == "return":
                    out.append(("return", dict(e_), evs, ev))
                    return
                if ev.get("k") == "throw":
                    out.append(("throw", dict(e_), evs, ev))
                    return
                if on_event is not None:
                    on_event(ev, e_)          # a rule may observe selected events together with the environment they execute in
                step_env(e_, ev)
            if blk.term.get("noreturn"):
                out.append(("noreturn", dict(e_), evs, None))
                return
            succ = blk.succ
            if not succ:
                out.append(("exit", dict(e_), evs, None))
                return
            if len(succ) == 1:
                b = succ[0][1]
                continue
            labels = [l for l, _, _ in succ]
            if "true" in labels and blk.cond is not None:
                try:
                    truth = bool(eval_tree(blk.cond, e_))
                except Unknown:
                    a, pos = cond_atoms(blk.cond)
                    truth = (e_[a] == pos) if a in e_ and isinstance(e_[a], bool) else None
                if truth is None:
                    if not unknown_both:
                        out.append(("undecided", dict(e_), evs, None))
                        return
                    for l, t, _ in succ:
                        go(t, dict(e_), evs, visits)
                    return
                b = [t for l, t, _ in succ if l == ("true" if truth else "false")][0]
                continue
            for l, t, _ in succ:
                go(t, dict(e_), evs, visits)
            return
    go(fn.entry if start is None else start, dict(env), [], {})
    return out
