# Driver shared by every property check: runs the rule module, applies the committed known-findings
# file, writes evidence and violation replay files, maps outcomes to exit codes
# (0 held / 1 violation / 2 analysis broken).
import argparse
import importlib
import json
import os
import sys
import time
import traceback

from . import core
from .core import AnalysisBroken, Report
from .explain import full_explanation

VERIF = core.VERIF


def load_known():
    p = os.path.join(VERIF, "known_findings.json")
    if not os.path.exists(p):
        return {"findings": [], "fixed": []}
    with open(p) as f:
        return json.load(f)


def explain(prop, path):
    with open(path) as f:
        v = json.load(f)
    print("property  : %s" % prop)
    print("rule      : %s  (%s)" % (v["rule"], v.get("rule_text", "")))
    print("function  : %s" % v.get("instantiation") or v["function"])
    print("location  : %s" % v["loc"])
    print("finding   : %s" % v["message"])
    if v.get("path"):
        print("path      : %s" % json.dumps(v["path"]))
    loc = v["loc"]
    if ":" in loc:
        fn, ln = loc.rsplit(":", 1)
        try:
            ln = int(ln)
            with open(fn) as f:
                lines = f.readlines()
            print("source (current tree):")
            for i in range(max(0, ln - 4), min(len(lines), ln + 3)):
                print("%s %5d  %s" % (">>" if i + 1 == ln else "  ", i + 1, lines[i].rstrip()))
        except Exception:
            pass
    print("re-evaluating on the current tree:")
    return None


def main(argv=None):
    ap = argparse.ArgumentParser()
    ap.add_argument("prop")
    ap.add_argument("--tier", default=os.environ.get("VERIF_TIER", "quick"), choices=["quick", "thorough"])
    ap.add_argument("--explain")
    ap.add_argument("--no-evidence", action="store_true")
    a = ap.parse_args(argv)
    prop = a.prop
    t0 = time.time()
    seed = int(os.environ.get("VERIF_SEED", "0") or 0)
    if a.explain:
        explain(prop, a.explain)
    rep = Report(prop)
    mod = importlib.import_module("rules." + prop)
    broken = None
    try:
        mod.run(rep, a.tier)
        if a.tier == "thorough":
            # re-run the same rules under every extra configuration of the module
            for cfg in getattr(mod, "THOROUGH_CONFIGS", []):
                core.EXTRA = list(cfg)
                for m_ in list(sys.modules.values()):
                    if getattr(m_, "__name__", "").startswith("rules.") and hasattr(m_, "_cache"):
                        m_._cache.clear()
                sub = Report(prop)
                try:
                    mod.run(sub, "thorough-config")
                finally:
                    core.EXTRA = []
                    for m_ in list(sys.modules.values()):
                        if getattr(m_, "__name__", "").startswith("rules.") and hasattr(m_, "_cache"):
                            m_._cache.clear()
                tag = " [" + " ".join(cfg) + "]"
                rep.obligations += sub.obligations
                rep.discharged += sub.discharged
                rep.sites += sub.sites
                rep.tus |= set(t + tag for t in sub.tus)
                rep.functions |= set(f + tag for f in sub.functions)
                for r_, c_ in sub.instances.items():
                    rep.instances[r_] += c_
                rep.samples += [dict(s_, config=" ".join(cfg)) for s_ in sub.samples[:6]]
                for v in sub.violations:
                    if not any(o.rule == v.rule and o.fn == v.fn and o.key == v.key for o in rep.violations):
                        v.key = v.key + tag
                        v.msg = v.msg + " (configuration" + tag + ")"
                        rep.violations.append(v)
                rep.notes.append("configuration%s: %d rule instances evaluated, %d held" % (tag, sub.obligations, sub.discharged))
        floors = getattr(mod, "FLOORS", {})
        for rid, n in floors.items():
            # the floor guards against vacuous passes; a rule that already reports a violation is not vacuous
            if any(v.rule == rid for v in rep.violations):
                continue
            if rep.instances.get(rid, 0) < n:
                raise AnalysisBroken("rule %s examined %d instances, fewer than the %d confirmed by hand"
                                     % (rid, rep.instances.get(rid, 0), n))
    except AnalysisBroken as e:
        broken = str(e)
    except Exception as e:
        broken = "internal error: %s\n%s" % (e, traceback.format_exc())

    known = load_known()
    kf = {(k["property"], k["rule"], k["function"], k["key"]): k for k in known.get("findings", [])}
    new, old = [], []
    for v in rep.violations:
        k = kf.get((prop, v.rule, v.fn, v.key))
        (old if k else new).append((v, k))

    evdir = os.environ.get("VERIF_EVDIR") or os.path.join(VERIF, "evidence")
    os.makedirs(evdir, exist_ok=True)
    vdir = os.path.join(evdir, prop + ".violations")
    if os.path.isdir(vdir):
        for f in os.listdir(vdir):
            os.unlink(os.path.join(vdir, f))
    for v, k in old:
        print("KNOWN-FINDING: property=%s %s %s: %s" % (prop, v.rule, v.fn, k.get("what", v.msg)))
    n = 0
    for v, _ in new:
        os.makedirs(vdir, exist_ok=True)
        p = os.path.join(vdir, "%d.json" % n)
        j = v.to_json()
        j["rule_text"] = rep.rules.get(v.rule, "")
        j["property"] = prop
        with open(p, "w") as f:
            json.dump(j, f, indent=1)
        print("VIOLATION property=%s replay=%s" % (prop, p))
        print("  %s  rule %s  in %s\n  %s" % (v.loc, v.rule, v.full, v.msg))
        if v.path:
            print("  path: %s" % json.dumps(v.path)[:600])
        n += 1
    wall = time.time() - t0
    if not a.no_evidence:
        flags_src = ""
        try:
            flags_src = core.base_flags()[1]
        except Exception:
            pass
        nontrivial = sum(1 for r, c in rep.instances.items() if c > 0)
        ev = {
            "property_id": prop,
            "tier": a.tier,
            "seed": seed,
            "level": "other",
            "coverage": {
                "explanation": full_explanation(prop, getattr(mod, "EXPLANATION", "")) + (" ANALYSIS BROKEN: " + broken if broken else ""),
                "evaluations": max(rep.obligations, 0),
                "distinct_nontrivial": len(set((s["rule"], s["function"], s["established"]) for s in rep.samples))
                if rep.obligations else 0,
                "rule": "one evaluation = one rule instance checked on one function (pattern or instantiation) "
                        "over all of its CFG paths; distinct_nontrivial counts distinct (rule, function, relation) "
                        "triples kept as samples, each of which examined at least one site",
                "obligations": rep.obligations,
                "discharged": rep.discharged,
                "sites_examined": rep.sites,
                "rules": rep.rules,
                "instances_per_rule": dict(rep.instances),
                "translation_units": sorted(rep.tus),
                "functions_analysed": len(rep.functions),
                "samples": rep.samples[:60],
                "known_findings_reported": [v.to_json() for v, _ in old],
                "new_violations": [v.to_json() for v, _ in new],
                "checker_cmd": "./check %s --tier %s" % (prop, a.tier),
                "trusted_base": ["clang 14 front end and CFG builder", "tool/pikafacts.cc", "engine/*.py idiom catalogue",
                                 "rule tables in rules/%s.py" % prop, "flags from: " + flags_src],
                "notes": rep.notes,
            },
            "assumptions": getattr(mod, "ASSUMPTIONS", []),
            "wall_s": round(wall, 2),
            "violations": len(new),
        }
        with open(os.path.join(evdir, prop + ".json"), "w") as f:
            json.dump(ev, f, indent=1)
    if broken:
        print("ANALYSIS-BROKEN property=%s: %s" % (prop, broken), file=sys.stderr)
        # rules that ran to completion before the broken anchor was met have reported real violations:
        # those stand (exit 1); only a run without any violation is reported as analysis-broken (exit 2)
        return 1 if new else 2
    print("%s: %d rule instances evaluated, %d held, %d known findings, %d new violations, %d functions, %.1fs"
          % (prop, rep.obligations, rep.discharged, len(old), len(new), len(rep.functions), wall))
    return 1 if new else 0
