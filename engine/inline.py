# Normalisation step run before any rule: calls to helpers that do not exist in the reference tree (functions
# introduced by a later change, e.g. "extract method") and direct calls of local lambdas are spliced into the
# caller's event CFG.  A refactoring that extracts code therefore presents the rules with (nearly) the same CFG as
# before, and a change that hides a violation inside a new helper is still seen.
#
# Splicing:  caller block B = [pre..., CALL, post...] term  becomes
#     B  = [pre..., CALL-arg events, param bindings] -> callee entry'
#     callee blocks (renumbered), every 'return E' -> ['$ret = E'] -> B'
#     B' = [post...] term
# and every expression tree of the caller that contains the call node (same sid) gets the returned expression
# (single return) or the synthetic variable '$ret<n>' instead.
import copy
import re

MAX_DEPTH = 3
MAX_BLOCKS = 40


def _walk_replace(x, pred, repl):
    """Return x with every dict node satisfying pred replaced by repl(node) (no descent into replaced nodes)."""
    if isinstance(x, dict):
        if pred(x):
            return repl(x)
        return {k: _walk_replace(v, pred, repl) for k, v in x.items()}
    if isinstance(x, list):
        return [_walk_replace(v, pred, repl) for v in x]
    return x


def _contains(x, pred):
    if isinstance(x, dict):
        if pred(x):
            return True
        return any(_contains(v, pred) for v in x.values())
    if isinstance(x, list):
        return any(_contains(v, pred) for v in x)
    return False


def _strip(e):
    from .core import strip
    return strip(e) if isinstance(e, dict) else e


def _collect_sids(x, out):
    if isinstance(x, dict):
        if x.get("k") == "construct" and x.get("sid") is not None:
            out.add(x["sid"])
        for v in x.values():
            _collect_sids(v, out)
    elif isinstance(x, list):
        for v in x:
            _collect_sids(v, out)


def _is_this(e):
    e = _strip(e)
    return isinstance(e, dict) and e.get("k") == "this"


class Inliner:
    def __init__(self, raw, flatten=()):
        self.raw = raw
        self.fns = raw.get("functions", [])
        self.by_id = {f["id"]: f for f in self.fns}
        self.helpers = {}
        # flatten: helpers of the reference tree that a rule wants to see *through* (the rule is written against the
        # entry point with the helper's body in place, so it reads the same whether or not the helper exists)
        frx = [re.compile(x) for x in flatten]
        for f in self.fns:
            flat = any(r.search(f.get("qname", "")) for r in frx) and f.get("parent_fn", -1) == -1
            if flat:
                f["new_helper"] = True
                f["_flattened"] = True
            if f.get("new_helper") and not f.get("pattern") is None:
                self.helpers.setdefault(f["qname"], []).append(f)
        self.counter = 0
        self.done = 0
        self.spliced_ids = set()

    # -- which calls are spliced
    def _target(self, caller, ev):
        if ev.get("k") != "call":
            return None
        cal = ev.get("callee") or ""
        if ev.get("lambda_call"):
            recv = _strip(ev.get("recv"))
            if isinstance(recv, dict) and recv.get("k") == "var":
                lid = self._lambda_of(caller, recv.get("name"))
                if lid is not None and lid in self.by_id:
                    return self.by_id[lid]
            return None
        cands = self.helpers.get(cal)
        if not cands and not cal and ev.get("callee_member") and caller.get("pattern") and (ev.get("recv") is None or _is_this(ev.get("recv"))):
            # dependent call of a member of the same class template inside a pattern: resolved by name
            rec = caller.get("qname", "").rsplit("::", 1)[0]
            cands = [c for c in self.helpers.get(rec + "::" + ev["callee_member"], []) if c.get("pattern")]
        if not cands:
            return None
        nargs = len(ev.get("args", []))
        # prefer the candidate with the same pattern-ness as the caller and the same arity
        cands = [c for c in cands if len(c.get("params", [])) == nargs] or cands
        same = [c for c in cands if bool(c.get("pattern")) == bool(caller.get("pattern"))]
        # members: the helper of the same class instantiation as the caller
        rf = caller.get("record_full")
        exact = [c for c in (same or cands) if rf and c.get("record_full") == rf]
        return (exact or same or cands)[0]

    def _lambda_of(self, caller, var):
        for b in caller["blocks"]:
            for e in b["events"]:
                if e.get("k") == "decl" and e.get("var") == var and e.get("init") is not None:
                    i = _strip(e["init"])
                    if isinstance(i, dict) and i.get("k") == "lambda":
                        return i.get("id")
        return None

    def _name_lambdas(self, f):
        """A local that is initialised with a lambda and never reassigned is the lambda: where it is passed on
        (yield_while(pred), visit(vis, v) ...) the argument is presented as the lambda itself."""
        lam = {}
        written = set()
        for b in f["blocks"]:
            for e in b["events"]:
                if e.get("k") == "decl" and e.get("init") is not None:
                    i = _strip(e["init"])
                    if isinstance(i, dict) and i.get("k") == "lambda":
                        lam[e.get("var")] = i
                elif e.get("k") == "write":
                    l = _strip(e.get("lhs"))
                    if isinstance(l, dict) and l.get("k") == "var":
                        written.add(l.get("name"))
        lam = {k: v for k, v in lam.items() if k not in written}
        if not lam:
            return

        def pred(n):
            return n.get("k") == "var" and n.get("name") in lam

        def repl(n):
            return copy.deepcopy(lam[n["name"]])
        for b in f["blocks"]:
            newev = []
            for e in b["events"]:
                if e.get("k") == "call" and not e.get("lambda_call") and e.get("args"):
                    e = dict(e, args=[_walk_replace(a, pred, repl) for a in e["args"]])
                elif e.get("k") in ("ctor", "construct") and e.get("args"):
                    e = dict(e, args=[_walk_replace(a, pred, repl) for a in e["args"]])
                newev.append(e)
            b["events"] = newev

    def _functors_as_lambdas(self, f):
        """A function object of a class that is new relative to the reference tree ('construct' node carrying
        functor_call) stands for the lambda it replaced: the node is presented as that lambda (its call operator is the
        body), and the call operator is adopted by the function that constructs the object."""
        byq = {}
        for g in self.fns:
            if g.get("new_helper") and "blocks" in g:
                byq.setdefault(g.get("qname"), []).append(g)

        def pred(n):
            return n.get("k") == "construct" and n.get("functor_call") in byq

        def repl(n):
            cands = byq[n["functor_call"]]
            same = [c for c in cands if bool(c.get("pattern")) == bool(f.get("pattern"))]
            ty = str(n.get("type", ""))
            exact = [c for c in (same or cands) if c.get("record_full") and c.get("record_full") in ty]
            g = (exact or same or cands)[0]
            f.setdefault("adopted", []).append(g["id"])
            if g.get("parent_fn", -1) in (None, -1):
                g["parent_fn"] = f["id"]        # like the lambda it replaces, it belongs to the function that creates it
            return {"k": "lambda", "id": g["id"], "loc": g.get("loc", ""), "functor": n.get("rec"), "captures": n.get("args", [])}
        if not byq:
            return

        def cpred(n):
            return n.get("k") == "cast" and isinstance(n.get("e"), dict) and n["e"].get("k") == "lambda" and n["e"].get("functor")

        def crepl(n):
            return n["e"]
        for b in f["blocks"]:
            b["events"] = [_walk_replace(_walk_replace(e, pred, repl), cpred, crepl) for e in b["events"]]
            t_ = b.get("term", {})
            if t_.get("cond") is not None:
                t_["cond"] = _walk_replace(_walk_replace(t_["cond"], pred, repl), cpred, crepl)

    def run(self):
        for f in self.fns:
            if "blocks" in f:
                self._functors_as_lambdas(f)
        for f in self.fns:
            if "blocks" in f:
                self._name_lambdas(f)
        for f in self.fns:
            if "blocks" in f:
                self._inline_fn(f, 0, set([f["id"]]))
        self.raw["_spliced_ids"] = sorted(self.spliced_ids)
        return self.raw

    def _inline_fn(self, f, depth, stack):
        if depth > MAX_DEPTH:
            return
        changed = True
        guard = 0
        while changed and guard < 60:
            changed = False
            guard += 1
            for b in list(f["blocks"]):
                for i, ev in enumerate(b["events"]):
                    g = self._target(f, ev)
                    if g is None or g["id"] in stack or g.get("tries") or "blocks" not in g or len(g["blocks"]) > MAX_BLOCKS:
                        continue
                    if ev.get("_noinline"):
                        continue
                    # make sure the callee itself is normalised first
                    self._inline_fn(g, depth + 1, stack | {g["id"]})
                    if self._splice(f, b, i, ev, g):
                        changed = True
                        self.done += 1
                    else:
                        ev["_noinline"] = True
                    break
                if changed:
                    break

    def _splice(self, f, b, i, call, g):
        self.counter += 1
        tag = self.counter
        base = max(bl["id"] for bl in f["blocks"]) + 1
        gb = copy.deepcopy(g["blocks"])
        idmap = {bl["id"]: base + n for n, bl in enumerate(gb)}
        cont_id = base + len(gb)
        retvar = "$ret%d" % tag
        params = g.get("params", [])
        args = call.get("args", [])
        recv = call.get("recv")
        is_lambda = bool(call.get("lambda_call"))
        # substitution of parameters: references alias the argument, values get a binding event
        subst = {}
        binds = []
        drop_ctor_sids = set()
        drop_ctor_vars = set()
        for n, p in enumerate(params):
            if n >= len(args) or not p.get("name"):
                continue
            t = str(p.get("type", "")).rstrip()
            if t.endswith("..."):
                continue            # parameter pack: the body keeps referring to the pack by name
            a0 = _strip(args[n])
            is_const = isinstance(a0, dict) and (a0.get("k") in ("lit", "enum") or (a0.get("k") in ("var", "mem") and "val" in a0))
            written = any(e.get("k") == "write" and _strip(e.get("lhs") or {}) and isinstance(_strip(e.get("lhs")), dict) and _strip(e["lhs"]).get("name") == p["name"]
                          for bl in g["blocks"] for e in bl["events"])
            # a by-value parameter that the callee never assigns and whose argument is a plain variable of the caller (or
            # std::move of one: ownership is handed over) is read through that variable - no binding event, so facts and
            # lock states attached to the caller's variable stay attached
            raw_a = args[n]
            moved = isinstance(raw_a, dict) and raw_a.get("k") == "move"
            plain = isinstance(a0, dict) and a0.get("k") == "var"
            if t.endswith("&") or t.endswith("&&") or (is_const and not written) or (plain and not written):
                subst[p["name"]] = a0 if (plain and not (t.endswith("&") or t.endswith("&&"))) else args[n]
                if plain and not (t.endswith("&") or t.endswith("&&")):
                    # the temporary that would have become the parameter object is not materialised
                    sids = set()
                    _collect_sids(args[n], sids)
                    drop_ctor_sids |= sids
                    drop_ctor_vars.add(a0.get("name"))
            else:
                binds.append({"k": "decl", "var": p["name"], "type": p.get("type", ""), "init": args[n], "loc": call.get("loc", ""), "inlined": tag})
        this_repl = None
        if (not is_lambda) and recv is not None and not _is_this(recv):
            this_repl = recv
        # locals of the spliced body that collide with a name of the caller are renamed (no capture)
        caller_names = set(q.get("name") for q in f.get("params", []) if q.get("name"))
        for bl in f["blocks"]:
            for e in bl["events"]:
                if e.get("k") in ("decl", "ctor") and e.get("var"):
                    caller_names.add(e["var"])
        pnames = set(q.get("name") for q in params if q.get("name"))
        rename = {}
        for bl in gb:
            for e in bl["events"]:
                if e.get("k") in ("decl", "ctor") and e.get("var") and e["var"] in caller_names and e["var"] not in pnames and not is_lambda:
                    rename[e["var"]] = "%s$%d" % (e["var"], tag)
        if rename:
            def _rn_pred(n):
                return n.get("k") == "var" and n.get("name") in rename and not n.get("param")

            def _rn_repl(n):
                return dict(n, name=rename[n["name"]])
            for bl in gb:
                newev = []
                for e in bl["events"]:
                    e = _walk_replace(e, _rn_pred, _rn_repl)
                    if e.get("k") in ("decl", "ctor", "dtor") and e.get("var") in rename:
                        e = dict(e, var=rename[e["var"]])
                    newev.append(e)
                bl["events"] = newev
                t_ = bl.get("term", {})
                if t_.get("cond") is not None:
                    t_["cond"] = _walk_replace(t_["cond"], _rn_pred, _rn_repl)

        def fix(x):
            def pred(n):
                return (n.get("k") == "var" and n.get("name") in subst and not n.get("_s")) or (this_repl is not None and n.get("k") == "this")

            def repl(n):
                if n.get("k") == "this":
                    r = copy.deepcopy(this_repl)
                    # 'this' is a pointer: this->x over an object expression o becomes o.x; keep a pointer-ish node
                    return {"k": "un", "op": "&", "e": r} if not call.get("arrow") else r
                r = copy.deepcopy(subst[n["name"]])
                return r
            return _walk_replace(x, pred, repl)
        # returns
        rets = []
        for bl in gb:
            for e in bl["events"]:
                if e.get("k") == "return":
                    rets.append(e)
        ret_exprs = [e.get("e") for e in rets if e.get("e") is not None]
        single = len(rets) == 1 and len(ret_exprs) == 1
        try_idx = call.get("try")
        for bl in gb:
            bl["id"] = idmap[bl["id"]]
            newev = []
            for e in bl["events"]:
                e = fix(e)
                e["inlined"] = tag
                if try_idx is not None and e.get("try") is None:
                    e["try"] = try_idx
                if e.get("k") == "return":
                    if e.get("e") is not None and not single:
                        newev.append({"k": "write", "lhs": {"k": "var", "name": retvar}, "rhs": e["e"], "op": "=", "loc": e.get("loc", ""), "inlined": tag})
                    elif e.get("e") is not None:
                        newev.append({"k": "read", "e": e["e"], "loc": e.get("loc", ""), "inlined": tag})
                    continue
                newev.append(e)
            bl["events"] = newev
            term = bl.get("term", {})
            if term.get("cond") is not None:
                term["cond"] = fix(term["cond"])
            for s_ in term.get("succ", []):
                if s_["block"] == g["exit"]:
                    s_["block"] = cont_id
                    if s_.get("label") not in ("true", "false", "case", "default"):
                        s_["label"] = "next"
                elif s_["block"] in idmap:
                    s_["block"] = idmap[s_["block"]]
            if term.get("noreturn") and not term.get("succ"):
                pass
        gb = [bl for bl in gb if bl["id"] != idmap[g["exit"]]]
        # continuation block
        post = b["events"][i + 1:]
        cont = {"id": cont_id, "events": post, "term": b.get("term", {})}
        def is_param_temp(e):
            if e.get("k") != "ctor" or e.get("var"):
                return False
            if e.get("sid") in drop_ctor_sids:
                return True
            a_ = [_strip(x) for x in e.get("args", [])]
            return bool(e.get("copymove")) and len(a_) == 1 and isinstance(a_[0], dict) and a_[0].get("k") == "var" and a_[0].get("name") in drop_ctor_vars
        b["events"] = [e for e in b["events"][:i] if not is_param_temp(e)] + binds
        b["term"] = {"succ": [{"block": idmap[g["entry"]], "label": "next"}]}
        f["blocks"].extend(gb)
        f["blocks"].append(cont)
        # the call's value in enclosing expressions
        sid = call.get("sid")
        if sid is not None:
            if single:
                value = fix(copy.deepcopy(ret_exprs[0]))
            elif ret_exprs:
                value = {"k": "var", "name": retvar, "type": g.get("ret", "")}
            else:
                value = None
            if value is not None:
                def is_call(n):
                    return n.get("k") == "call" and n.get("sid") == sid and n.get("callee") == call.get("callee")
                for bl in f["blocks"]:
                    if bl["id"] in idmap.values():
                        continue
                    bl["events"] = [_walk_replace(e, is_call, lambda n: copy.deepcopy(value)) for e in bl["events"]]
                    t_ = bl.get("term", {})
                    if t_.get("cond") is not None:
                        t_["cond"] = _walk_replace(t_["cond"], is_call, lambda n: copy.deepcopy(value))
        # handlers / tries of the caller refer to block ids that did not change; the exit block of f is unchanged
        f.setdefault("inlined", []).append({"callee": g["qname"], "loc": call.get("loc", ""), "lambda": is_lambda})
        # lambdas written inside the spliced body now belong to the caller as well
        f.setdefault("adopted", []).extend([h["id"] for h in self.fns if h.get("parent_fn", -1) == g["id"] or
                                              (h.get("parent_fn", -1) in (None, -1) and h.get("qname", "").startswith(g["qname"] + "::(lambda"))] + list(g.get("adopted", [])))
        self.spliced_ids.add(g["id"])
        for other in self.helpers.get(g["qname"], []):      # every instantiation of the same source function
            self.spliced_ids.add(other["id"])
        return True


def normalise(raw, flatten=()):
    inl = Inliner(raw, flatten)
    try:
        return inl.run()
    except Exception:
        raise
