#!/usr/bin/env python3
# Scratch copies of /repo for developer tools (mutants, seeded changes, refactorings): a change is applied to a
# private copy under /tmp/vscratch and the *same* checks run against it through PIKA_REPO; /repo itself stays
# untouched, several variants can be examined at the same time.  Not used by the registered checks.
import os, shutil, subprocess, queue, threading
V = os.path.dirname(os.path.dirname(os.path.abspath(__file__)))
REPO = "/repo"
BASE = "/tmp/vscratch"
PROPS = ["C%02d" % i for i in range(1, 21)]


def sync(d):
    os.makedirs(d, exist_ok=True)
    # _build carries the generated headers the checks need; object files and test binaries are not needed (and change while a test run is going on)
    r = subprocess.run(["rsync", "-a", "--delete", "--exclude", ".git", "--exclude", ".vcache", "--exclude", ".vev", "--exclude", "*.o", "--exclude", "*.a", "--exclude", "*.so*",
                        "--exclude", "_build/bin", "--exclude", "_build/Testing", "--exclude", "CMakeFiles", REPO + "/", d + "/"])
    if r.returncode not in (0, 24):
        raise subprocess.CalledProcessError(r.returncode, "rsync")


def env(d):
    return dict(os.environ, PIKA_REPO=d, VERIF_CACHE=os.path.join(d, ".vcache"), VERIF_EVDIR=os.path.join(d, ".vev"))


def apply_patch(d, patch):
    """git apply works outside a repository as a plain patch tool"""
    r = subprocess.run(["git", "apply", "--unsafe-paths", "--directory=" + d, patch], cwd=d, capture_output=True, text=True)
    if r.returncode:
        r = subprocess.run(["patch", "-p1", "-s", "-i", patch], cwd=d, capture_output=True, text=True)
    return r.returncode == 0, (r.stdout + r.stderr)


def check(d, prop, tier="quick", timeout=1800):
    r = subprocess.run([os.path.join(V, "check"), prop, "--tier", tier, "--no-evidence"], capture_output=True, text=True, cwd=V, env=env(d), timeout=timeout)
    return r.returncode, r.stdout + r.stderr


class Pool:
    def __init__(self, n, tag="p"):
        self.q = queue.Queue()
        self.dirs = []
        for i in range(n):
            d = os.path.join(BASE, "%s%d" % (tag, i))
            sync(d)
            self.dirs.append(d)
            self.q.put(d)

    def get(self):
        return self.q.get()

    def put(self, d):
        sync(d)
        self.q.put(d)

    def close(self, remove=False):
        if remove:
            for d in self.dirs:
                shutil.rmtree(d, ignore_errors=True)
