#!/usr/bin/env python3
# Store one sub-agent change under /verif/seeded/<name>/ : patch.diff, the demonstration files, meta.json.
#   tool/seed_store.py <Cnn> <name> --needs "..." --caught "C08.R5" --notes "..." --ran "..." [--patch alt.diff]
import argparse, json, os, shutil, sys
ap = argparse.ArgumentParser()
ap.add_argument("prop"); ap.add_argument("name")
ap.add_argument("--needs", required=True); ap.add_argument("--caught", default=""); ap.add_argument("--notes", default="")
ap.add_argument("--ran", default=""); ap.add_argument("--patch"); ap.add_argument("--src")
a = ap.parse_args()
src = a.src or "/tmp/seed/%s/out" % a.prop
dst = os.path.join(os.path.dirname(os.path.dirname(os.path.abspath(__file__))), "seeded", a.name)
os.makedirs(dst, exist_ok=True)
for f in os.listdir(src):
    if f == "patch.diff" and a.patch:
        continue
    p = os.path.join(src, f)
    if os.path.isfile(p) and os.path.getsize(p) < 400000 and open(p, "rb").read(4) != b"\x7fELF":
        shutil.copy(p, os.path.join(dst, f))
if a.patch and os.path.abspath(a.patch) != os.path.join(dst, "patch.diff"):
    shutil.copy(a.patch, os.path.join(dst, "patch.diff"))
meta = {"property": a.prop, "name": a.name, "origin": "independent sub-agent given only the property text and a scratch worktree",
        "needs": a.needs, "caught_by": a.caught, "notes": a.notes, "what_i_ran": a.ran}
json.dump(meta, open(os.path.join(dst, "meta.json"), "w"), indent=1)
print("stored", dst, sorted(os.listdir(dst)))
