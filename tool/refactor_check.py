#!/usr/bin/env python3
# Behaviour-preserving refactorings (written by independent sub-agents) must leave every check silent.
#   tool/refactor_check.py [<dir with *.diff>...]       (applies each patch to /repo, runs all quick checks, undoes it)
# Without arguments the committed negative-control corpus refactors/R1, R2 and R3 is used (178 patches written by
# sixty independent sub-agents, three per property and round; NOTES.md of each agent is stored next to its patches).
import glob, json, os, re, subprocess, sys
from concurrent.futures import ThreadPoolExecutor
V = os.path.dirname(os.path.dirname(os.path.abspath(__file__)))
props = ["C%02d" % i for i in range(1, 21)]


def sh(cmd, **kw):
    return subprocess.run(cmd, shell=True, stdout=subprocess.PIPE, stderr=subprocess.STDOUT, text=True, **kw)


bad = 0
for d in (sys.argv[1:] or [os.path.join(V, "refactors", "R1"), os.path.join(V, "refactors", "R2"), os.path.join(V, "refactors", "R3")]):
    for patch in sorted(glob.glob(os.path.join(os.path.abspath(d), "*.diff"))):
        if sh("git -C /repo status --porcelain --untracked-files=no").stdout.strip():
            print("refusing: /repo dirty"); sys.exit(2)
        if sh("git -C /repo apply --check %s" % patch).returncode:
            print("SKIP %s: does not apply" % patch); continue
        sh("git -C /repo apply %s" % patch)
        try:
            def one(p):
                r = sh("./check %s --tier quick --no-evidence" % p, cwd=V)
                return p, r.returncode, [l.strip() for l in r.stdout.splitlines() if re.search(r"rule C\d\d\.R|ANALYSIS-BROKEN", l)][:3]
            with ThreadPoolExecutor(10) as ex:
                res = list(ex.map(one, props))
        finally:
            sh("git -C /repo checkout -- .")
        noisy = [(p, rc, msg) for p, rc, msg in res if rc != 0]
        print("%s %s" % ("quiet" if not noisy else "NOISY", patch))
        for p, rc, msg in noisy:
            bad += 1
            print("      %s rc=%d %s" % (p, rc, " | ".join(m[:230] for m in msg)))
print("%d noisy (check, patch) pairs" % bad)
