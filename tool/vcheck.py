#!/usr/bin/env python3
# Developer runner over scratch copies of /repo (tool/scratch.py): the same checks, PIKA_REPO pointing at a private
# copy that carries one change.  /repo is never modified, several changes are examined in parallel.
#   tool/vcheck.py seed <patch.diff>... [--props C01,C02]      which checks report the change (all 20 by default)
#   tool/vcheck.py refactors [<dir>...]                         behaviour-preserving patches: every check must stay quiet
#   tool/vcheck.py regress [<name-prefix>...]                   stored seeded changes: the property's own check must report
#   tool/vcheck.py mutants [<id-prefix or property>...]         mutants/corpus.json
# Options: --jobs N (copies, default 5)  --inner N (checks in parallel per copy, default 4)  --tier quick|thorough
import argparse, glob, json, os, re, subprocess, sys, threading
from concurrent.futures import ThreadPoolExecutor
sys.path.insert(0, os.path.dirname(os.path.abspath(__file__)))
import scratch
V = scratch.V


def run_checks(d, props, tier, inner):
    def one(p):
        try:
            rc, out = scratch.check(d, p, tier)
        except subprocess.TimeoutExpired:
            rc, out = 99, "timeout"
        rules = sorted(set(re.findall(r"rule (C\d\d\.R\w+)", out)))
        msgs = [l.strip() for l in out.splitlines() if re.search(r"rule C\d\d\.R|ANALYSIS-BROKEN", l)]
        return p, rc, rules, msgs, out
    with ThreadPoolExecutor(inner) as ex:
        return list(ex.map(one, props))


def main():
    ap = argparse.ArgumentParser()
    ap.add_argument("mode", choices=["seed", "refactors", "regress", "mutants"])
    ap.add_argument("items", nargs="*")
    ap.add_argument("--props", default="")
    ap.add_argument("--jobs", type=int, default=5)
    ap.add_argument("--inner", type=int, default=4)
    ap.add_argument("--tier", default="quick")
    ap.add_argument("--tag", default="")
    a = ap.parse_args()
    allp = scratch.PROPS
    props = a.props.split(",") if a.props else allp
    work = []      # (label, apply(d)->bool,msg, props, judge(results)->(good, text))
    if a.mode == "seed":
        for patch in a.items:
            patch = os.path.abspath(patch)
            work.append((patch, ("patch", patch), props, None))
    elif a.mode == "refactors":
        dirs = a.items or [os.path.join(V, "refactors", r) for r in ("R1", "R2", "R3", "R4", "R5") if os.path.isdir(os.path.join(V, "refactors", r))]
        for d in dirs:
            for patch in sorted(glob.glob(os.path.join(os.path.abspath(d), "*.diff"))):
                work.append((patch, ("patch", patch), props, "quiet"))
    elif a.mode == "regress":
        for n in sorted(os.listdir(os.path.join(V, "seeded"))):
            if a.items and not any(n.startswith(o) for o in a.items):
                continue
            dd = os.path.join(V, "seeded", n)
            meta = json.load(open(os.path.join(dd, "meta.json")))
            work.append((n, ("patch", os.path.join(dd, "patch.diff")), [meta["property"]], "report"))
    else:
        corpus = json.load(open(os.path.join(V, "mutants", "corpus.json")))
        for m in corpus:
            if a.items and not any(m["id"].startswith(o) or m["property"] == o for o in a.items):
                continue
            work.append((m["id"], ("edit", m), [m["property"]], ("rule", m.get("expect"))))
    pool = scratch.Pool(min(a.jobs, max(1, len(work))), tag=(a.tag or a.mode[0]) + str(os.getpid() % 1000) + "_")
    lock = threading.Lock()
    bad = [0]
    summary = []

    def do(w):
        label, how, ps, judge = w
        d = pool.get()
        try:
            if how[0] == "patch":
                ok, msg = scratch.apply_patch(d, how[1])
                if not ok:
                    with lock:
                        print("APPLY-FAILED %s: %s" % (label, msg.strip()[:200]), flush=True)
                        bad[0] += 1
                    return
            else:
                m = how[1]
                rel = os.path.join("libs/pika", m["file"]) if not m["file"].startswith("/") else os.path.relpath(m["file"], "/repo")
                path = os.path.join(d, rel)
                src = open(path).read()
                if src.count(m["before"]) < 1:
                    with lock:
                        print("SKIP %s: snippet not found in %s" % (label, m["file"]), flush=True)
                        bad[0] += 1
                    return
                pos = -1
                for _ in range(m.get("occurrence", 0) + 1):
                    pos = src.find(m["before"], pos + 1)
                open(path, "w").write(src[:pos] + m["after"] + src[pos + len(m["before"]):])
            res = run_checks(d, ps, a.tier, a.inner)
        finally:
            pool.put(d)
        fired = [(p, rc, rules, msgs) for p, rc, rules, msgs, _ in res if rc != 0]
        with lock:
            if judge is None:
                print("== %s" % label)
                for p, rc, rules, msgs in fired:
                    print("   %s rc=%d %s" % (p, rc, ",".join(rules)))
                    for m_ in msgs[:3]:
                        print("        " + m_[:260])
                if not fired:
                    print("   (no check reports it)")
                summary.append((label, [(p, rc, rules) for p, rc, rules, _ in fired]))
            elif judge == "quiet":
                print("%s %s" % ("quiet" if not fired else "NOISY", label))
                for p, rc, rules, msgs in fired:
                    bad[0] += 1
                    print("      %s rc=%d %s" % (p, rc, " | ".join(m_[:230] for m_ in msgs[:3])))
            elif judge == "report":
                p, rc, rules, msgs, out = res[0]
                good = rc == 1 and ("VIOLATION property=%s" % p) in out
                print("%s %-58s %s rc=%d %s" % ("ok  " if good else "MISS", label, p, rc, ",".join(rules)))
                if not good:
                    bad[0] += 1
                    for m_ in msgs[:2]:
                        print("        " + m_[:260])
            else:
                exp = judge[1]
                p, rc, rules, msgs, out = res[0]
                good = (rc == 0) if exp is None else (rc == 1 and exp in rules)
                print("%s %-7s %s rc=%d expect=%s got=%s" % ("ok  " if good else "MISS", label, p, rc, exp, ",".join(rules)))
                if not good:
                    bad[0] += 1
                    for m_ in msgs[:3]:
                        print("        " + m_[:260])
            sys.stdout.flush()

    with ThreadPoolExecutor(a.jobs) as ex:
        list(ex.map(do, work))
    pool.close(remove=True)
    print("%d items, %d bad" % (len(work), bad[0]))
    return 1 if bad[0] else 0


if __name__ == "__main__":
    sys.exit(main())
