#!/usr/bin/env python3
# developer aid: run one property's check on a scratch copy of /repo with the uncommitted changes of /repo (or a given
# commit's changes, --commit <sha>) reverted: shows that a rule written for a defect fires on the tree without the fix
import sys, os, subprocess
sys.path.insert(0, os.path.dirname(os.path.abspath(__file__)))
import scratch
prop = sys.argv[1]
d = "/tmp/vscratch/unfixed_%d" % os.getpid()
scratch.sync(d)
if len(sys.argv) > 3 and sys.argv[2] == "--commit":
    diff = subprocess.run(["git", "-C", "/repo", "show", "--format=", sys.argv[3]], capture_output=True, text=True).stdout
else:
    diff = subprocess.run(["git", "-C", "/repo", "diff", "HEAD"], capture_output=True, text=True).stdout
open(d + "/.unfix.diff", "w").write(diff)
r = subprocess.run(["patch", "-R", "-p1", "-s", "-d", d, "-i", d + "/.unfix.diff"], capture_output=True, text=True)
if r.returncode:
    print("cannot revert:", r.stdout, r.stderr)
    sys.exit(3)
rc, out = scratch.check(d, prop, "quick")
print("\n".join(l[:300] for l in out.splitlines() if not l.startswith("KNOWN-FINDING")))
print("rc", rc)
subprocess.run(["rm", "-rf", d])
