#!/usr/bin/env python3
# regenerates MANIFEST.json from the rule modules that exist (claimed) and the table below
import json, os, importlib, sys
V = os.path.dirname(os.path.dirname(os.path.abspath(__file__)))
sys.path.insert(0, V)
from engine.explain import full_explanation
props = [json.loads(l) for l in open(os.path.join(V, "properties.jsonl"))]
NA = json.load(open(os.path.join(V, "tool", "not_applicable.json")))
checks = []
na = []
for p in props:
    pid = p["id"]
    if os.path.exists(os.path.join(V, "rules", pid + ".py")) and pid not in NA:
        mod = importlib.import_module("rules." + pid)
        checks.append({
            "property_id": pid,
            "quick_cmd": "./check %s --tier quick" % pid,
            "thorough_cmd": "./check %s --tier thorough" % pid,
            "evidence_file": "/verif/evidence/%s.json" % pid,
            "replay_cmd_template": "./check %s --explain {path}" % pid,
            "engine": "pikafacts+pikarules",
            "level_claimed": {"category": "other",
                              "text": "Static analysis of the current source: structural necessary conditions of %s decided on all CFG paths of the "
                                      "named functions in every analysed instantiation; not a proof of the behaviour. %s" % (pid, full_explanation(pid, mod.EXPLANATION)),
                              "design_ref": "DESIGN.md section 5, %s" % pid},
            "level_note": "Trusted: clang 14 front end/CFG builder, tool/pikafacts.cc, the idiom catalogue in engine/, the rule tables in rules/%s.py. "
                          "Assumes: %s" % (pid, "; ".join(getattr(mod, "ASSUMPTIONS", []))),
            "technique": "static analysis: custom clang-libTooling fact extractor + CFG dataflow/typestate rules (lock-state, check-then-act, counting, ordering, truth tables), compile-time witnesses",
        })
    else:
        na.append({"property_id": pid, "reason": NA.get(pid, "static check under construction (DESIGN.md section 5); not claimed yet")})
m = {"version": 1,
     "setup_cmd": "./setup.sh",
     "hooks": {"guard": "PIKA_VERIF", "enable": "none needed: the checks read /repo's source as it is (no hooks committed)",
               "baseline_off_cmd": "ctest --test-dir /repo/_build -j8 --timeout 900", "source_commits": [], "add_only": True},
     "engines": [{"name": "pikafacts+pikarules", "path": "/verif/check",
                  "serves_properties": [c["property_id"] for c in checks],
                  "kind_free_text": "libTooling extractor (tool/pikafacts.cc) emitting event CFGs with resolved callees; Python rule engine (engine/, rules/)"}],
     "checks": checks,
     "notes": "Exit codes: 0 held, 1 violation (VIOLATION line), 2 analysis broken (anchor vanished / TU does not parse). Known findings: /verif/known_findings.json.",
     "not_applicable": na}
json.dump(m, open(os.path.join(V, "MANIFEST.json"), "w"), indent=1)
print("claimed:", [c["property_id"] for c in checks])
