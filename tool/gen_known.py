#!/usr/bin/env python3
# One-off (re-run only when the reference tree changes through a fix: commit): snapshot of the qualified names of all
# function definitions of the reference tree.  The extractor uses it to recognise helpers introduced by a later
# change (extracted functions), which the rule engine inlines into their callers before the rules run.
import glob, os, subprocess, sys, tempfile
from concurrent.futures import ThreadPoolExecutor
V = os.path.dirname(os.path.dirname(os.path.abspath(__file__)))
sys.path.insert(0, V)
from engine import core
flags, _ = core.base_flags()
tus = sorted(glob.glob("/repo/libs/pika/*/src/**/*.cpp", recursive=True)) + sorted(glob.glob(os.path.join(V, "drivers", "*.cpp"))) + \
    sorted(glob.glob(os.path.join(V, "witness", "*.cpp")))
tus = [t for t in tus if "/tests/" not in t and "/async_cuda" not in t]
names = set()
failed = []


def one(tu):
    fl = list(flags) + (core.MPI_FLAGS if ("/async_mpi/" in tu or tu.endswith("c20_mpi.cpp")) else [])
    with tempfile.TemporaryDirectory() as d:
        out = os.path.join(d, "o.json"); nm = os.path.join(d, "n.txt")
        p = subprocess.run([core.PIKAFACTS, "--out", out, "--names-out", nm, "--root", "/repo/", "--root", V + "/drivers/", "--root", V + "/witness/",
                            "--sel", "^$", tu, "--"] + fl, capture_output=True, text=True)
        if not os.path.exists(nm):
            return tu, None
        return tu, open(nm).read().split("\n")


with ThreadPoolExecutor(16) as ex:
    for tu, ns in ex.map(one, tus):
        if ns is None:
            failed.append(tu)
        else:
            names |= set(n for n in ns if n)
open(os.path.join(V, "known_functions.txt"), "w").write("\n".join(sorted(names)) + "\n")
print("%d translation units, %d failed, %d names" % (len(tus), len(failed), len(names)))
for f in failed[:10]:
    print("  failed:", f)
