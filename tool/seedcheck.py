#!/usr/bin/env python3
# Apply one seeded change (a patch produced by an independent sub-agent in its own scratch worktree)
# to /repo, run every property check on the patched tree, optionally the repository's own test suite,
# and undo the change again.  Never commits anything in /repo.
#   tool/seedcheck.py <patch.diff> [--ctest] [--tier quick|thorough] [--props C01,C02]
import argparse
import json
import os
import re
import subprocess
import sys
from concurrent.futures import ThreadPoolExecutor

VERIF = os.path.dirname(os.path.dirname(os.path.abspath(__file__)))
REPO = "/repo"


def sh(cmd, **kw):
    return subprocess.run(cmd, shell=True, stdout=subprocess.PIPE, stderr=subprocess.STDOUT, text=True, **kw)


def main():
    ap = argparse.ArgumentParser()
    ap.add_argument("patch")
    ap.add_argument("--ctest", action="store_true")
    ap.add_argument("--tier", default="quick")
    ap.add_argument("--props", default=",".join("C%02d" % i for i in range(1, 21)))
    a = ap.parse_args()
    patch = os.path.abspath(a.patch)
    st = sh("git -C %s status --porcelain --untracked-files=no" % REPO).stdout.strip()
    if st:
        print("refusing: /repo has local modifications:\n" + st)
        return 2
    r = sh("git -C %s apply --check %s" % (REPO, patch))
    if r.returncode:
        print("patch does not apply to /repo:\n" + r.stdout)
        return 2
    sh("git -C %s apply %s" % (REPO, patch))
    out = {"patch": patch, "checks": {}}
    try:
        def one(p):
            r = sh("./check %s --tier %s --no-evidence" % (p, a.tier), cwd=VERIF)
            rules = sorted(set(re.findall(r"rule (C\d\d\.R\w+)", r.stdout)))
            msgs = [l.strip() for l in r.stdout.splitlines() if re.search(r"rule C\d\d\.R", l)]
            broken = [l for l in r.stdout.splitlines() if l.startswith("ANALYSIS-BROKEN")]
            return p, {"exit": r.returncode, "rules": rules, "reports": msgs[:8], "broken": broken[:2]}
        with ThreadPoolExecutor(8) as ex:
            for p, res in ex.map(one, a.props.split(",")):
                out["checks"][p] = res
        if a.ctest:
            r = sh("python3 %s/tool/baseline_ctest.py" % VERIF)
            out["ctest"] = {"exit": r.returncode, "summary": r.stdout.strip().splitlines()}
    finally:
        sh("git -C %s checkout -- ." % REPO)
    fired = {p: v for p, v in out["checks"].items() if v["exit"] != 0}
    print(json.dumps({"fired": fired, "ctest": out.get("ctest")}, indent=1))
    return 0


if __name__ == "__main__":
    sys.exit(main())
