#!/usr/bin/env python3
# Developer aid (not a registered check): systematic mutation sweep.  Generates small syntactic variants
# (statement deleted, condition negated, while->if, relational/logical operator flipped, constants
# flipped, adjacent statements swapped) of the lines a property's mechanism lives in, runs the property's
# quick check against a scratch copy of /repo carrying one variant, and lists the variants the check
# does NOT report ("survivors").  Survivors are triaged by hand: equivalent / irrelevant to the property /
# breaks the property (=> a rule is missing).  Nothing here is evidence; it tells which statements no
# rule reads.
#   tool/mutsweep.py C06 [--files a.cpp:10-200,b.hpp] [--jobs 6] [--ops DEL,NEG,...] [--out /tmp/msw/C06.json]
import argparse, json, os, re, shutil, subprocess, sys, hashlib
from concurrent.futures import ThreadPoolExecutor
import threading, queue

V = os.path.dirname(os.path.dirname(os.path.abspath(__file__)))
REPO = "/repo"
WORK = "/tmp/msw"

STMT = re.compile(r"^\s*(?!return\b|if\b|else\b|for\b|while\b|do\b|switch\b|case\b|break\b|continue\b|throw\b|using\b|typedef\b|template\b|namespace\b|class\b|struct\b|public\b|private\b|protected\b|static_assert\b|PIKA_ASSERT|PIKA_UNUSED|LTM_|LTS_|LAPP_|LERR_|PIKA_DETAIL_DP|#|//|/\*|\*)"
                  r"[A-Za-z_~\+\-\*\(][^;{}]*;\s*(//.*)?$")
DECL = re.compile(r"^\s*(const\s+|constexpr\s+|static\s+|volatile\s+|mutable\s+|inline\s+|typename\s+)*[A-Za-z_][\w:<>,\*&\s]*[\w>\*&]\s+[A-Za-z_]\w*\s*(=|\{|\(|;)")


def is_stmt(line):
    if not STMT.match(line):
        return False
    st = line.strip()
    if st.startswith("auto ") or st.startswith("auto&") or st.startswith("auto*"):
        return False
    # a declaration "T x = ...;" / "T x(...);" - deleting it will not compile anyway; skip to save time
    if DECL.match(line) and not re.match(r"^\s*[\w:\.\->\[\]\*\(\)]+\s*(=|\+=|-=|\|=|&=)[^=]", line) and not re.match(r"^\s*(\+\+|--)", st):
        # heuristics: "foo bar(...)" looks like a declaration, "foo(...)" / "a.b(...)" does not
        if re.match(r"^\s*[\w:<>,\*&]+\s+[A-Za-z_]\w*\s*(=|\{|\(|;)", line) and not re.match(r"^\s*(delete|new|co_await|co_return)\b", st):
            return False
    return True


def complete_prev(prev):
    p = prev.strip()
    return p == "" or p.endswith(";") or p.endswith("{") or p.endswith("}") or p.endswith(":") or p.startswith("//") or p.startswith("#") or p.endswith("*/")


def gen(lines, lo, hi, ops):
    """yield (op, lineno, new_lines_dict) ; new_lines_dict maps 0-based index -> replacement text (None = delete)"""
    out = []
    n = len(lines)
    incomment = False
    for i in range(max(0, lo - 1), min(n, hi)):
        L = lines[i]
        st = L.strip()
        if st.startswith("/*"):
            incomment = "*/" not in st
            continue
        if incomment:
            if "*/" in st:
                incomment = False
            continue
        if not st or st.startswith("//") or st.startswith("#") or st.startswith("*"):
            continue
        code = L.split("//")[0]
        prev = lines[i - 1] if i else ""
        if "DEL" in ops and is_stmt(L) and complete_prev(prev):
            out.append(("DEL", i + 1, {i: None}))
        if "SWAP" in ops and i + 1 < min(n, hi) and is_stmt(L) and is_stmt(lines[i + 1]) and complete_prev(prev):
            out.append(("SWAP", i + 1, {i: lines[i + 1], i + 1: L}))
        m = re.match(r"^(\s*(?:else\s+)?if\s*(?:constexpr\s*)?)\((.*)\)\s*(\{?)\s*$", code)
        if "NEG" in ops and m and "constexpr" not in m.group(1) and code.count("(") == code.count(")"):
            out.append(("NEG", i + 1, {i: "%s(!(%s)) %s\n" % (m.group(1), m.group(2), m.group(3))}))
        m = re.match(r"^(\s*)while(\s*\(.*\)\s*\{?\s*)$", code)
        if "WIF" in ops and m and code.count("(") == code.count(")") and not prev.strip().startswith("}"):
            out.append(("WIF", i + 1, {i: "%sif%s\n" % (m.group(1), m.group(2))}))
        if "REL" in ops:
            for a, b in ((" < ", " <= "), (" <= ", " < "), (" > ", " >= "), (" >= ", " > "), (" == ", " != "), (" != ", " == ")):
                k = code.find(a)
                if k >= 0 and "template" not in code and "operator" not in code and not st.startswith("for "):
                    out.append(("REL" + a.strip(), i + 1, {i: L[:k] + b + L[k + len(a):]}))
                    break
            else:
                pass
            if st.startswith("for ") or st.startswith("for("):
                for a, b in ((" < ", " <= "), (" <= ", " < "), (" != ", " < ")):
                    k = code.find(a)
                    if k >= 0:
                        out.append(("RELFOR", i + 1, {i: L[:k] + b + L[k + len(a):]}))
                        break
        if "LOG" in ops:
            for a, b in ((" && ", " || "), (" || ", " && ")):
                k = code.find(a)
                if k >= 0:
                    out.append(("LOG" + a.strip(), i + 1, {i: L[:k] + b + L[k + len(a):]}))
                    break
            if st.startswith("&& ") or st.startswith("|| "):
                k = L.find(st[:2])
                out.append(("LOGc", i + 1, {i: L[:k] + ("||" if st[:2] == "&&" else "&&") + L[k + 2:]}))
        if "CONST" in ops:
            m = re.search(r"\b(true|false)\b", code)
            if m and "noexcept" not in code and "constexpr" not in code and "template" not in code:
                r = "false" if m.group(1) == "true" else "true"
                out.append(("CONST", i + 1, {i: L[:m.start()] + r + L[m.end():]}))
            m = re.search(r" ([\+\-]) 1\b", code)
            if m:
                out.append(("OFF1", i + 1, {i: L[:m.start()] + L[m.end():]}))
        if "RET" in ops:
            m = re.match(r"^(\s*)return\s+([^;]+);\s*$", code)
            if m and m.group(2).strip() not in ("true", "false") and re.match(r"^[\w\.\->:]+$", m.group(2).strip()) is None and False:
                pass
        if "NOT" in ops:
            # drop a leading negation inside a condition: "(!x" -> "(x"
            m = re.search(r"\(\!(?=[A-Za-z_])", code)
            if m and (st.startswith("if") or st.startswith("while") or st.startswith("return") or st.startswith("&&") or st.startswith("||")):
                out.append(("NOT", i + 1, {i: L[:m.start()] + "(" + L[m.end():]}))
    return out


def apply(lines, edits):
    res = []
    for i, L in enumerate(lines):
        if i in edits:
            if edits[i] is None:
                res.append("\n")      # keep line numbers stable
            else:
                res.append(edits[i])
        else:
            res.append(L)
    return "".join(res)


def main():
    ap = argparse.ArgumentParser()
    ap.add_argument("prop")
    ap.add_argument("--files", default="")
    ap.add_argument("--jobs", type=int, default=6)
    ap.add_argument("--ops", default="DEL,SWAP,NEG,WIF,REL,LOG,CONST,NOT")
    ap.add_argument("--out", default="")
    ap.add_argument("--pad", type=int, default=3)
    ap.add_argument("--limit", type=int, default=0)
    ap.add_argument("--save", action="store_true", help="store the outcome under mutants/sweep/<prop>.json (regression reference)")
    ap.add_argument("--verify", action="store_true", help="re-run only the variants recorded as killed in mutants/sweep/<prop>.json; they must still be killed")
    a = ap.parse_args()
    prop = a.prop
    P = [json.loads(l) for l in open(os.path.join(V, "properties.jsonl"))]
    p = [x for x in P if x["id"] == prop][0]
    targets = []   # (relpath, lo, hi)
    if a.files:
        for t in a.files.split(","):
            if ":" in t:
                f, r = t.split(":")
                lo, hi = r.split("-")
                targets.append((f, int(lo), int(hi)))
            else:
                targets.append((t, 1, 10 ** 9))
    else:
        for m in p["anchors"].get("mechanism", []):
            w = m.get("where", "")
            mm = re.match(r"^(\S+?):(\d+)(?:-(\d+))?", w)
            if mm:
                lo = int(mm.group(2)); hi = int(mm.group(3) or mm.group(2))
                targets.append((mm.group(1), max(1, lo - a.pad), hi + a.pad))
    ops = set(a.ops.split(","))
    muts = []
    seen = set()
    for rel, lo, hi in targets:
        path = os.path.join(REPO, rel)
        if not os.path.exists(path):
            print("missing", rel); continue
        lines = open(path).read().splitlines(True)
        for op, ln, ed in gen(lines, lo, hi, ops):
            k = (rel, ln, op)
            if k in seen:
                continue
            seen.add(k)
            muts.append({"file": rel, "line": ln, "op": op, "edits": ed, "orig": lines[ln - 1].rstrip("\n"),
                         "new": (ed[ln - 1] or "<deleted>").rstrip("\n") if (ln - 1) in ed else ""})
    if a.limit:
        muts = muts[:a.limit]
    ref_path = os.path.join(V, "mutants", "sweep", prop + ".json")
    if a.verify:
        ref = json.load(open(ref_path))
        want = set((r["file"], r["orig"], r["op"], r["new"]) for r in ref if r["status"] == "killed")
        muts = [m for m in muts if (m["file"], m["orig"].strip(), m["op"], m["new"].strip()) in want]
        print("verify: %d of %d recorded kills regenerated" % (len(muts), len(want)))
    print("%s: %d variants over %s" % (prop, len(muts), ", ".join("%s:%d-%d" % t for t in targets)), flush=True)
    os.makedirs(WORK, exist_ok=True)
    slots = queue.Queue()
    for j in range(a.jobs):
        d = os.path.join(WORK, "%s_r%d" % (prop, j))
        if os.path.isdir(d):
            shutil.rmtree(d)
        subprocess.run(["rsync", "-a", "--exclude", ".git", REPO + "/", d + "/"], check=True)
        slots.put(d)
    results = []
    lock = threading.Lock()

    def one(m):
        d = slots.get()
        try:
            path = os.path.join(d, m["file"])
            src = open(os.path.join(REPO, m["file"])).read()
            lines = src.splitlines(True)
            new = apply(lines, m["edits"])
            open(path, "w").write(new)
            env = dict(os.environ, PIKA_REPO=d, VERIF_CACHE=os.path.join(d, ".vcache"), VERIF_EVDIR=os.path.join(d, ".vev"))
            try:
                r = subprocess.run([os.path.join(V, "check"), prop, "--no-evidence"], capture_output=True, text=True, cwd=V, env=env, timeout=900)
                rc = r.returncode; out = r.stdout + r.stderr
            except subprocess.TimeoutExpired:
                rc = 99; out = "timeout"
            finally:
                open(path, "w").write(src)
            rules = sorted(set(re.findall(r"rule (C\d\d\.R\w+)", out)))
            br = [l for l in out.splitlines() if l.startswith("ANALYSIS-BROKEN")]
            nocompile = any(("pikafacts failed" in l or "does not parse" in l or "error:" in l) for l in br) or "pikafacts failed" in out
            res = dict(file=m["file"], line=m["line"], op=m["op"], orig=m["orig"].strip(), new=m["new"].strip(), rc=rc, rules=rules,
                       status=("killed" if rc == 1 else "survived" if rc == 0 else "nocompile" if nocompile else "broken"),
                       broken=(br[0][:300] if br else ""))
            with lock:
                results.append(res)
                print("%-9s %s:%d %-6s %s  =>  %s  %s" % (res["status"], os.path.basename(m["file"]), m["line"], m["op"], res["orig"][:70], res["new"][:70], ",".join(rules)), flush=True)
        finally:
            slots.put(d)

    with ThreadPoolExecutor(a.jobs) as ex:
        list(ex.map(one, muts))
    for j in range(a.jobs):
        shutil.rmtree(os.path.join(WORK, "%s_r%d" % (prop, j)), ignore_errors=True)
    results.sort(key=lambda r: (r["file"], r["line"], r["op"]))
    cnt = {}
    for r in results:
        cnt[r["status"]] = cnt.get(r["status"], 0) + 1
    print("SUMMARY %s %s" % (prop, json.dumps(cnt)))
    out = a.out or os.path.join(WORK, prop + ".json")
    json.dump(results, open(out, "w"), indent=1)
    if a.save:
        os.makedirs(os.path.dirname(ref_path), exist_ok=True)
        json.dump([dict(file=r["file"], line=r["line"], op=r["op"], orig=r["orig"], new=r["new"], status=r["status"], rules=r["rules"]) for r in results],
                  open(ref_path, "w"), indent=0)
    if a.verify:
        lost = [r for r in results if r["status"] != "killed"]
        for r in lost:
            print("REGRESSION %s:%d %s %s => %s now %s" % (r["file"], r["line"], r["op"], r["orig"][:60], r["new"][:60], r["status"]))
        print("verify: %d kills kept, %d lost" % (len(results) - len(lost), len(lost)))
        sys.exit(1 if lost else 0)
    print("survivors:")
    for r in results:
        if r["status"] in ("survived", "broken"):
            print("  %-8s %s:%d %-6s %s  =>  %s  %s" % (r["status"], r["file"].split("/")[-1], r["line"], r["op"], r["orig"][:90], r["new"][:90], r["broken"][:120]))


if __name__ == "__main__":
    main()
