#!/usr/bin/env python3
# Developer aid: which functions defined in a property's anchor files are examined by none of its rules?
#   tool/coverage_map.py C06 [min_events]
import importlib, json, os, sys
V = os.path.dirname(os.path.dirname(os.path.abspath(__file__)))
sys.path.insert(0, V)
from engine import core
from engine.core import Report, Facts
prop = sys.argv[1]
minev = int(sys.argv[2]) if len(sys.argv) > 2 else 4
P = [json.loads(l) for l in open(os.path.join(V, "properties.jsonl"))]
p = [x for x in P if x["id"] == prop][0]
rep = Report(prop)
importlib.import_module("rules." + prop).run(rep, "quick")
seen = set()
for f in rep.functions:
    seen.add(f.split("<")[0] if False else f)
def strip_targs(t):
    out, d = [], 0
    for ch in t:
        if ch == "<":
            d += 1
        elif ch == ">":
            d = max(0, d - 1)
        elif d == 0:
            out.append(ch)
    return "".join(out)
seen_q = set(strip_targs(x.split("(")[0]).strip() for x in seen) | set(x.split("(")[0] for x in seen)
flags_extra = core.MPI_FLAGS if prop == "C20" else []
for rel in p["anchors"]["files"]:
    path = os.path.join("/repo", rel)
    if not os.path.exists(path):
        print("missing", rel); continue
    if path.endswith(".cpp"):
        tu = path
    else:
        os.makedirs(core.CACHE, exist_ok=True)
        tu = os.path.join(core.CACHE, "cov_%s.cpp" % core._sha(path)[:10])
        open(tu, "w").write('#include "%s"\n' % path)
    try:
        raw = core.extract(tu, ["."], extra=flags_extra, roots=[path])
    except Exception as e:
        print("cannot parse", rel, str(e)[:200]); continue
    F = Facts(raw)
    rows = []
    for f in F.fns:
        if f.parent != -1:
            continue
        n = sum(1 for _ in f.all_events())
        if n < minev:
            continue
        hit = any(f.qname == s or s.startswith(f.qname) or f.qname in s for s in seen_q)
        rows.append((hit, n, f.qname, f.loc.rsplit(":", 1)[-1], f.pattern))
    un = sorted(set((n, q, l) for hit, n, q, l, pat in rows if not hit), reverse=True)
    tot = len(set(q for _, _, q, _, _ in rows))
    print("== %s: %d functions (>= %d events), %d not examined by any %s rule" % (rel.split("/")[-1], tot, minev, len(set(q for _, q, _ in un)), prop))
    for n, q, l in un[:25]:
        print("     %4d ev  %s  :%s" % (n, q, l))
