// pikafacts — libTooling fact extractor for the /verif static checks.
//
// Contains no rule.  For every selected function definition (template patterns and every
// instantiation present in the TU, lambdas as nested functions) it emits the clang CFG as blocks of
// ordered *events* with resolved callees and expression trees, plus record layouts, enums,
// file-scope asm and evaluated constants.  Everything rule-specific lives in /verif/rules/*.py.
//
// usage: pikafacts --out F.json [--root DIR]... [--sel REGEX]... [--rec REGEX]...
//                  [--overlay PATH=FILE]... TU.cpp -- <clang flags>

#include "clang/AST/ASTConsumer.h"
#include "clang/AST/ASTContext.h"
#include "clang/AST/DeclTemplate.h"
#include "clang/AST/ExprCXX.h"
#include "clang/AST/ParentMap.h"
#include "clang/AST/RecursiveASTVisitor.h"
#include "clang/Analysis/CFG.h"
#include "clang/Frontend/CompilerInstance.h"
#include "clang/Frontend/FrontendAction.h"
#include "clang/Tooling/CompilationDatabase.h"
#include "clang/Tooling/Tooling.h"
#include "llvm/Support/JSON.h"
#include "llvm/Support/MemoryBuffer.h"
#include "llvm/Support/Regex.h"
#include "llvm/Support/raw_ostream.h"

#include <deque>
#include <map>
#include <fstream>
#include <set>
#include <string>
#include <vector>

using namespace clang;
namespace json = llvm::json;

namespace {

struct Options
{
    std::string out;
    std::vector<std::string> roots;
    std::vector<std::string> sels;
    std::vector<std::string> recs;
    std::vector<std::string> calls;    // select functions whose body calls / names a function matching
    std::string knownFile;             // qualified names of the functions that exist in the reference tree
    std::string namesOut;              // dump the qualified names of all function definitions under the roots
    std::set<std::string> known;
    bool allEnums = true;
};
Options g_opt;

std::string qualName(NamedDecl const* d);

std::string ctxName(DeclContext const* dc)
{
    std::string s;
    if (!dc) return s;
    if (isa<TranslationUnitDecl>(dc)) return s;
    if (auto const* ns = dyn_cast<NamespaceDecl>(dc))
    {
        std::string p = ctxName(ns->getParent());
        if (ns->isInline()) return p;
        std::string n = ns->isAnonymousNamespace() ? "(anon)" : ns->getNameAsString();
        return p.empty() ? n : p + "::" + n;
    }
    if (auto const* rd = dyn_cast<RecordDecl>(dc))
    {
        std::string p = ctxName(rd->getParent());
        std::string n;
        if (auto const* cx = dyn_cast<CXXRecordDecl>(rd); cx && cx->isLambda())
            n = "(lambda)";
        else
            n = rd->getNameAsString();
        if (n.empty())
        {
            if (auto const* td = rd->getTypedefNameForAnonDecl()) n = td->getNameAsString();
            else n = "(anon)";
        }
        return p.empty() ? n : p + "::" + n;
    }
    if (auto const* fd = dyn_cast<FunctionDecl>(dc))
    {
        std::string p = ctxName(fd->getParent());
        std::string n = fd->getNameAsString();
        return p.empty() ? n : p + "::" + n;
    }
    if (auto const* ed = dyn_cast<EnumDecl>(dc))
    {
        std::string p = ctxName(ed->getParent());
        if (!ed->isScoped()) return p;
        std::string n = ed->getNameAsString();
        return p.empty() ? n : p + "::" + n;
    }
    return ctxName(dc->getParent());
}

std::string qualName(NamedDecl const* d)
{
    if (!d) return "";
    std::string p = ctxName(d->getDeclContext());
    std::string n = d->getNameAsString();
    if (auto const* rd = dyn_cast<CXXRecordDecl>(d); rd && rd->isLambda()) n = "(lambda)";
    return p.empty() ? n : p + "::" + n;
}

std::string typeStr(QualType t, ASTContext& ctx)
{
    if (t.isNull()) return "";
    PrintingPolicy pp(ctx.getLangOpts());
    pp.SuppressTagKeyword = true;
    pp.Bool = true;
    return t.getAsString(pp);
}

std::string recOfType(QualType t)
{
    if (t.isNull()) return "";
    t = t.getNonReferenceType();
    if (auto const* pt = t->getAs<PointerType>()) t = pt->getPointeeType();
    t = t.getUnqualifiedType();
    if (auto const* rd = t->getAsCXXRecordDecl()) return qualName(rd);
    if (auto const* tst = t->getAs<TemplateSpecializationType>())
        if (auto* td = tst->getTemplateName().getAsTemplateDecl()) return qualName(td);
    if (auto const* inj = t->getAs<InjectedClassNameType>()) return qualName(inj->getDecl());
    return "";
}

struct FnJob
{
    FunctionDecl const* fd;
    int id;
    int parent;    // enclosing function id (lambdas) or -1
    std::string qname;
};

class Extractor
{
public:
    Extractor(ASTContext& c)
      : ctx(c)
      , sm(c.getSourceManager())
    {
        for (auto& s : g_opt.sels) selRe.emplace_back(s);
        for (auto& s : g_opt.recs) recRe.emplace_back(s);
        for (auto& s : g_opt.calls) callRe.emplace_back(s);
    }

    ASTContext& ctx;
    SourceManager& sm;
    std::vector<llvm::Regex> selRe, recRe, callRe;
    json::Array functions;
    json::Object records;
    json::Object enums;
    json::Array asms;
    json::Object globals;
    std::deque<FnJob> queue;
    std::set<FunctionDecl const*> seen;
    std::set<FunctionDecl const*> closureFns;
    std::set<std::string> allNames;
    std::map<LambdaExpr const*, int> lambdaIds;
    int nextFn = 0;

    std::string fileOf(SourceLocation l)
    {
        if (l.isInvalid()) return "";
        l = sm.getExpansionLoc(l);
        return sm.getFilename(l).str();
    }
    std::string locStr(SourceLocation l)
    {
        if (l.isInvalid()) return "";
        l = sm.getExpansionLoc(l);
        PresumedLoc p = sm.getPresumedLoc(l);
        if (p.isInvalid()) return "";
        return std::string(p.getFilename()) + ":" + std::to_string(p.getLine());
    }
    bool inRoots(SourceLocation l)
    {
        std::string f = fileOf(l);
        if (f.empty()) return false;
        for (auto& r : g_opt.roots)
            if (f.compare(0, r.size(), r) == 0) return true;
        return false;
    }
    bool matches(std::vector<llvm::Regex>& res, std::string const& s)
    {
        for (auto& r : res)
            if (r.match(s)) return true;
        return false;
    }

    // ---------------------------------------------------------------- expression trees
    static Expr const* strip(Expr const* e)
    {
        while (e)
        {
            Expr const* n = e;
            if (auto* p = dyn_cast<ParenExpr>(e)) n = p->getSubExpr();
            else if (auto* p = dyn_cast<ExprWithCleanups>(e)) n = p->getSubExpr();
            else if (auto* p = dyn_cast<MaterializeTemporaryExpr>(e)) n = p->getSubExpr();
            else if (auto* p = dyn_cast<CXXBindTemporaryExpr>(e)) n = p->getSubExpr();
            else if (auto* p = dyn_cast<ConstantExpr>(e)) n = p->getSubExpr();
            else if (auto* p = dyn_cast<SubstNonTypeTemplateParmExpr>(e)) n = p->getReplacement();
            else if (auto* p = dyn_cast<CXXDefaultArgExpr>(e)) n = p->getExpr();
            else if (auto* p = dyn_cast<CXXDefaultInitExpr>(e)) n = p->getExpr();
            if (n == e) break;
            e = n;
        }
        return e;
    }

    bool isStdMoveLike(CallExpr const* c, std::string& which)
    {
        if (c->getNumArgs() != 1) return false;
        if (auto const* fd = c->getDirectCallee())
        {
            if (!fd->isInStdNamespace()) return false;
            std::string n = fd->getNameAsString();
            if (n == "move" || n == "forward" || n == "move_if_noexcept")
            {
                which = n;
                return true;
            }
            return false;
        }
        Expr const* callee = c->getCallee()->IgnoreParenImpCasts();
        if (auto const* ul = dyn_cast<UnresolvedLookupExpr>(callee))
        {
            std::string n = ul->getName().getAsString();
            if ((n == "move" || n == "forward") && ul->getQualifier() &&
                ul->getQualifier()->getKind() == NestedNameSpecifier::Namespace &&
                ul->getQualifier()->getAsNamespace()->getNameAsString() == "std")
            {
                which = n;
                return true;
            }
        }
        return false;
    }

    json::Value intVal(llvm::APSInt const& v)
    {
        if (v.isSigned() || v.getActiveBits() < 64) return json::Value((int64_t) v.getExtValue());
        // large unsigned: keep as decimal string to stay exact
        llvm::SmallString<32> s;
        v.toString(s, 10);
        return json::Value(std::string(s.str()));
    }

    void addEval(json::Object& o, Expr const* e)
    {
        if (!e || e->isValueDependent() || e->isTypeDependent()) return;
        if (!e->getType()->isIntegralOrEnumerationType()) return;
        Expr::EvalResult r;
        if (e->EvaluateAsInt(r, ctx, Expr::SE_NoSideEffects)) o["val"] = intVal(r.Val.getInt());
    }

    std::string memOrderName(Expr const* e)
    {
        e = strip(e);
        if (!e) return "";
        e = e->IgnoreParenImpCasts();
        if (auto const* dr = dyn_cast<DeclRefExpr>(e))
        {
            if (auto const* ec = dyn_cast<EnumConstantDecl>(dr->getDecl()))
            {
                std::string n = ec->getNameAsString();
                if (n.find("memory_order") != 0) n = "memory_order_" + n;
                return n;
            }
            if (auto const* vd = dyn_cast<VarDecl>(dr->getDecl())) return vd->getNameAsString();
        }
        return "";
    }

    json::Value tree(Expr const* e, int depth = 0)
    {
        e = strip(e);
        if (!e) return nullptr;
        json::Object o;
        if (depth > 24)
        {
            o["k"] = "deep";
            return std::move(o);
        }
        if (auto const* ic = dyn_cast<ImplicitCastExpr>(e))
        {
            CastKind ck = ic->getCastKind();
            if (ck == CK_IntegralCast && !ic->getType()->isDependentType() &&
                !ic->getSubExpr()->getType()->isDependentType())
            {
                QualType from = ic->getSubExpr()->getType(), to = ic->getType();
                if (from->isIntegerType() && to->isIntegerType())
                {
                    uint64_t wf = ctx.getTypeSize(from), wt = ctx.getTypeSize(to);
                    bool sf = from->isSignedIntegerOrEnumerationType(),
                         st = to->isSignedIntegerOrEnumerationType();
                    if (wt < wf || (sf != st && wt <= wf))
                    {
                        o["k"] = "cast";
                        o["implicit"] = true;
                        o["from"] = typeStr(from, ctx);
                        o["to"] = typeStr(to, ctx);
                        o["wf"] = (int64_t) wf;
                        o["wt"] = (int64_t) wt;
                        o["e"] = tree(ic->getSubExpr(), depth + 1);
                        o["loc"] = locStr(ic->getBeginLoc());
                        return std::move(o);
                    }
                }
            }
            return tree(ic->getSubExpr(), depth);
        }
        if (auto const* ce = dyn_cast<ExplicitCastExpr>(e))
        {
            QualType to = ce->getTypeAsWritten();
            if (to->isRValueReferenceType() || (isa<CXXStaticCastExpr>(ce) && to->isReferenceType() &&
                    !to->getPointeeType().isConstQualified() &&
                    (to->isRValueReferenceType() || to->getPointeeType()->isDependentType() ||
                        isa<DecltypeType>(to->getPointeeType().getTypePtr()))))
            {
                // PIKA_MOVE / PIKA_FWD style static_cast<T&&>
                o["k"] = "move";
                o["which"] = "cast";
                o["e"] = tree(ce->getSubExpr(), depth + 1);
                return std::move(o);
            }
            o["k"] = "cast";
            o["to"] = typeStr(to, ctx);
            QualType from = ce->getSubExpr()->getType();
            o["from"] = typeStr(from, ctx);
            if (!to->isDependentType() && !from->isDependentType() && to->isIntegerType() &&
                from->isIntegerType())
            {
                o["wf"] = (int64_t) ctx.getTypeSize(from);
                o["wt"] = (int64_t) ctx.getTypeSize(to);
            }
            o["e"] = tree(ce->getSubExpr(), depth + 1);
            o["loc"] = locStr(ce->getBeginLoc());
            return std::move(o);
        }
        if (auto const* il = dyn_cast<IntegerLiteral>(e))
        {
            o["k"] = "lit";
            o["v"] = intVal(llvm::APSInt(il->getValue(), !il->getType()->isSignedIntegerType()));
            return std::move(o);
        }
        if (auto const* bl = dyn_cast<CXXBoolLiteralExpr>(e))
        {
            o["k"] = "lit";
            o["v"] = bl->getValue();
            return std::move(o);
        }
        if (auto const* sl = dyn_cast<StringLiteral>(e))
        {
            o["k"] = "lit";
            if (sl->isAscii() || sl->isUTF8()) o["s"] = sl->getString().str();
            else o["s"] = "<wide>";
            return std::move(o);
        }
        if (isa<CXXNullPtrLiteralExpr>(e) || isa<GNUNullExpr>(e))
        {
            o["k"] = "lit";
            o["v"] = nullptr;
            o["null"] = true;
            return std::move(o);
        }
        if (auto const* fl = dyn_cast<FloatingLiteral>(e))
        {
            o["k"] = "lit";
            o["v"] = fl->getValueAsApproximateDouble();
            return std::move(o);
        }
        if (auto const* cl = dyn_cast<CharacterLiteral>(e))
        {
            o["k"] = "lit";
            o["v"] = (int64_t) cl->getValue();
            return std::move(o);
        }
        if (isa<CXXThisExpr>(e))
        {
            o["k"] = "this";
            return std::move(o);
        }
        if (auto const* dr = dyn_cast<DeclRefExpr>(e))
        {
            ValueDecl const* d = dr->getDecl();
            if (auto const* ec = dyn_cast<EnumConstantDecl>(d))
            {
                o["k"] = "enum";
                o["name"] = ec->getNameAsString();
                o["qname"] = qualName(ec);
                if (auto const* ed = dyn_cast<EnumDecl>(ec->getDeclContext())) o["enum"] = qualName(ed);
                o["val"] = intVal(ec->getInitVal());
                return std::move(o);
            }
            if (auto const* fd = dyn_cast<FunctionDecl>(d))
            {
                o["k"] = "fn";
                o["name"] = qualName(fd);
                return std::move(o);
            }
            if (auto const* vd = dyn_cast<VarDecl>(d))
            {
                o["k"] = "var";
                bool local = vd->isLocalVarDeclOrParm();
                o["name"] = local ? vd->getNameAsString() : qualName(vd);
                if (!local) o["global"] = true;
                if (isa<ParmVarDecl>(vd)) o["param"] = true;
                o["type"] = typeStr(vd->getType(), ctx);
                addEval(o, e);
                return std::move(o);
            }
            if (auto const* bd = dyn_cast<BindingDecl>(d))
            {
                o["k"] = "var";
                o["name"] = bd->getNameAsString();
                return std::move(o);
            }
            if (auto const* nt = dyn_cast<NonTypeTemplateParmDecl>(d))
            {
                o["k"] = "var";
                o["name"] = nt->getNameAsString();
                o["tparam"] = true;
                return std::move(o);
            }
            o["k"] = "var";
            o["name"] = d->getNameAsString();
            return std::move(o);
        }
        if (auto const* me = dyn_cast<MemberExpr>(e))
        {
            o["k"] = "mem";
            o["name"] = me->getMemberDecl()->getNameAsString();
            o["arrow"] = me->isArrow();
            o["field"] = isa<FieldDecl>(me->getMemberDecl());
            if (auto const* vd = dyn_cast<VarDecl>(me->getMemberDecl()))
            {
                o["static"] = true;
                o["qname"] = qualName(vd);
            }
            o["base"] = tree(me->getBase(), depth + 1);
            if (isa<FieldDecl>(me->getMemberDecl()))
                o["rec"] = qualName(cast<FieldDecl>(me->getMemberDecl())->getParent());
            addEval(o, e);
            return std::move(o);
        }
        if (auto const* me = dyn_cast<CXXDependentScopeMemberExpr>(e))
        {
            o["k"] = "mem";
            o["name"] = me->getMember().getAsString();
            o["arrow"] = me->isArrow();
            o["dep"] = true;
            o["field"] = true;    // unknown; treated as field until proven a call
            if (!me->isImplicitAccess()) o["base"] = tree(me->getBase(), depth + 1);
            else
            {
                json::Object t;
                t["k"] = "this";
                o["base"] = std::move(t);
            }
            return std::move(o);
        }
        if (auto const* me = dyn_cast<UnresolvedMemberExpr>(e))
        {
            o["k"] = "mem";
            o["name"] = me->getMemberName().getAsString();
            o["arrow"] = me->isArrow();
            o["dep"] = true;
            o["field"] = false;
            if (!me->isImplicitAccess()) o["base"] = tree(me->getBase(), depth + 1);
            else
            {
                json::Object t;
                t["k"] = "this";
                o["base"] = std::move(t);
            }
            return std::move(o);
        }
        if (auto const* ae = dyn_cast<ArraySubscriptExpr>(e))
        {
            o["k"] = "index";
            o["base"] = tree(ae->getBase(), depth + 1);
            o["idx"] = tree(ae->getIdx(), depth + 1);
            return std::move(o);
        }
        if (auto const* uo = dyn_cast<UnaryOperator>(e))
        {
            o["k"] = "un";
            o["op"] = UnaryOperator::getOpcodeStr(uo->getOpcode()).str();
            if (uo->isPostfix()) o["post"] = true;
            o["e"] = tree(uo->getSubExpr(), depth + 1);
            addEval(o, e);
            return std::move(o);
        }
        if (auto const* bo = dyn_cast<BinaryOperator>(e))
        {
            o["k"] = "bin";
            o["op"] = bo->getOpcodeStr().str();
            o["l"] = tree(bo->getLHS(), depth + 1);
            o["r"] = tree(bo->getRHS(), depth + 1);
            addEval(o, e);
            return std::move(o);
        }
        if (auto const* rw = dyn_cast<CXXRewrittenBinaryOperator>(e))
            return tree(rw->getSemanticForm(), depth);
        if (auto const* co = dyn_cast<AbstractConditionalOperator>(e))
        {
            o["k"] = "cond";
            o["c"] = tree(co->getCond(), depth + 1);
            o["t"] = tree(co->getTrueExpr(), depth + 1);
            o["f"] = tree(co->getFalseExpr(), depth + 1);
            return std::move(o);
        }
        if (auto const* ce = dyn_cast<CallExpr>(e))
        {
            std::string which;
            if (isStdMoveLike(ce, which))
            {
                o["k"] = "move";
                o["which"] = which;
                o["e"] = tree(ce->getArg(0), depth + 1);
                return std::move(o);
            }
            return callTree(ce, depth);
        }
        if (auto const* ce = dyn_cast<CXXConstructExpr>(e))
        {
            // see through copy/move construction from a single argument
            if (ce->getNumArgs() == 1 && ce->getConstructor()->isCopyOrMoveConstructor())
            {
                json::Value sub = tree(ce->getArg(0), depth);
                if (auto* so = sub.getAsObject())
                {
                    (*so)["copied"] = ce->getConstructor()->isMoveConstructor() ? "move" : "copy";
                }
                return sub;
            }
            o["k"] = "construct";
            o["type"] = typeStr(ce->getType(), ctx);
            o["rec"] = recOfType(ce->getType());
            o["ctor"] = qualName(ce->getConstructor());
            {
                std::string fq = maybeEnqueueFunctor(ce->getType());
                if (!fq.empty()) o["functor_call"] = fq;
            }
            json::Array a;
            for (auto const* arg : ce->arguments()) a.push_back(tree(arg, depth + 1));
            o["args"] = std::move(a);
            o["sid"] = sid(ce);
            return std::move(o);
        }
        if (auto const* ce = dyn_cast<CXXUnresolvedConstructExpr>(e))
        {
            o["k"] = "construct";
            o["type"] = typeStr(ce->getTypeAsWritten(), ctx);
            o["rec"] = recOfType(ce->getTypeAsWritten());
            o["dep"] = true;
            {
                std::string fq = maybeEnqueueFunctor(ce->getTypeAsWritten());
                if (!fq.empty()) o["functor_call"] = fq;
            }
            json::Array a;
            for (auto const* arg : ce->arguments()) a.push_back(tree(arg, depth + 1));
            o["args"] = std::move(a);
            o["sid"] = sid(ce);
            return std::move(o);
        }
        if (auto const* il = dyn_cast<InitListExpr>(e))
        {
            o["k"] = "construct";
            o["type"] = typeStr(il->getType(), ctx);
            o["rec"] = recOfType(il->getType());
            o["list"] = true;
            {
                std::string fq = maybeEnqueueFunctor(il->getType());
                if (!fq.empty()) o["functor_call"] = fq;
            }
            json::Array a;
            for (auto const* arg : il->inits()) a.push_back(tree(arg, depth + 1));
            o["args"] = std::move(a);
            return std::move(o);
        }
        if (auto const* pl = dyn_cast<ParenListExpr>(e))
        {
            o["k"] = "construct";
            o["list"] = true;
            json::Array a;
            for (auto const* arg : const_cast<ParenListExpr*>(pl)->exprs()) a.push_back(tree(arg, depth + 1));
            o["args"] = std::move(a);
            return std::move(o);
        }
        if (auto const* le = dyn_cast<LambdaExpr>(e))
        {
            o["k"] = "lambda";
            auto it = lambdaIds.find(le);
            o["id"] = it == lambdaIds.end() ? -1 : it->second;
            return std::move(o);
        }
        if (auto const* ne = dyn_cast<CXXNewExpr>(e))
        {
            o["k"] = "new";
            o["type"] = typeStr(ne->getAllocatedType(), ctx);
            o["rec"] = recOfType(ne->getAllocatedType());
            if (ne->getNumPlacementArgs() > 0) o["placement"] = tree(ne->getPlacementArg(0), depth + 1);
            if (ne->getInitializer()) o["init"] = tree(ne->getInitializer(), depth + 1);
            return std::move(o);
        }
        if (auto const* de = dyn_cast<CXXDeleteExpr>(e))
        {
            o["k"] = "delete";
            o["e"] = tree(de->getArgument(), depth + 1);
            return std::move(o);
        }
        if (auto const* ul = dyn_cast<UnresolvedLookupExpr>(e))
        {
            o["k"] = "fn";
            std::string q;
            if (ul->getQualifier())
            {
                llvm::raw_string_ostream os(q);
                ul->getQualifier()->print(os, PrintingPolicy(ctx.getLangOpts()));
            }
            o["name"] = q + ul->getName().getAsString();
            o["dep"] = true;
            // resolved candidates (useful for CPO-like free functions)
            json::Array cands;
            std::set<std::string> cs;
            for (auto const* d : ul->decls()) cs.insert(qualName(d->getUnderlyingDecl()));
            for (auto& c : cs) cands.push_back(c);
            o["cands"] = std::move(cands);
            return std::move(o);
        }
        if (auto const* ds = dyn_cast<DependentScopeDeclRefExpr>(e))
        {
            o["k"] = "var";
            std::string q;
            if (ds->getQualifier())
            {
                llvm::raw_string_ostream os(q);
                ds->getQualifier()->print(os, PrintingPolicy(ctx.getLangOpts()));
            }
            o["name"] = q + ds->getDeclName().getAsString();
            o["dep"] = true;
            return std::move(o);
        }
        if (auto const* so = dyn_cast<SizeOfPackExpr>(e))
        {
            o["k"] = "other";
            o["cls"] = "SizeOfPackExpr";
            addEval(o, e);
            return std::move(o);
        }
        if (auto const* ue = dyn_cast<UnaryExprOrTypeTraitExpr>(e))
        {
            o["k"] = "other";
            o["cls"] = "sizeof";
            addEval(o, e);
            return std::move(o);
        }
        if (auto const* pe = dyn_cast<PackExpansionExpr>(e))
        {
            json::Value sub = tree(pe->getPattern(), depth);
            if (auto* so = sub.getAsObject()) (*so)["pack"] = true;
            return sub;
        }
        if (auto const* fe = dyn_cast<CXXFoldExpr>(e))
        {
            o["k"] = "fold";
            o["op"] = BinaryOperator::getOpcodeStr(fe->getOperator()).str();
            if (fe->getPattern()) o["e"] = tree(fe->getPattern(), depth + 1);
            return std::move(o);
        }
        if (auto const* pe = dyn_cast<CXXPseudoDestructorExpr>(e))
        {
            o["k"] = "pseudo_dtor";
            o["base"] = tree(pe->getBase(), depth + 1);
            return std::move(o);
        }
        if (auto const* se = dyn_cast<CXXScalarValueInitExpr>(e))
        {
            o["k"] = "construct";
            o["type"] = typeStr(se->getType(), ctx);
            o["args"] = json::Array();
            return std::move(o);
        }
        if (auto const* oe = dyn_cast<OpaqueValueExpr>(e))
        {
            if (oe->getSourceExpr()) return tree(oe->getSourceExpr(), depth);
        }
        if (auto const* te = dyn_cast<CXXTypeidExpr>(e))
        {
            o["k"] = "other";
            o["cls"] = "typeid";
            return std::move(o);
        }
        o["k"] = "other";
        o["cls"] = e->getStmtClassName();
        addEval(o, e);
        return std::move(o);
    }

    std::map<Stmt const*, int> sids;
    int nextSid = 1;
    int sid(Stmt const* s)
    {
        auto it = sids.find(s);
        if (it != sids.end()) return it->second;
        return sids[s] = nextSid++;
    }

    json::Value callTree(CallExpr const* ce, int depth)
    {
        json::Object o;
        o["k"] = "call";
        o["sid"] = sid(ce);
        o["loc"] = locStr(ce->getBeginLoc());
        FunctionDecl const* fd = ce->getDirectCallee();
        Expr const* calleeE = ce->getCallee() ? ce->getCallee()->IgnoreParenImpCasts() : nullptr;
        unsigned firstArg = 0;
        if (auto const* mc = dyn_cast<CXXMemberCallExpr>(ce))
        {
            if (auto const* obj = mc->getImplicitObjectArgument()) o["recv"] = tree(obj, depth + 1);
            if (auto const* me = dyn_cast_or_null<MemberExpr>(calleeE))
            {
                o["arrow"] = me->isArrow();
                // Base::f() : a qualified member call is not dispatched virtually
                if (me->hasQualifier()) o["qualified"] = true;
            }
        }
        else if (auto const* me = dyn_cast_or_null<MemberExpr>(calleeE))
        {
            // member call in a template pattern whose callee is already resolved
            o["recv"] = tree(me->getBase(), depth + 1);
            o["arrow"] = me->isArrow();
        }
        else if (auto const* oc = dyn_cast<CXXOperatorCallExpr>(ce))
        {
            o["op"] = getOperatorSpelling(oc->getOperator());
            if (fd && isa<CXXMethodDecl>(fd) && oc->getNumArgs() > 0)
            {
                o["recv"] = tree(oc->getArg(0), depth + 1);
                firstArg = 1;
            }
        }
        if (fd)
        {
            o["callee"] = qualName(fd);
            maybeEnqueueNewHelper(fd);
            if (fd->isNoReturn()) o["noreturn"] = true;
            // template arguments of a called function template specialisation (integral / type arguments, printed)
            if (auto const* tal = fd->getTemplateSpecializationArgs())
            {
                json::Array tas;
                for (auto const& ta : tal->asArray())
                {
                    std::string str;
                    llvm::raw_string_ostream os(str);
                    ta.print(ctx.getPrintingPolicy(), os, true);
                    os.flush();
                    tas.push_back(str);
                }
                o["targs"] = std::move(tas);
            }
            if (auto const* md = dyn_cast<CXXMethodDecl>(fd))
            {
                if (md->isVirtual()) o["virtual"] = true;
                o["rec"] = qualName(md->getParent());
                if (md->getParent()->isLambda()) o["lambda_call"] = true;
            }
            if (auto const* fpt = fd->getType()->getAs<FunctionProtoType>())
                if (fpt->isNothrow()) o["noexcept"] = true;
            // parameter types (by-value guards matter to the lock engine)
            json::Array pts;
            for (auto const* p : fd->parameters()) pts.push_back(typeStr(p->getType(), ctx));
            o["ptypes"] = std::move(pts);
        }
        else if (calleeE)
        {
            // dependent / indirect call: describe the callee expression
            o["callee_expr"] = tree(calleeE, depth + 1);
            if (auto const* me = dyn_cast<CXXDependentScopeMemberExpr>(calleeE))
            {
                o["callee_member"] = me->getMember().getAsString();
                o["arrow"] = me->isArrow();
                if (!me->isImplicitAccess()) o["recv"] = tree(me->getBase(), depth + 1);
                else
                {
                    json::Object t;
                    t["k"] = "this";
                    o["recv"] = std::move(t);
                    o["arrow"] = true;
                }
            }
            else if (auto const* me = dyn_cast<UnresolvedMemberExpr>(calleeE))
            {
                o["callee_member"] = me->getMemberName().getAsString();
                o["arrow"] = me->isArrow();
                if (!me->isImplicitAccess()) o["recv"] = tree(me->getBase(), depth + 1);
                else
                {
                    json::Object t;
                    t["k"] = "this";
                    o["recv"] = std::move(t);
                    o["arrow"] = true;
                }
            }
            else if (auto const* me = dyn_cast<MemberExpr>(calleeE))
            {
                o["callee_member"] = me->getMemberDecl()->getNameAsString();
                o["recv"] = tree(me->getBase(), depth + 1);
                o["arrow"] = me->isArrow();
            }
            else if (auto const* ul = dyn_cast<UnresolvedLookupExpr>(calleeE))
            {
                o["callee_name"] = ul->getName().getAsString();
            }
        }
        // callee expression names a variable (CPOs such as set_value) — also for resolved calls
        Expr const* objE = nullptr;
        if (auto const* oc = dyn_cast<CXXOperatorCallExpr>(ce))
        {
            if (oc->getOperator() == OO_Call && oc->getNumArgs() > 0)
                objE = oc->getArg(0)->IgnoreParenImpCasts();
        }
        else if (calleeE)
            objE = calleeE;
        if (objE)
        {
            if (auto const* dr = dyn_cast<DeclRefExpr>(objE))
                if (auto const* vd = dyn_cast<VarDecl>(dr->getDecl()))
                    if (!vd->isLocalVarDeclOrParm()) o["callee_var"] = qualName(vd);
        }
        json::Array a;
        for (unsigned i = firstArg; i < ce->getNumArgs(); ++i) a.push_back(tree(ce->getArg(i), depth + 1));
        o["args"] = std::move(a);
        // memory orders of std::atomic operations
        if (fd && (fd->getNameAsString().find("compare_exchange") == 0 || fd->getNameAsString() == "load" ||
                      fd->getNameAsString() == "store" || fd->getNameAsString() == "exchange" ||
                      fd->getNameAsString().find("fetch_") == 0 || fd->getNameAsString() == "test_and_set" ||
                      fd->getNameAsString() == "clear"))
        {
            json::Array mos;
            for (unsigned i = firstArg; i < ce->getNumArgs(); ++i)
            {
                std::string m = memOrderName(ce->getArg(i));
                if (!m.empty() && m.find("memory_order") == 0) mos.push_back(m);
            }
            if (!mos.empty()) o["mo"] = std::move(mos);
        }
        if (!ce->isTypeDependent() && !ce->isValueDependent()) o["type"] = typeStr(ce->getType(), ctx);
        return std::move(o);
    }

    // ---------------------------------------------------------------- functions
    struct BodyScan : RecursiveASTVisitor<BodyScan>
    {
        std::vector<LambdaExpr const*> lambdas;
        std::map<Expr const*, VarDecl const*> initOf;
        bool shouldVisitImplicitCode() const { return false; }
        bool TraverseLambdaExpr(LambdaExpr* le)
        {
            lambdas.push_back(le);
            // visit captures' init expressions but not the body (handled as nested fn)
            for (auto* init : le->capture_inits())
                if (init) TraverseStmt(init);
            return true;
        }
        bool VisitVarDecl(VarDecl* vd)
        {
            if (vd->getInit()) initOf[vd->getInit()] = vd;
            return true;
        }
    };

    // does the body (or a constructor's member initialisers) reference a function whose qualified
    // name matches one of the --calls patterns?  (who-may-call queries)
    struct CallFinder : RecursiveASTVisitor<CallFinder>
    {
        Extractor& x;
        bool found = false;
        explicit CallFinder(Extractor& e)
          : x(e)
        {
        }
        bool shouldVisitTemplateInstantiations() const { return true; }
        bool VisitDeclRefExpr(DeclRefExpr* e)
        {
            if (auto const* fd = dyn_cast<FunctionDecl>(e->getDecl()))
                if (x.matches(x.callRe, qualName(fd))) found = true;
            return !found;
        }
        bool VisitMemberExpr(MemberExpr* e)
        {
            if (auto const* fd = dyn_cast<FunctionDecl>(e->getMemberDecl()))
            {
                if (x.matches(x.callRe, qualName(fd))) found = true;
            }
            else if (auto const* fld = dyn_cast<FieldDecl>(e->getMemberDecl()))
            {
                // data members too: who-may-touch queries on a field
                if (x.matches(x.callRe, qualName(fld))) found = true;
            }
            return !found;
        }
        bool VisitCXXDependentScopeMemberExpr(CXXDependentScopeMemberExpr* e)
        {
            // unresolved in a template pattern: match on "?::<member name>"
            if (x.matches(x.callRe, "?::" + e->getMember().getAsString())) found = true;
            return !found;
        }
        bool VisitUnresolvedLookupExpr(UnresolvedLookupExpr* e)
        {
            for (auto const* d : e->decls())
                if (auto const* nd = dyn_cast<NamedDecl>(d))
                    if (x.matches(x.callRe, qualName(nd))) found = true;
            return !found;
        }
    };

    bool selected(FunctionDecl const* fd, std::string const& qn)
    {
        if (!fd->doesThisDeclarationHaveABody()) return false;
        if (!inRoots(fd->getLocation())) return false;
        if (matches(selRe, qn)) return true;
        if (!callRe.empty())
        {
            CallFinder cf(*this);
            cf.TraverseDecl(const_cast<FunctionDecl*>(fd));
            return cf.found;
        }
        return false;
    }

    void enqueue(FunctionDecl const* fd, int parent, std::string qn)
    {
        if (!seen.insert(fd).second) return;
        queue.push_back({fd, nextFn++, parent, std::move(qn)});
    }

    // A callee that does not exist in the reference tree (a helper introduced by a later change) is extracted
    // together with its caller, so that the rule engine can inline it.
    // A function object of a class that does not exist in the reference tree (a lambda rewritten as a named functor):
    // its call operator is extracted with the function that constructs the object, like the body of a lambda.
    std::string maybeEnqueueFunctor(QualType t)
    {
        if (g_opt.known.empty()) return "";
        auto const* rd = t.getNonReferenceType()->getAsCXXRecordDecl();
        if (!rd || rd->isLambda() || !rd->hasDefinition()) return "";
        if (!inRoots(rd->getLocation())) return "";
        for (auto const* m : rd->methods())
        {
            if (m->getOverloadedOperator() != OO_Call) continue;
            FunctionDecl const* def = nullptr;
            if (!m->hasBody(def) || !def) continue;
            std::string qn = qualName(def);
            if (g_opt.known.count(qn)) return "";
            if (!seen.count(def))
            {
                closureFns.insert(def);
                enqueue(def, -1, qn);
            }
            return qn;
        }
        return "";
    }

    void maybeEnqueueNewHelper(FunctionDecl const* fd)
    {
        if (g_opt.known.empty() || !fd) return;
        FunctionDecl const* def = nullptr;
        if (!fd->hasBody(def) || !def) return;
        if (!inRoots(def->getLocation())) return;
        if (def->isImplicit() || def->isDefaulted()) return;    // compiler-generated: never in the snapshot
        if (auto const* md = dyn_cast<CXXMethodDecl>(def))
            if (md->getParent()->isLambda()) return;
        std::string qn = qualName(def);
        if (g_opt.known.count(qn)) return;
        if (seen.count(def)) return;
        closureFns.insert(def);
        enqueue(def, -1, qn);
    }

    std::string templArgs(FunctionDecl const* fd)
    {
        std::string s;
        llvm::raw_string_ostream os(s);
        PrintingPolicy pp(ctx.getLangOpts());
        pp.SuppressTagKeyword = true;
        fd->getNameForDiagnostic(os, pp, true);
        return os.str();
    }

    Expr const* stripToCtor(Expr const* e)
    {
        e = strip(e);
        while (e)
        {
            if (auto* ic = dyn_cast<ImplicitCastExpr>(e)) { e = strip(ic->getSubExpr()); continue; }
            if (auto* fc = dyn_cast<CXXFunctionalCastExpr>(e)) { e = strip(fc->getSubExpr()); continue; }
            break;
        }
        return e;
    }

    void emitFunction(FnJob const& job)
    {
        FunctionDecl const* fd = job.fd;
        Stmt* body = fd->getBody();
        if (!body) return;    // defaulted / deleted special members
        json::Object f;
        f["id"] = job.id;
        f["qname"] = job.qname;
        f["parent_fn"] = job.parent;
        {
            // not in the snapshot of the reference tree: a function introduced by a later change
            bool isLambdaOp = false;
            if (auto const* md0 = dyn_cast<CXXMethodDecl>(fd)) isLambdaOp = md0->getParent()->isLambda();
            std::string fileName = fileOf(fd->getLocation());
            // the repository is the first --root (the checks pass /repo/; developer tools may point at a scratch copy)
            std::string const repoRoot = g_opt.roots.empty() ? std::string("/repo/") : g_opt.roots[0];
            bool underRepo = fileName.compare(0, repoRoot.size(), repoRoot) == 0;
            if (closureFns.count(fd) ||
                (!g_opt.known.empty() && underRepo && !isLambdaOp && !fd->isImplicit() && !fd->isDefaulted() &&
                    job.parent < 0 && !g_opt.known.count(job.qname)))
                f["new_helper"] = true;
        }
        f["loc"] = locStr(fd->getLocation());
        f["body_loc"] = locStr(body->getBeginLoc());
        f["end"] = locStr(fd->getEndLoc());
        f["pattern"] = fd->isDependentContext();
        f["full"] = templArgs(fd);
        if (auto const* md = dyn_cast<CXXMethodDecl>(fd))
        {
            f["record"] = qualName(md->getParent());
            f["record_full"] = typeStr(ctx.getRecordType(md->getParent()), ctx);
            f["kind"] = isa<CXXConstructorDecl>(fd) ? "ctor" :
                isa<CXXDestructorDecl>(fd)          ? "dtor" :
                md->getParent()->isLambda()         ? "lambda" :
                                                      "method";
            if (md->getRefQualifier() == RQ_RValue) f["refq"] = "&&";
            else if (md->getRefQualifier() == RQ_LValue) f["refq"] = "&";
            f["const"] = md->isConst();
            f["static"] = md->isStatic();
        }
        else
            f["kind"] = "function";
        if (auto const* fpt = fd->getType()->getAs<FunctionProtoType>())
        {
            f["noexcept"] = fpt->isNothrow();
            f["ret"] = typeStr(fpt->getReturnType(), ctx);
        }
        if (fd->isNoReturn()) f["noreturn"] = true;
        json::Array params;
        for (auto const* p : fd->parameters())
        {
            json::Object po;
            po["name"] = p->getNameAsString();
            po["type"] = typeStr(p->getType(), ctx);
            po["rec"] = recOfType(p->getType());
            params.push_back(std::move(po));
        }
        f["params"] = std::move(params);

        // friend-injected tag_invoke overloads: record the tag type (first parameter)
        if (fd->getNumParams() > 0) f["p0rec"] = recOfType(fd->getParamDecl(0)->getType());

        // lambdas: assign ids first so trees can refer to them
        BodyScan scan;
        scan.TraverseStmt(body);
        if (auto const* cd = dyn_cast<CXXConstructorDecl>(fd))
            for (auto const* ini : cd->inits())
                if (ini->getInit()) scan.TraverseStmt(ini->getInit());
        for (auto const* le : scan.lambdas)
        {
            CXXMethodDecl const* op = le->getCallOperator();
            if (!op || !op->doesThisDeclarationHaveABody()) continue;
            if (lambdaIds.count(le)) continue;
            int id = nextFn;
            lambdaIds[le] = id;
            std::string lq = job.qname + "::(lambda@" +
                std::to_string(sm.getExpansionLineNumber(le->getBeginLoc())) + ")";
            enqueue(op, job.id, lq);
        }
        std::map<Expr const*, VarDecl const*> ctorVar;
        for (auto& kv : scan.initOf)
        {
            Expr const* e = stripToCtor(kv.first);
            if (e) ctorVar[e] = kv.second;
        }

        // mem-initialisers
        if (auto const* cd = dyn_cast<CXXConstructorDecl>(fd))
        {
            json::Array inits;
            for (auto const* ini : cd->inits())
            {
                json::Object io;
                if (ini->isAnyMemberInitializer()) io["field"] = ini->getAnyMember()->getNameAsString();
                else if (ini->isBaseInitializer())
                    io["base"] = typeStr(QualType(ini->getBaseClass(), 0), ctx);
                else if (ini->isDelegatingInitializer()) io["delegating"] = true;
                io["written"] = ini->isWritten();
                io["init"] = tree(ini->getInit());
                inits.push_back(std::move(io));
            }
            f["inits"] = std::move(inits);
            f["defaulted"] = cd->isDefaulted();
        }

        CFG::BuildOptions bo;
        // clang 14's CFG builder dereferences a null record layout when it adds member/base destructors
        // for the destructor of a *dependent* class: build that one CFG without implicit destructors
        bool depDtor = isa<CXXDestructorDecl>(fd) && fd->isDependentContext();
        bo.AddImplicitDtors = !depDtor;
        bo.AddTemporaryDtors = !depDtor;
        bo.AddInitializers = true;
        bo.AddEHEdges = false;
        bo.AddCXXNewAllocator = false;
        bo.AddCXXDefaultInitExprInCtors = true;
        bo.setAllAlwaysAdd();
        if (getenv("PIKAFACTS_TRACE")) llvm::errs() << "cfg: " << job.qname << " @" << locStr(fd->getLocation()) << "\n";
        std::unique_ptr<CFG> cfg = CFG::buildCFG(fd, body, &ctx, bo);
        if (!cfg)
        {
            f["cfg_error"] = true;
            functions.push_back(std::move(f));
            return;
        }
        ParentMap pm(body);
        f["entry"] = (int64_t) cfg->getEntry().getBlockID();
        f["exit"] = (int64_t) cfg->getExit().getBlockID();

        // try regions: number the CXXTryStmts
        std::map<CXXTryStmt const*, int> tryIds;
        json::Array tries;
        for (auto it = cfg->try_blocks_begin(); it != cfg->try_blocks_end(); ++it)
        {
            CFGBlock const* tb = *it;
            auto const* ts = dyn_cast_or_null<CXXTryStmt>(tb->getTerminatorStmt());
            if (!ts) continue;
            int tid = (int) tryIds.size();
            tryIds[ts] = tid;
            json::Object to;
            to["id"] = tid;
            to["dispatch"] = (int64_t) tb->getBlockID();
            to["loc"] = locStr(ts->getBeginLoc());
            json::Array hs;
            for (auto s = tb->succ_begin(); s != tb->succ_end(); ++s)
            {
                CFGBlock const* sb = s->getReachableBlock();
                if (!sb) sb = s->getPossiblyUnreachableBlock();
                if (!sb) continue;
                json::Object ho;
                ho["block"] = (int64_t) sb->getBlockID();
                if (auto const* cs = dyn_cast_or_null<CXXCatchStmt>(sb->getLabel()))
                {
                    ho["catch_all"] = cs->getExceptionDecl() == nullptr;
                    if (cs->getExceptionDecl())
                    {
                        ho["type"] = typeStr(cs->getCaughtType(), ctx);
                        ho["var"] = cs->getExceptionDecl()->getNameAsString();
                    }
                }
                hs.push_back(std::move(ho));
            }
            to["handlers"] = std::move(hs);
            tries.push_back(std::move(to));
        }
        f["tries"] = std::move(tries);

        auto enclosingTry = [&](Stmt const* s) -> int {
            // innermost CXXTryStmt whose *try block* contains s
            Stmt const* cur = s;
            while (cur)
            {
                Stmt const* par = pm.getParent(cur);
                if (!par) break;
                if (auto const* ts = dyn_cast<CXXTryStmt>(par))
                {
                    if (ts->getTryBlock() == cur)
                    {
                        auto it = tryIds.find(ts);
                        if (it != tryIds.end()) return it->second;
                    }
                }
                cur = par;
            }
            return -1;
        };

        auto isWriteTarget = [&](Expr const* e) -> bool {
            // is e (ignoring parens/implicit casts) the operand written by its parent?
            Stmt const* cur = e;
            for (;;)
            {
                Stmt const* par = pm.getParent(cur);
                if (!par) return false;
                if (isa<ParenExpr>(par) || isa<ImplicitCastExpr>(par))
                {
                    cur = par;
                    continue;
                }
                if (auto const* bo = dyn_cast<BinaryOperator>(par))
                    return bo->isAssignmentOp() && bo->getLHS()->IgnoreParenImpCasts() == e;
                if (auto const* uo = dyn_cast<UnaryOperator>(par)) return uo->isIncrementDecrementOp();
                return false;
            }
        };
        auto isBaseOfMember = [&](Expr const* e) -> bool {
            Stmt const* cur = e;
            for (;;)
            {
                Stmt const* par = pm.getParent(cur);
                if (!par) return false;
                if (isa<ParenExpr>(par) || isa<ImplicitCastExpr>(par))
                {
                    cur = par;
                    continue;
                }
                if (auto const* me = dyn_cast<MemberExpr>(par))
                    return isa<FieldDecl>(me->getMemberDecl());
                if (auto const* me = dyn_cast<CXXDependentScopeMemberExpr>(par))
                {
                    // the dependent member could be a method; its parent tells
                    Stmt const* pp = pm.getParent(par);
                    if (auto const* c = dyn_cast_or_null<CallExpr>(pp))
                        if (c->getCallee()->IgnoreParenImpCasts() == me) return false;
                    return true;
                }
                return false;
            }
        };
        auto isCallee = [&](Expr const* e) -> bool {
            Stmt const* cur = e;
            for (;;)
            {
                Stmt const* par = pm.getParent(cur);
                if (!par) return false;
                if (isa<ParenExpr>(par) || isa<ImplicitCastExpr>(par))
                {
                    cur = par;
                    continue;
                }
                if (auto const* c = dyn_cast<CallExpr>(par))
                    return c->getCallee() && c->getCallee()->IgnoreParenImpCasts() == e;
                return false;
            }
        };

        json::Array blocks;
        for (CFGBlock const* b : *cfg)
        {
            json::Object bj;
            bj["id"] = (int64_t) b->getBlockID();
            json::Array evs;
            for (CFGElement const& el : *b)
            {
                json::Object ev;
                switch (el.getKind())
                {
                case CFGElement::Statement:
                case CFGElement::Constructor:
                case CFGElement::CXXRecordTypedCall:
                {
                    Stmt const* s = el.castAs<CFGStmt>().getStmt();
                    if (!s) continue;
                    int tr = -2;
                    auto settry = [&]() {
                        tr = enclosingTry(s);
                        if (tr >= 0) ev["try"] = tr;
                    };
                    if (auto const* ce = dyn_cast<CallExpr>(s))
                    {
                        std::string which;
                        if (isStdMoveLike(ce, which)) continue;
                        json::Value t = callTree(ce, 0);
                        ev = std::move(*t.getAsObject());
                        settry();
                    }
                    else if (auto const* ce = dyn_cast<CXXConstructExpr>(s))
                    {
                        ev["k"] = "ctor";
                        ev["sid"] = sid(ce);
                        ev["type"] = typeStr(ce->getType(), ctx);
                        ev["rec"] = recOfType(ce->getType());
                        ev["ctor"] = qualName(ce->getConstructor());
                        if (ce->getConstructor()->isCopyOrMoveConstructor())
                            ev["copymove"] = ce->getConstructor()->isMoveConstructor() ? "move" : "copy";
                        json::Array a;
                        for (auto const* arg : ce->arguments()) a.push_back(tree(arg, 1));
                        ev["args"] = std::move(a);
                        auto it = ctorVar.find(ce);
                        if (it != ctorVar.end()) ev["var"] = it->second->getNameAsString();
                        ev["loc"] = locStr(ce->getBeginLoc());
                        settry();
                    }
                    else if (auto const* ce = dyn_cast<CXXUnresolvedConstructExpr>(s))
                    {
                        ev["k"] = "ctor";
                        ev["sid"] = sid(ce);
                        ev["dep"] = true;
                        ev["type"] = typeStr(ce->getTypeAsWritten(), ctx);
                        ev["rec"] = recOfType(ce->getTypeAsWritten());
                        json::Array a;
                        for (auto const* arg : ce->arguments()) a.push_back(tree(arg, 1));
                        ev["args"] = std::move(a);
                        auto it = ctorVar.find(ce);
                        if (it != ctorVar.end()) ev["var"] = it->second->getNameAsString();
                        ev["loc"] = locStr(ce->getBeginLoc());
                        settry();
                    }
                    else if (auto const* ds = dyn_cast<DeclStmt>(s))
                    {
                        // one decl event per variable
                        bool first = true;
                        for (auto const* d : ds->decls())
                        {
                            auto const* vd = dyn_cast<VarDecl>(d);
                            if (!vd) continue;
                            json::Object dv;
                            dv["k"] = "decl";
                            dv["var"] = vd->getNameAsString();
                            dv["type"] = typeStr(vd->getType(), ctx);
                            dv["rec"] = recOfType(vd->getType());
                            if (vd->isStaticLocal()) dv["static"] = true;
                            if (vd->getInit())
                            {
                                dv["init"] = tree(vd->getInit(), 1);
                                Expr const* ie = stripToCtor(vd->getInit());
                                if (ie && (isa<CXXConstructExpr>(ie) || isa<CXXUnresolvedConstructExpr>(ie)))
                                    dv["ctor_sid"] = sid(ie);
                                if (auto const* pl = dyn_cast_or_null<ParenListExpr>(ie))
                                    dv["paren_init"] = true;
                            }
                            dv["loc"] = locStr(vd->getLocation());
                            int t2 = enclosingTry(s);
                            if (t2 >= 0) dv["try"] = t2;
                            if (first) first = false;
                            evs.push_back(std::move(dv));
                        }
                        continue;
                    }
                    else if (auto const* bo2 = dyn_cast<BinaryOperator>(s))
                    {
                        if (!bo2->isAssignmentOp()) continue;
                        ev["k"] = "write";
                        ev["op"] = bo2->getOpcodeStr().str();
                        ev["lhs"] = tree(bo2->getLHS(), 1);
                        ev["rhs"] = tree(bo2->getRHS(), 1);
                        ev["loc"] = locStr(bo2->getOperatorLoc());
                        settry();
                    }
                    else if (auto const* uo = dyn_cast<UnaryOperator>(s))
                    {
                        if (!uo->isIncrementDecrementOp()) continue;
                        ev["k"] = "write";
                        ev["op"] = UnaryOperator::getOpcodeStr(uo->getOpcode()).str();
                        ev["lhs"] = tree(uo->getSubExpr(), 1);
                        ev["loc"] = locStr(uo->getOperatorLoc());
                        settry();
                    }
                    else if (auto const* me = dyn_cast<MemberExpr>(s))
                    {
                        if (!isa<FieldDecl>(me->getMemberDecl())) continue;
                        if (isBaseOfMember(me)) continue;
                        ev["k"] = "read";
                        if (isWriteTarget(me)) ev["written"] = true;
                        ev["e"] = tree(me, 1);
                        ev["loc"] = locStr(me->getMemberLoc());
                    }
                    else if (auto const* me = dyn_cast<CXXDependentScopeMemberExpr>(s))
                    {
                        if (isCallee(me)) continue;
                        if (isBaseOfMember(me)) continue;
                        ev["k"] = "read";
                        ev["dep"] = true;
                        if (isWriteTarget(me)) ev["written"] = true;
                        ev["e"] = tree(me, 1);
                        ev["loc"] = locStr(me->getMemberLoc());
                    }
                    else if (auto const* rs = dyn_cast<ReturnStmt>(s))
                    {
                        ev["k"] = "return";
                        if (rs->getRetValue()) ev["e"] = tree(rs->getRetValue(), 1);
                        ev["loc"] = locStr(rs->getReturnLoc());
                        settry();
                    }
                    else if (auto const* te = dyn_cast<CXXThrowExpr>(s))
                    {
                        ev["k"] = "throw";
                        if (te->getSubExpr()) ev["e"] = tree(te->getSubExpr(), 1);
                        ev["loc"] = locStr(te->getThrowLoc());
                        settry();
                    }
                    else if (auto const* le = dyn_cast<LambdaExpr>(s))
                    {
                        ev["k"] = "lambda";
                        auto it = lambdaIds.find(le);
                        ev["id"] = it == lambdaIds.end() ? -1 : it->second;
                        ev["loc"] = locStr(le->getBeginLoc());
                    }
                    else if (auto const* ne = dyn_cast<CXXNewExpr>(s))
                    {
                        json::Value t = tree(ne, 0);
                        ev = std::move(*t.getAsObject());
                        ev["loc"] = locStr(ne->getBeginLoc());
                        settry();
                    }
                    else if (auto const* de = dyn_cast<CXXDeleteExpr>(s))
                    {
                        json::Value t = tree(de, 0);
                        ev = std::move(*t.getAsObject());
                        ev["loc"] = locStr(de->getBeginLoc());
                        settry();
                    }
                    else if (auto const* ec = dyn_cast<ExplicitCastExpr>(s))
                    {
                        QualType to = ec->getTypeAsWritten(), from = ec->getSubExpr()->getType();
                        if (to->isDependentType() || from->isDependentType()) continue;
                        if (!to->isIntegerType() || !from->isIntegerType()) continue;
                        ev["k"] = "cast";
                        ev["to"] = typeStr(to, ctx);
                        ev["from"] = typeStr(from, ctx);
                        ev["wf"] = (int64_t) ctx.getTypeSize(from);
                        ev["wt"] = (int64_t) ctx.getTypeSize(to);
                        ev["e"] = tree(ec->getSubExpr(), 1);
                        ev["loc"] = locStr(ec->getBeginLoc());
                    }
                    else if (auto const* ic = dyn_cast<ImplicitCastExpr>(s))
                    {
                        if (ic->getCastKind() != CK_IntegralCast) continue;
                        QualType to = ic->getType(), from = ic->getSubExpr()->getType();
                        if (to->isDependentType() || from->isDependentType()) continue;
                        if (!to->isIntegerType() || !from->isIntegerType()) continue;
                        uint64_t wf = ctx.getTypeSize(from), wt = ctx.getTypeSize(to);
                        if (wt >= wf) continue;
                        // constant that fits is harmless
                        Expr::EvalResult r;
                        if (!ic->getSubExpr()->isValueDependent() &&
                            ic->getSubExpr()->EvaluateAsInt(r, ctx, Expr::SE_NoSideEffects))
                            continue;
                        ev["k"] = "cast";
                        ev["implicit"] = true;
                        ev["to"] = typeStr(to, ctx);
                        ev["from"] = typeStr(from, ctx);
                        ev["wf"] = (int64_t) wf;
                        ev["wt"] = (int64_t) wt;
                        ev["e"] = tree(ic->getSubExpr(), 1);
                        ev["loc"] = locStr(ic->getBeginLoc());
                    }
                    else
                        continue;
                    break;
                }
                case CFGElement::Initializer:
                {
                    CXXCtorInitializer const* ini = el.castAs<CFGInitializer>().getInitializer();
                    ev["k"] = "init";
                    if (ini->isAnyMemberInitializer())
                    {
                        ev["field"] = ini->getAnyMember()->getNameAsString();
                        ev["ftype"] = typeStr(ini->getAnyMember()->getType(), ctx);
                    }
                    else if (ini->isBaseInitializer())
                        ev["base"] = typeStr(QualType(ini->getBaseClass(), 0), ctx);
                    ev["written"] = ini->isWritten();
                    ev["init"] = tree(ini->getInit(), 1);
                    ev["loc"] = locStr(ini->getSourceLocation());
                    break;
                }
                case CFGElement::AutomaticObjectDtor:
                {
                    auto d = el.castAs<CFGAutomaticObjDtor>();
                    VarDecl const* vd = d.getVarDecl();
                    ev["k"] = "dtor";
                    ev["implicit"] = true;
                    ev["var"] = vd->getNameAsString();
                    ev["type"] = typeStr(vd->getType(), ctx);
                    ev["rec"] = recOfType(vd->getType());
                    if (d.getTriggerStmt()) ev["loc"] = locStr(d.getTriggerStmt()->getEndLoc());
                    break;
                }
                case CFGElement::TemporaryDtor:
                {
                    auto d = el.castAs<CFGTemporaryDtor>();
                    CXXBindTemporaryExpr const* bt = d.getBindTemporaryExpr();
                    ev["k"] = "dtor";
                    ev["implicit"] = true;
                    ev["temp"] = true;
                    ev["type"] = typeStr(bt->getType(), ctx);
                    ev["rec"] = recOfType(bt->getType());
                    Expr const* se = stripToCtor(bt->getSubExpr());
                    if (se) ev["of_sid"] = sid(se);
                    ev["loc"] = locStr(bt->getEndLoc());
                    break;
                }
                case CFGElement::MemberDtor:
                {
                    auto d = el.castAs<CFGMemberDtor>();
                    ev["k"] = "dtor";
                    ev["implicit"] = true;
                    ev["member"] = d.getFieldDecl()->getNameAsString();
                    ev["type"] = typeStr(d.getFieldDecl()->getType(), ctx);
                    ev["rec"] = recOfType(d.getFieldDecl()->getType());
                    break;
                }
                case CFGElement::BaseDtor:
                {
                    auto d = el.castAs<CFGBaseDtor>();
                    ev["k"] = "dtor";
                    ev["implicit"] = true;
                    ev["base"] = typeStr(d.getBaseSpecifier()->getType(), ctx);
                    break;
                }
                case CFGElement::DeleteDtor:
                {
                    continue;
                }
                default:
                    continue;
                }
                evs.push_back(std::move(ev));
            }
            bj["events"] = std::move(evs);

            // terminator and successors
            json::Object term;
            Stmt const* ts = b->getTerminatorStmt();
            if (ts)
            {
                term["stmt"] = ts->getStmtClassName();
                term["loc"] = locStr(ts->getBeginLoc());
                if (auto const* is = dyn_cast<IfStmt>(ts))
                    if (is->isConstexpr()) term["constexpr"] = true;
            }
            if (b->getTerminator().isTemporaryDtorsBranch()) term["tempdtor"] = true;
            if (Expr const* lc = const_cast<CFGBlock*>(b)->getLastCondition())
            {
                term["cond"] = tree(lc, 1);
            }
            else if (Stmt const* tc = const_cast<CFGBlock*>(b)->getTerminatorCondition())
            {
                if (auto const* te = dyn_cast<Expr>(tc)) term["cond"] = tree(te, 1);
                else if (auto const* dsx = dyn_cast<DeclStmt>(tc))
                {
                    if (auto const* vd = dyn_cast_or_null<VarDecl>(dsx->getSingleDecl()))
                    {
                        json::Object vo;
                        vo["k"] = "var";
                        vo["name"] = vd->getNameAsString();
                        term["cond"] = std::move(vo);
                    }
                }
            }
            json::Array succ;
            unsigned idx = 0;
            bool isSwitch = ts && isa<SwitchStmt>(ts);
            bool twoWay = b->succ_size() == 2 && !isSwitch && !(ts && isa<CXXTryStmt>(ts));
            for (auto s = b->succ_begin(); s != b->succ_end(); ++s, ++idx)
            {
                json::Object so;
                CFGBlock const* sb = s->getReachableBlock();
                bool unreachable = false;
                if (!sb)
                {
                    sb = s->getPossiblyUnreachableBlock();
                    unreachable = true;
                }
                if (!sb)
                {
                    so["block"] = -1;
                    so["label"] = twoWay ? (idx == 0 ? "true" : "false") : "none";
                    succ.push_back(std::move(so));
                    continue;
                }
                so["block"] = (int64_t) sb->getBlockID();
                if (unreachable) so["unreachable"] = true;
                if (twoWay) so["label"] = idx == 0 ? "true" : "false";
                else if (isSwitch)
                {
                    Stmt const* lab = sb->getLabel();
                    if (auto const* cs = dyn_cast_or_null<CaseStmt>(lab))
                    {
                        so["label"] = "case";
                        so["case"] = tree(cs->getLHS(), 1);
                    }
                    else if (lab && isa<DefaultStmt>(lab))
                        so["label"] = "default";
                    else
                        so["label"] = "default_implicit";
                }
                else
                    so["label"] = "next";
                succ.push_back(std::move(so));
            }
            term["succ"] = std::move(succ);
            if (b->hasNoReturnElement()) term["noreturn"] = true;
            bj["term"] = std::move(term);
            if (Stmt const* lab = b->getLabel())
            {
                bj["label"] = lab->getStmtClassName();
            }
            if (Stmt const* lt = b->getLoopTarget()) bj["loop_target"] = locStr(lt->getBeginLoc());
            blocks.push_back(std::move(bj));
        }
        f["blocks"] = std::move(blocks);
        functions.push_back(std::move(f));
    }

    // ---------------------------------------------------------------- records
    std::string smKind(CXXMethodDecl const* m)
    {
        if (!m) return "none";
        if (m->isDeleted()) return "deleted";
        if (m->isDefaulted() && !m->isUserProvided()) return m->isImplicit() ? "implicit" : "defaulted";
        return "user";
    }

    void emitRecord(CXXRecordDecl const* rd)
    {
        if (!rd->isCompleteDefinition()) return;
        std::string full = typeStr(ctx.getRecordType(rd), ctx);
        if (records.get(full)) return;
        json::Object r;
        r["qname"] = qualName(rd);
        r["loc"] = locStr(rd->getLocation());
        r["dependent"] = rd->isDependentContext();
        json::Array fields;
        for (auto const* fdl : rd->fields())
        {
            json::Object fo;
            fo["name"] = fdl->getNameAsString();
            fo["type"] = typeStr(fdl->getType(), ctx);
            fo["rec"] = recOfType(fdl->getType());
            if (fdl->hasInClassInitializer() && fdl->getInClassInitializer())
                fo["init"] = tree(fdl->getInClassInitializer(), 1);
            if (fdl->isMutable()) fo["mutable"] = true;
            fields.push_back(std::move(fo));
        }
        r["fields"] = std::move(fields);
        json::Array bases;
        for (auto const& bs : rd->bases()) bases.push_back(typeStr(bs.getType(), ctx));
        r["bases"] = std::move(bases);
        json::Object consts;
        for (auto const* d : rd->decls())
        {
            if (auto const* vd = dyn_cast<VarDecl>(d))
            {
                if (!vd->isStaticDataMember()) continue;
                VarDecl const* def = vd;
                Expr const* init = vd->getAnyInitializer(def);
                if (!init || init->isValueDependent()) continue;
                if (!vd->getType()->isIntegralOrEnumerationType()) continue;
                if (auto const* v = def->evaluateValue())
                    if (v->isInt()) consts[vd->getNameAsString()] = intVal(v->getInt());
            }
        }
        r["consts"] = std::move(consts);
        json::Object sp;
        if (!rd->isDependentContext())
        {
            auto find = [&](auto pred) -> CXXMethodDecl const* {
                for (auto const* m : rd->methods())
                    if (pred(m)) return m;
                return nullptr;
            };
            CXXMethodDecl const* cc = nullptr;
            CXXMethodDecl const* mc = nullptr;
            CXXMethodDecl const* dc = nullptr;
            for (auto const* c : rd->ctors())
            {
                if (c->isCopyConstructor()) cc = c;
                else if (c->isMoveConstructor()) mc = c;
                else if (c->isDefaultConstructor()) dc = c;
            }
            sp["default_ctor"] = smKind(dc);
            sp["copy_ctor"] = smKind(cc);
            sp["move_ctor"] = smKind(mc);
            sp["copy_assign"] = smKind(find([](CXXMethodDecl const* m) { return m->isCopyAssignmentOperator(); }));
            sp["move_assign"] = smKind(find([](CXXMethodDecl const* m) { return m->isMoveAssignmentOperator(); }));
            sp["dtor"] = smKind(rd->getDestructor());
            sp["has_implicit_copy_ctor"] = rd->needsImplicitCopyConstructor();
            sp["has_implicit_move_ctor"] = rd->needsImplicitMoveConstructor();
            sp["has_implicit_copy_assign"] = rd->needsImplicitCopyAssignment();
            sp["has_implicit_move_assign"] = rd->needsImplicitMoveAssignment();
        }
        r["special"] = std::move(sp);
        json::Array methods;
        for (auto const* m : rd->methods())
        {
            if (m->isImplicit()) continue;
            json::Object mo;
            mo["name"] = m->getNameAsString();
            mo["loc"] = locStr(m->getLocation());
            mo["kind"] = smKind(m);
            if (m->isNoReturn()) mo["noreturn"] = true;
            if (m->getRefQualifier() == RQ_RValue) mo["refq"] = "&&";
            else if (m->getRefQualifier() == RQ_LValue) mo["refq"] = "&";
            if (auto const* fpt = m->getType()->getAs<FunctionProtoType>())
                mo["noexcept"] = fpt->isNothrow();
            mo["virtual"] = m->isVirtual();
            methods.push_back(std::move(mo));
        }
        r["methods"] = std::move(methods);
        records[full] = std::move(r);
    }

    // ---------------------------------------------------------------- traversal
    struct TopVisitor : RecursiveASTVisitor<TopVisitor>
    {
        Extractor& x;
        TopVisitor(Extractor& e)
          : x(e)
        {
        }
        bool shouldVisitTemplateInstantiations() const { return true; }
        bool shouldVisitImplicitCode() const { return false; }
        bool VisitFunctionDecl(FunctionDecl* fd)
        {
            if (!fd->doesThisDeclarationHaveABody()) return true;
            if (auto const* md = dyn_cast<CXXMethodDecl>(fd))
                if (md->getParent()->isLambda()) return true;    // reached through the parent
            std::string qn = qualName(fd);
            if (!g_opt.namesOut.empty() && x.inRoots(fd->getLocation())) x.allNames.insert(qn);
            if (x.selected(fd, qn)) x.enqueue(fd, -1, qn);
            return true;
        }
        bool VisitCXXRecordDecl(CXXRecordDecl* rd)
        {
            if (!rd->isCompleteDefinition() || rd->isLambda()) return true;
            if (!x.inRoots(rd->getLocation())) return true;
            if (x.recRe.empty()) return true;
            if (x.matches(x.recRe, qualName(rd))) x.emitRecord(rd);
            return true;
        }
        bool VisitEnumDecl(EnumDecl* ed)
        {
            if (!ed->isCompleteDefinition()) return true;
            if (!x.inRoots(ed->getLocation())) return true;
            json::Object eo;
            for (auto const* ec : ed->enumerators()) eo[ec->getNameAsString()] = x.intVal(ec->getInitVal());
            x.enums[qualName(ed)] = std::move(eo);
            return true;
        }
        bool VisitFileScopeAsmDecl(FileScopeAsmDecl* ad)
        {
            json::Object ao;
            ao["loc"] = x.locStr(ad->getAsmLoc());
            ao["text"] = ad->getAsmString()->getString().str();
            x.asms.push_back(std::move(ao));
            return true;
        }
        bool VisitVarDecl(VarDecl* vd)
        {
            // namespace-scope / static-member constants with integral values
            if (vd->isLocalVarDeclOrParm()) return true;
            if (!x.inRoots(vd->getLocation())) return true;
            if (!vd->getType()->isIntegralOrEnumerationType()) return true;
            if (vd->getType()->isDependentType()) return true;
            VarDecl const* def = vd;
            Expr const* init = vd->getAnyInitializer(def);
            if (!init || init->isValueDependent()) return true;
            if (!vd->getType().isConstQualified() && !vd->isConstexpr()) return true;
            if (auto const* v = def->evaluateValue())
                if (v->isInt()) x.globals[qualName(vd)] = x.intVal(v->getInt());
            return true;
        }
    };

    void run()
    {
        TopVisitor v(*this);
        v.TraverseDecl(ctx.getTranslationUnitDecl());
        while (!queue.empty())
        {
            FnJob j = queue.front();
            queue.pop_front();
            emitFunction(j);
        }
        if (!g_opt.namesOut.empty())
        {
            std::error_code ec2;
            llvm::raw_fd_ostream ns(g_opt.namesOut, ec2);
            if (!ec2)
                for (auto& n : allNames) ns << n << "\n";
        }
        json::Object root;
        root["tu"] = sm.getFileEntryForID(sm.getMainFileID())->getName().str();
        json::Array deps;
        std::set<std::string> ds;
        for (auto it = sm.fileinfo_begin(); it != sm.fileinfo_end(); ++it)
        {
            std::string n = it->first->getName().str();
            for (auto& r : g_opt.roots)
                if (n.compare(0, r.size(), r) == 0) ds.insert(n);
        }
        for (auto& d : ds) deps.push_back(d);
        root["deps"] = std::move(deps);
        root["functions"] = std::move(functions);
        root["records"] = std::move(records);
        root["enums"] = std::move(enums);
        root["asm"] = std::move(asms);
        root["globals"] = std::move(globals);
        std::error_code ec;
        llvm::raw_fd_ostream os(g_opt.out, ec);
        if (ec)
        {
            llvm::errs() << "cannot write " << g_opt.out << ": " << ec.message() << "\n";
            return;
        }
        os << json::Value(std::move(root));
        os << "\n";
    }
};

class Consumer : public ASTConsumer
{
public:
    void HandleTranslationUnit(ASTContext& ctx) override
    {
        if (ctx.getDiagnostics().hasErrorOccurred())
        {
            llvm::errs() << "pikafacts: translation unit has errors\n";
        }
        Extractor x(ctx);
        x.run();
    }
};

class Action : public ASTFrontendAction
{
public:
    std::unique_ptr<ASTConsumer> CreateASTConsumer(CompilerInstance&, llvm::StringRef) override
    {
        return std::make_unique<Consumer>();
    }
};

}    // namespace

int main(int argc, char** argv)
{
    std::vector<std::string> flags;
    std::string tu;
    std::vector<std::pair<std::string, std::string>> overlays;
    int i = 1;
    for (; i < argc; ++i)
    {
        std::string a = argv[i];
        if (a == "--") { ++i; break; }
        if (a == "--out" && i + 1 < argc) g_opt.out = argv[++i];
        else if (a == "--root" && i + 1 < argc) g_opt.roots.push_back(argv[++i]);
        else if (a == "--sel" && i + 1 < argc) g_opt.sels.push_back(argv[++i]);
        else if (a == "--rec" && i + 1 < argc) g_opt.recs.push_back(argv[++i]);
        else if (a == "--calls" && i + 1 < argc) g_opt.calls.push_back(argv[++i]);
        else if (a == "--known" && i + 1 < argc) g_opt.knownFile = argv[++i];
        else if (a == "--names-out" && i + 1 < argc) g_opt.namesOut = argv[++i];
        else if (a == "--overlay" && i + 1 < argc)
        {
            std::string o = argv[++i];
            auto p = o.find('=');
            if (p == std::string::npos) { llvm::errs() << "bad --overlay\n"; return 2; }
            overlays.emplace_back(o.substr(0, p), o.substr(p + 1));
        }
        else tu = a;
    }
    for (; i < argc; ++i) flags.push_back(argv[i]);
    if (tu.empty() || g_opt.out.empty())
    {
        llvm::errs() << "usage: pikafacts --out F [--root D] [--sel RE] [--rec RE] TU -- flags\n";
        return 2;
    }
    if (g_opt.roots.empty()) g_opt.roots.push_back("/repo/");
    if (!g_opt.knownFile.empty())
    {
        std::ifstream kf(g_opt.knownFile);
        std::string line;
        while (std::getline(kf, line))
            if (!line.empty()) g_opt.known.insert(line);
    }
    clang::tooling::FixedCompilationDatabase db(".", flags);
    clang::tooling::ClangTool tool(db, {tu});
    std::vector<std::unique_ptr<llvm::MemoryBuffer>> keep;
    std::vector<std::string> keepPaths;
    keepPaths.reserve(overlays.size());
    for (auto& ov : overlays)
    {
        auto buf = llvm::MemoryBuffer::getFile(ov.second);
        if (!buf) { llvm::errs() << "cannot read overlay " << ov.second << "\n"; return 2; }
        keep.push_back(std::move(*buf));
        keepPaths.push_back(ov.first);
        tool.mapVirtualFile(keepPaths.back(), keep.back()->getBuffer());
    }
    int rc = tool.run(clang::tooling::newFrontendActionFactory<Action>().get());
    return rc == 0 ? 0 : 3;
}
