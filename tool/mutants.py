#!/usr/bin/env python3
# Self-validation of the checker (developer command, not a registered check): applies each seeded
# one-instance-broken variant from mutants/corpus.json to /repo (working tree), runs the property
# check, expects exit 1 naming the expected rule, and restores the file.  Negative controls
# (expect = null) must leave the check silent.
import json, os, subprocess, sys, re
V = os.path.dirname(os.path.dirname(os.path.abspath(__file__)))
REPO = "/repo"
corpus = json.load(open(os.path.join(V, "mutants", "corpus.json")))
only = sys.argv[1:]
ok = bad = 0
for m in corpus:
    if only and not any(m["id"].startswith(o) or m["property"] == o for o in only):
        continue
    path = os.path.join(REPO, "libs/pika", m["file"]) if not m["file"].startswith("/") else m["file"]
    src = open(path).read()
    if src.count(m["before"]) < 1:
        print("SKIP %s: snippet not found in %s" % (m["id"], m["file"])); bad += 1; continue
    idx = m.get("occurrence", 0)
    pos = -1
    for _ in range(idx + 1):
        pos = src.find(m["before"], pos + 1)
    new = src[:pos] + m["after"] + src[pos + len(m["before"]):]
    try:
        open(path, "w").write(new)
        p = subprocess.run([os.path.join(V, "check"), m["property"], "--no-evidence"], capture_output=True, text=True, cwd=V)
    finally:
        open(path, "w").write(src)
    out = p.stdout + p.stderr
    exp = m.get("expect")
    if exp is None:
        good = p.returncode == 0
    else:
        good = p.returncode == 1 and re.search(r"rule " + re.escape(exp) + r"\b", out) is not None
    print("%s %-6s %-4s rc=%d expect=%s %s" % ("ok  " if good else "MISS", m["id"], m["property"], p.returncode, exp, m.get("what", "")))
    if not good:
        bad += 1
        print("    " + "\n    ".join(out.strip().splitlines()[-6:]))
    else:
        ok += 1
print("%d ok, %d missed/skipped" % (ok, bad))
sys.exit(1 if bad else 0)
