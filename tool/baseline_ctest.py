#!/usr/bin/env python3
# Run the repository's pinned test suite (ctest in /repo/_build) and compare the set of passing tests
# with the baseline's stable_pass list.  Exit 0 iff every baseline test passes.
import json, re, subprocess, sys, tempfile, os
import xml.etree.ElementTree as ET
base = json.load(open("/root/.vp/BASELINE.json"))
want = set(n.split("::")[-1] for n in base["stable_pass"])
with tempfile.TemporaryDirectory() as d:
    j = os.path.join(d, "r.xml")
    subprocess.run(["ctest", "--test-dir", "/repo/_build", "-j16", "--timeout", "900", "--output-junit", j],
                   stdout=subprocess.DEVNULL, stderr=subprocess.DEVNULL)
    root = ET.parse(j).getroot()
    passed = set()
    for tc in root.iter("testcase"):
        if tc.get("status") == "run" and tc.find("failure") is None and tc.find("skipped") is None:
            passed.add(tc.get("name"))
missing = sorted(want - passed)
print("baseline tests: %d, passing now: %d, baseline tests not passing: %d" % (len(want), len(want & passed), len(missing)))
for m in missing[:20]:
    print("  NOT PASSING: " + m)
sys.exit(1 if missing else 0)
