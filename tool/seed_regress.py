#!/usr/bin/env python3
# Regression over the stored sub-agent changes: apply each /verif/seeded/*/patch.diff to /repo, run the check of the
# property it was written against, expect exit 1 with a VIOLATION line, undo.  Never commits anything in /repo.
import json, os, re, subprocess, sys
V = os.path.dirname(os.path.dirname(os.path.abspath(__file__)))
only = sys.argv[1:]
ok = bad = 0
st = subprocess.run("git -C /repo status --porcelain --untracked-files=no", shell=True, capture_output=True, text=True).stdout.strip()
if st:
    print("refusing: /repo has local modifications"); sys.exit(2)
for d in sorted(os.listdir(os.path.join(V, "seeded"))):
    if only and not any(d.startswith(o) for o in only):
        continue
    dd = os.path.join(V, "seeded", d)
    meta = json.load(open(os.path.join(dd, "meta.json")))
    prop = meta["property"]
    patch = os.path.join(dd, "patch.diff")
    if subprocess.run(["git", "-C", "/repo", "apply", patch]).returncode:
        print("APPLY-FAILED %s" % d); bad += 1; continue
    try:
        p = subprocess.run([os.path.join(V, "check"), prop, "--tier", "quick", "--no-evidence"], capture_output=True, text=True, cwd=V)
    finally:
        subprocess.run("git -C /repo checkout -- .", shell=True)
    rules = sorted(set(re.findall(r"rule (C\d\d\.R\w+)", p.stdout)))
    good = p.returncode == 1 and "VIOLATION property=%s" % prop in p.stdout
    print("%s %-58s %s rc=%d %s" % ("ok  " if good else "MISS", d, prop, p.returncode, ",".join(rules)))
    ok += good
    bad += (not good)
print("%d reported, %d not" % (ok, bad))
sys.exit(1 if bad else 0)
