#!/usr/bin/env python3
# developer aid: dump the event CFG of functions matching a regex from a TU
import sys, os, json
sys.path.insert(0, os.path.dirname(os.path.dirname(os.path.abspath(__file__))))
from engine import core
from engine.core import Facts, T, cond_atoms
tu, sel = sys.argv[1], sys.argv[2]
extra = sys.argv[3:]
F = Facts(core.extract(tu, [sel], [], extra))
for f in F.fns:
    print("==", f.qname, f.loc, "pattern" if f.pattern else "", f.full, "parent", f.parent, "id", f.id)
    for b in sorted(f.blocks.values(), key=lambda b: -b.id):
        c = cond_atoms(b.cond) if b.cond else None
        print(" B%d -> %s cond=%s %s" % (b.id, [(l, t) for l, t, _ in b.succ], c, "noreturn" if b.term.get("noreturn") else ""))
        for i, ev in enumerate(b.events):
            k = ev["k"]
            if k == "call": s = "call " + T(ev) + "  [" + core.callee_of(ev) + "]"
            elif k == "ctor": s = "ctor %s %s(%s)" % (ev.get("var"), ev.get("rec"), ",".join(T(a) for a in ev.get("args", [])))
            elif k == "decl": s = "decl %s : %s = %s" % (ev["var"], ev.get("rec") or ev.get("type"), T(ev.get("init")))
            elif k == "read": s = ("write-target " if ev.get("written") else "read ") + T(ev["e"])
            elif k == "write": s = "write %s %s %s" % (T(ev["lhs"]), ev["op"], T(ev.get("rhs")))
            elif k == "return": s = "return " + T(ev.get("e"))
            elif k == "dtor": s = "dtor %s %s" % (ev.get("var") or ev.get("member") or ("temp#%s" % ev.get("of_sid")), ev.get("rec"))
            else: s = k + " " + json.dumps({x: y for x, y in ev.items() if x not in ("k",)})[:150]
            print("    %d %s   @%s%s" % (i, s, ev.get("loc", "").rsplit("/", 1)[-1], " try=%s" % ev["try"] if "try" in ev else ""))
