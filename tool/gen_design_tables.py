#!/usr/bin/env python3
# regenerates the machine-derived tables of DESIGN.md (between <!-- BEGIN:x --> / <!-- END:x --> markers)
import json, os, re, sys
V = os.path.dirname(os.path.dirname(os.path.abspath(__file__)))
s = open(os.path.join(V, "DESIGN.md")).read()


def put(name, text):
    global s
    a, b = "<!-- BEGIN:%s -->" % name, "<!-- END:%s -->" % name
    if a not in s:
        return
    i, j = s.index(a) + len(a), s.index(b)
    s = s[:i] + "\n" + text.rstrip() + "\n" + s[j:]


corpus = json.load(open(os.path.join(V, "mutants", "corpus.json")))
rows = ["| id | property | file | what the variant does | rule that reports it |", "|---|---|---|---|---|"]
for m in corpus:
    rows.append("| %s | %s | %s | %s | %s |" % (m["id"], m["property"], m["file"].rsplit("/", 1)[-1], m.get("what", ""), m["expect"] or "*(negative control: must stay silent)*"))
put("mutants", "\n".join(rows))

rows = ["| property | rules (from the last evidence file) | instances evaluated | functions | TUs |", "|---|---|---|---|---|"]
for n in range(1, 21):
    pid = "C%02d" % n
    p = os.path.join(V, "evidence", pid + ".json")
    if not os.path.exists(p):
        continue
    ev = json.load(open(p))["coverage"]
    rows.append("| %s | %s | %d | %d | %d |" % (pid, "<br>".join("**%s** %s" % (k, v) for k, v in sorted(ev.get("rules", {}).items())), ev.get("obligations", 0),
                                               ev.get("functions_analysed", 0), len(ev.get("translation_units", []))))
put("rules", "\n".join(rows))

seeded = os.path.join(V, "seeded")
rows = ["| seeded change | property | what it needs to manifest | caught by | notes |", "|---|---|---|---|---|"]
if os.path.isdir(seeded):
    for d in sorted(os.listdir(seeded)):
        mp = os.path.join(seeded, d, "meta.json")
        if os.path.exists(mp):
            m = json.load(open(mp))
            rows.append("| %s | %s | %s | %s | %s |" % (d, m.get("property"), m.get("needs", ""), m.get("caught_by", ""), m.get("notes", "")))
put("seeded", "\n".join(rows))
open(os.path.join(V, "DESIGN.md"), "w").write(s)
print("tables regenerated")
