// Side observation (UNCHANGED tree): move-assigning over an unstarted readwrite sender drops its
// access without giving it a turn (the defaulted operator= does not do what ~sender does). The shared
// state of the dropped access is then owned only by its predecessor's next_state link, so the
// predecessor's destructor destroys it with next_state.reset() and afterwards calls done() on the
// dangling pointer (PIKA_ASSERT(next_state.use_count() > 1) would fire in a debug build).
//
// The mutex's shared states are allocated with a quarantining allocator: freed blocks are zeroed and
// kept, so a later write into a freed block is visible.
#include <pika/async_rw_mutex.hpp>
#include <pika/execution.hpp>

#include <cstddef>
#include <cstdio>
#include <cstring>
#include <new>
#include <optional>
#include <utility>
#include <vector>

namespace ex = pika::execution::experimental;

struct freed_block
{
    unsigned char* p;
    std::size_t n;
};
static std::vector<freed_block> quarantine;

template <typename T>
struct quarantine_allocator
{
    using value_type = T;
    quarantine_allocator() = default;
    template <typename U>
    quarantine_allocator(quarantine_allocator<U> const&) noexcept
    {
    }
    T* allocate(std::size_t n) { return static_cast<T*>(::operator new(n * sizeof(T))); }
    void deallocate(T* p, std::size_t n) noexcept
    {
        std::memset(static_cast<void*>(p), 0, n * sizeof(T));
        quarantine.push_back({reinterpret_cast<unsigned char*>(p), n * sizeof(T)});
    }
    template <typename U>
    bool operator==(quarantine_allocator<U> const&) const noexcept { return true; }
    template <typename U>
    bool operator!=(quarantine_allocator<U> const&) const noexcept { return false; }
};

int main()
{
    using mutex_type = ex::async_rw_mutex<int, int, quarantine_allocator<int>>;
    quarantine.reserve(64);
    int third_granted = 0;
    {
        mutex_type m{0};
        std::optional<mutex_type::readwrite_access_type> held;
        ex::start_detached(m.readwrite() | ex::then([&](auto w) { held.emplace(std::move(w)); }));

        auto s = m.readwrite();    // second access
        s = m.readwrite();         // third access; the second one is dropped unstarted
        ex::start_detached(std::move(s) | ex::then([&](auto) { ++third_granted; }));

        held.reset();    // release the first access
    }

    int dirty = 0;
    for (auto const& b : quarantine)
    {
        for (std::size_t i = 0; i < b.n; ++i)
        {
            if (b.p[i] != 0)
            {
                ++dirty;
                std::printf("freed block %p (%zu bytes) was written to after deallocation "
                            "(offset %zu)\n",
                    static_cast<void*>(b.p), b.n, i);
                break;
            }
        }
    }
    std::printf("third access granted %d time(s); %d freed shared-state block(s) written after "
                "free\n",
        third_granted, dirty);
    return dirty == 0 && third_granted == 1 ? 0 : 1;
}
