#include <pika/init.hpp>
#include <pika/execution.hpp>
#include <pika/runtime.hpp>
#include <pika/thread.hpp>
#include <pika/threading_base/register_thread.hpp>
#include <atomic>
#include <cstdio>
#include <exception>
#include <stdexcept>
namespace td = pika::threads::detail;
std::atomic<int> lost{0}, stale{0}, done{0};
std::atomic<bool> stop{false};
int pika_main(int, char**)
{
    td::thread_init_data a(td::make_thread_function_nullary([] {
        for (int r = 0; r < 200; ++r) {
            try { throw std::runtime_error("mine"); }
            catch (...) {
                std::size_t w = pika::get_worker_thread_num();
                for (int i = 0; i < 1000 && pika::get_worker_thread_num() == w; ++i) pika::this_thread::yield();
                if (pika::get_worker_thread_num() != w && !std::current_exception()) ++lost;
            }
        }
        stop = true; ++done;
    }), "A");
    td::register_work(a);
    for (int k = 0; k < 3; ++k) {
        td::thread_init_data b(td::make_thread_function_nullary([] {
            while (!stop) {
                if (std::current_exception()) ++stale;   // we are not inside any handler
                pika::this_thread::yield();
            }
            ++done;
        }), "B");
        td::register_work(b);
    }
    while (done != 4) pika::this_thread::yield();
    std::printf("current_exception() empty inside the handler after migration: %d; non-empty in unrelated tasks: %d\n", lost.load(), stale.load());
    pika::finalize();
    return 0;
}
int main(int argc, char** argv) { return pika::init(pika_main, argc, argv); }
