#include <pika/init.hpp>
#include <pika/execution.hpp>
#include <pika/thread.hpp>
#include <pika/threading_base/register_thread.hpp>
#include <pika/threading_base/thread_init_data.hpp>
#include <cstdio>
#include <atomic>

namespace td = pika::threads::detail;

int pika_main(int, char**)
{
    for (int round = 0; round < 3; ++round)
    {
        for (int i = 0; i < 300; ++i)
        {
            td::thread_init_data data(td::make_thread_function_nullary([] {}), "never-run",
                pika::execution::thread_priority::normal, pika::execution::thread_schedule_hint(),
                pika::execution::thread_stacksize::medium, td::thread_schedule_state::suspended, true);
            td::thread_id_ref_type id = td::register_thread(data);
            id = td::thread_id_ref_type();    // abandon
        }
        std::atomic<int> n{0};
        for (int i = 0; i < 300; ++i)
        {
            td::thread_init_data data(td::make_thread_function_nullary([&n] { ++n; }), "run",
                pika::execution::thread_priority::normal, pika::execution::thread_schedule_hint(),
                pika::execution::thread_stacksize::medium, td::thread_schedule_state::pending, true);
            td::register_thread(data);
        }
        while (n.load() < 300) pika::this_thread::yield();
        std::printf("round %d ok\n", round);
    }
    pika::finalize(); return 0;
}
int main(int argc, char** argv) { return pika::init(pika_main, argc, argv); }
