// Side observation (UNCHANGED tree): two plain OS threads. Thread T requests the
// stop and runs callback A; thread U destroys A while it is running. The
// destructor has to wait for A to return, but both threads have the same
// (invalid) pika thread id, so remove_callback takes U for the signalling thread.
#include <pika/modules/synchronization.hpp>

#include <atomic>
#include <chrono>
#include <cstdio>
#include <new>
#include <thread>

std::atomic<bool> started{false}, finished{false};
struct body
{
    void operator()() const
    {
        started = true;
        std::this_thread::sleep_for(std::chrono::milliseconds(300));
        finished = true;
    }
};
using cb_t = pika::stop_callback<body>;
alignas(cb_t) unsigned char buf[sizeof(cb_t)];

int main()
{
    pika::stop_source src;
    cb_t* cb = ::new (static_cast<void*>(buf)) cb_t(src.get_token(), body{});
    std::thread t([&] { src.request_stop(); });
    while (!started) std::this_thread::yield();
    cb->~cb_t();
    bool const finished_when_dtor_returned = finished.load();
    t.join();
    std::printf("callback had finished when ~stop_callback returned on the other OS thread: %s\n",
        finished_when_dtor_returned ? "yes (ok)" : "NO (destructor did not wait)");
    return finished_when_dtor_returned ? 0 : 1;
}
