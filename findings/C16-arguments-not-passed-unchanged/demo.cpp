// C16 "non-pika arguments reach the application unchanged": prints the argv the entry function receives.
//   demo <args...>    the parent re-executes nothing: compare the lines printed with the arguments given
#include <pika/init.hpp>
#include <cstdio>

int entry(int argc, char** argv)
{
    std::printf("entry argc=%d\n", argc);
    for (int i = 0; i < argc; ++i) std::printf("entry argv[%d]=<%s>\n", i, argv[i]);
    std::fflush(stdout);
    pika::finalize();
    return 0;
}

int main(int argc, char** argv)
{
    std::printf("main argc=%d\n", argc);
    for (int i = 0; i < argc; ++i) std::printf("main argv[%d]=<%s>\n", i, argv[i]);
    std::fflush(stdout);
    pika::init_params p;
    pika::start(entry, argc, argv, p);
    return pika::stop();
}
