// Side observations on the UNCHANGED tree (not part of the pass/fail demonstration).
// usage: SIDE_CASE=<1|2|3|4> side
#include <pika/init.hpp>
#include <pika/semaphore.hpp>
#include <pika/thread.hpp>

#include <atomic>
#include <chrono>
#include <cstdio>
#include <cstdlib>
#include <string>
#include <vector>

static int which = 1;

// this_thread::sleep_for is not available in this configuration (no timed suspension)
static void nap(std::chrono::milliseconds d)
{
    auto const end = std::chrono::steady_clock::now() + d;
    while (std::chrono::steady_clock::now() < end) pika::this_thread::yield();
}


// 1: interrupt(false) ("withdraw the request") aborts the wait of a blocked thread
static int case1()
{
    pika::counting_semaphore<> sem(0);
    std::atomic<int> result{0};
    pika::thread t([&] {
        try
        {
            sem.acquire();
            result = 1;    // normal
        }
        catch (pika::thread_interrupted const&)
        {
            result = 2;
            throw;
        }
        catch (pika::exception const& e)
        {
            std::printf("  worker: acquire() threw pika::exception: %s\n", e.what());
            result = 3;
        }
    });
    nap(std::chrono::milliseconds(50));
    t.interrupt(false);    // no interruption requested
    nap(std::chrono::milliseconds(50));
    sem.release();
    t.join();
    std::printf("case 1: result=%d (1 = acquire returned normally, 3 = wait aborted with an "
                "exception although no interruption was requested)\n",
        result.load());
    return result == 1 ? 0 : 1;
}

// 2: a thread that is running when interrupt() is called, then disables interruption and blocks
static int case2()
{
    pika::counting_semaphore<> sem(0);
    std::atomic<int> result{0};
    pika::thread t([&] {
        while (!pika::this_thread::interruption_requested()) {}    // running, interruption enabled
        pika::this_thread::disable_interruption di;
        try
        {
            sem.acquire();
            result = 1;
        }
        catch (pika::thread_interrupted const&)
        {
            result = 2;
        }
        catch (pika::exception const& e)
        {
            std::printf("  worker: acquire() inside disable_interruption threw: %s\n", e.what());
            result = 3;
        }
    });
    nap(std::chrono::milliseconds(20));
    t.interrupt();
    nap(std::chrono::milliseconds(50));
    sem.release();
    t.join();
    std::printf("case 2: result=%d (1 = waited undisturbed, 3 = the wait inside the "
                "disable_interruption scope was aborted)\n",
        result.load());
    return result == 1 ? 0 : 1;
}

// 3: a joiner that is interrupted while it waits in join() leaves its wake-up callback behind
static int case3()
{
    std::atomic<bool> release_a{false};
    std::atomic<bool> release_b{false};
    pika::thread a([&] {
        while (!release_a.load()) pika::this_thread::yield();
    });

    constexpr int n = 600;
    pika::counting_semaphore<> gate(0);
    std::atomic<int> early{0};
    std::atomic<int> reused{0};
    std::vector<pika::thread> bs;
    std::vector<pika::thread> js;
    bs.reserve(n);
    js.reserve(n);
    for (int i = 0; i < n; ++i)
    {
        bs.emplace_back([&] { gate.acquire(); });
    }

    // joiner 1 waits for a, is interrupted and ends
    pika::thread j1([&] { a.join(); });
    nap(std::chrono::milliseconds(20));
    auto const j1_id = j1.native_handle();
    j1.interrupt();
    j1.join();
    // let the schedulers recycle the terminated task: enough short-lived threads to trigger the
    // clean-up of terminated ones
    for (int k = 0; k < 600; ++k)
    {
        pika::thread t([] {});
        t.join();
    }

    // new joiners, each waits for a target of its own; one of them may be given j1's recycled
    // task object
    for (int i = 0; i < n; ++i)
    {
        js.emplace_back([&, i] {
            if (pika::threads::detail::get_self_id() == j1_id) ++reused;
            bs[i].join();
            if (!release_b.load()) ++early;
        });
    }
    nap(std::chrono::milliseconds(50));
    // a ends now: runs the stale callback registered by j1
    release_a = true;
    nap(std::chrono::milliseconds(100));
    int const e = early.load();
    release_b = true;
    gate.release(n);
    for (auto& j : js) j.join();
    if (a.joinable()) a.join();
    std::printf("case 3: task object of the interrupted joiner reused: %d, a join() returned "
                "while its target was still running: %d\n",
        reused.load(), e);
    return e == 0 ? 0 : 1;
}

// 4: interrupting a thread whose interruption point is this_thread::yield()
static int case4()
{
    pika::thread t([] {
        for (;;) pika::this_thread::yield();    // declared noexcept, throws thread_interrupted
    });
    nap(std::chrono::milliseconds(5));
    t.interrupt();
    t.join();
    std::printf("case 4: interrupted thread ended, process still alive\n");
    return 0;
}

int pika_main(int, char**)
{
    int r = 0;
    if (which == 1) r = case1();
    if (which == 2) r = case2();
    if (which == 3) r = case3();
    if (which == 4) r = case4();
    std::fflush(stdout);
    pika::finalize();
    return r;
}

int main(int argc, char** argv)
{
    if (char const* c = std::getenv("SIDE_CASE")) which = std::atoi(c);
    return pika::init(pika_main, argc, argv);
}
