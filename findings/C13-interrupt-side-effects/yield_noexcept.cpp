// C13: interrupting a thread whose interruption point is this_thread::yield() / yield_to() ends the program.
//   yield_noexcept yield | yield_to
#include <pika/init.hpp>
#include <pika/thread.hpp>
#include <atomic>
#include <chrono>
#include <cstdio>
#include <cstring>
#include <thread>

static bool to = false;

int entry(int, char**)
{
    std::atomic<bool> stop{false}, running{false};
    pika::thread other([&] {
        while (!stop) pika::this_thread::yield();
    });
    pika::thread::id oid = other.get_id();
    pika::thread t([&] {
        running = true;
        for (;;)
        {
            if (to) pika::this_thread::yield_to(oid);
            else pika::this_thread::yield();
        }
    });
    while (!running) pika::this_thread::yield();
    auto until = std::chrono::steady_clock::now() + std::chrono::milliseconds(50);
    while (std::chrono::steady_clock::now() < until) pika::this_thread::yield();
    t.interrupt();
    t.join();
    stop = true;
    other.join();
    std::printf("interrupted thread ended, program continues\n");
    pika::finalize();
    return 0;
}

int main(int argc, char** argv)
{
    to = argc > 1 && std::strcmp(argv[1], "yield_to") == 0;
    return pika::init(entry, argc, argv);
}
