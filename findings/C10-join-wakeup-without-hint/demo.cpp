// Side observation (UNCHANGED tree): a task with a worker hint on a static-priority pool that calls
// pika::thread::join() on a still running pika::thread is woken up through
// threads::detail::set_thread_state(id, pending) *without* a scheduling hint, i.e. it is re-queued
// round robin and continues on another worker.
//
// exit code 0: every task continued on its hinted worker, 1: some did not

#include <pika/execution.hpp>
#include <pika/init.hpp>
#include <pika/modules/resource_partitioner.hpp>
#include <pika/runtime.hpp>
#include <pika/thread.hpp>

#include <atomic>
#include <chrono>
#include <cstddef>
#include <cstdint>
#include <cstdio>
#include <thread>

namespace ex = pika::execution::experimental;
namespace tt = pika::this_thread::experimental;

int pika_main()
{
    auto& spool = pika::resource::get_thread_pool("static");
    ex::thread_pool_scheduler const ssched{&spool};
    std::size_t const n = spool.get_os_thread_count();
    std::size_t moved = 0, total = 0;

    for (int round = 0; round != 50; ++round)
    {
        for (std::size_t w = 0; w != n; ++w)
        {
            auto const hinted = ex::with_hint(
                ssched, pika::execution::thread_schedule_hint(static_cast<std::int16_t>(w)));
            bool const same = tt::sync_wait(ex::schedule(hinted) | ex::then([&] {
                std::size_t const before = pika::get_local_worker_thread_num();
                pika::thread t([] {
                    auto const end = std::chrono::steady_clock::now() + std::chrono::microseconds(300);
                    while (std::chrono::steady_clock::now() < end) {}
                });
                t.join();
                std::size_t const after = pika::get_local_worker_thread_num();
                return before == w && after == w;
            }));
            ++total;
            if (!same) ++moved;
        }
    }
    std::printf("%zu of %zu hinted tasks continued on another worker after pika::thread::join()\n",
        moved, total);
    pika::finalize();
    return moved == 0 ? 0 : 1;
}

static void init_resource_partitioner(
    pika::resource::partitioner& rp, pika::program_options::variables_map const&)
{
    rp.create_thread_pool("static", pika::resource::scheduling_policy::static_priority);
    std::size_t count = 0;
    for (pika::resource::socket const& s : rp.sockets())
        for (pika::resource::core const& c : s.cores())
            for (pika::resource::pu const& p : c.pus())
            {
                if (count >= 2 && count < 6) { rp.add_resource(p, "static"); }
                ++count;
            }
}

int main(int argc, char* argv[])
{
    pika::init_params init_args;
    init_args.rp_callback = &init_resource_partitioner;
    init_args.cfg = {"pika.os_threads=6", "pika.bind!=none"};
    return pika::init(pika_main, argc, argv, init_args);
}
