// Side observations on the UNCHANGED tree (not part of the seeded change).
//   side_obs os    : two plain OS threads - ~stop_callback does not wait for the
//                    callback that is running on the other OS thread
//   side_obs nosrc : on a pika thread, a stop_callback built from a token whose
//                    stop_sources are all gone (no stop requested) never leaves
//                    its destructor

#include <pika/init.hpp>
#include <pika/stop_token.hpp>
#include <pika/thread.hpp>

#include <atomic>
#include <chrono>
#include <cstdio>
#include <cstring>
#include <optional>
#include <thread>
#include <unistd.h>

static int obs_os_threads()
{
    pika::stop_source src;
    std::atomic<bool> started{false}, release{false}, finished{false};
    auto f = [&] {
        started = true;
        while (!release) std::this_thread::yield();
        finished = true;
    };
    auto* c = new pika::stop_callback<decltype(f)>(src.get_token(), f);    // leaked on purpose

    std::thread stopper([&] { src.request_stop(); });
    while (!started) std::this_thread::yield();

    std::atomic<bool> dtor_returned{false};
    std::thread remover([&] {
        c->~stop_callback();    // must block until the callback has finished
        dtor_returned = true;
    });
    std::this_thread::sleep_for(std::chrono::milliseconds(300));
    bool const early = dtor_returned.load() && !finished.load();
    release = true;
    stopper.join();
    remover.join();
    if (early)
    {
        std::printf("os: destructor returned while the callback was still running on another OS "
                    "thread\n");
        return 1;
    }
    std::printf("os: destructor waited\n");
    return 0;
}

static int nosrc_main()
{
    pika::stop_token tok;
    {
        pika::stop_source src;
        tok = src.get_token();
    }
    std::printf("nosrc: stop_possible=%d stop_requested=%d\n", int(tok.stop_possible()),
        int(tok.stop_requested()));
    {
        pika::stop_callback cb(tok, [] {});
        std::printf("nosrc: constructed, destroying...\n");
        std::fflush(stdout);
    }
    std::printf("nosrc: destructor returned\n");
    pika::finalize();
    return 0;
}

int main(int argc, char* argv[])
{
    if (argc > 1 && !std::strcmp(argv[1], "os")) return obs_os_threads();

    std::thread watchdog([] {
        std::this_thread::sleep_for(std::chrono::seconds(10));
        std::printf("nosrc: HANG - ~stop_callback did not return within 10 s\n");
        std::fflush(stdout);
        _exit(4);
    });
    watchdog.detach();
    pika::init_params params;
    params.cfg = {"pika.os_threads=2"};
    char* av[] = {argv[0], nullptr};
    return pika::init(nosrc_main, 1, av, params);
}
