#include <pika/execution.hpp>
#include <pika/init.hpp>
#include <pika/modules/resource_partitioner.hpp>
#include <pika/runtime.hpp>
#include <pika/thread.hpp>
#include <pika/threading_base/scheduler_mode.hpp>
#include <pika/threading_base/thread_pool_base.hpp>
#include <atomic>
#include <chrono>
#include <cstdio>
#include <string>
#include <thread>
namespace ex = pika::execution::experimental;
int main(int argc, char* argv[])
{
    pika::init_params init_args;
    init_args.cfg = {"pika.os_threads=4"};
    init_args.rp_callback = [](auto& rp, pika::program_options::variables_map const&) {
        using pika::threads::scheduler_mode;
        rp.create_thread_pool("worker", pika::resource::scheduling_policy::local_priority_fifo,
            scheduler_mode::default_mode | scheduler_mode::enable_elasticity);
        std::size_t added = 0;
        for (auto const& d : rp.sockets()) for (auto const& c : d.cores()) for (auto const& p : c.pus())
            if (added < 3) { rp.add_resource(p, "worker"); ++added; }
    };
    pika::start(nullptr, argc, argv, init_args);
    auto& tp = pika::resource::get_thread_pool("worker");
    ex::thread_pool_scheduler sched{&tp};
    std::atomic<long> sub{0}, done{0};
    std::atomic<bool> stop{false};
    std::atomic<long> cycles{0};
    std::thread a([&] {
        while (!stop) {
            if (sub - done > 4) { std::this_thread::yield(); continue; }
            ++sub;
            ex::execute(ex::with_priority(sched, pika::execution::thread_priority::low), [&] { ++done; });
        }
    });
    std::thread s([&] {
        for (int i = 0; i < 20000; ++i) {
            tp.suspend_processing_unit_direct(2);
            tp.resume_processing_unit_direct(2);
            ++cycles;
        }
        stop = true;
    });
    long last = -1; int stall = 0;
    while (!stop) {
        std::this_thread::sleep_for(std::chrono::milliseconds(500));
        long c = cycles.load();
        if (c == last) { if (++stall >= 10) { std::printf("HANG: suspend/resume cycle %ld stuck for 5s; PU2 state=%d sub=%ld done=%ld\n", c, (int) tp.get_state(2), sub.load(), done.load()); std::fflush(stdout); std::_Exit(1);} }
        else { stall = 0; last = c; }
    }
    a.join(); s.join();
    std::printf("OK cycles=%ld sub=%ld done=%ld\n", cycles.load(), sub.load(), done.load());
    pika::finalize();
    return pika::stop();
}
