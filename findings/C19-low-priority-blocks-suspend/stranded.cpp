#include <pika/execution.hpp>
#include <pika/init.hpp>
#include <pika/modules/resource_partitioner.hpp>
#include <pika/runtime.hpp>
#include <pika/thread.hpp>
#include <pika/threading_base/scheduler_mode.hpp>
#include <pika/threading_base/thread_pool_base.hpp>
#include <atomic>
#include <chrono>
#include <cstdio>
#include <string>
#include <thread>
namespace ex = pika::execution::experimental;
int main(int argc, char* argv[])
{
    pika::init_params init_args;
    init_args.cfg = {"pika.os_threads=4"};
    init_args.rp_callback = [](auto& rp, pika::program_options::variables_map const&) {
        using pika::threads::scheduler_mode;
        rp.create_thread_pool("worker", pika::resource::scheduling_policy::local_priority_fifo,
            scheduler_mode::default_mode | scheduler_mode::enable_elasticity);
        std::size_t added = 0;
        for (auto const& d : rp.sockets()) for (auto const& c : d.cores()) for (auto const& p : c.pus())
            if (added < 3) { rp.add_resource(p, "worker"); ++added; }
    };
    pika::start(nullptr, argc, argv, init_args);
    auto& tp = pika::resource::get_thread_pool("worker");
    ex::thread_pool_scheduler sched{&tp};
    // usage: side_prio_stranded <pu> <low|high> [pika options]
    int which = argc > 1 ? std::atoi(argv[1]) : 2;
    auto prio = (argc > 2 && std::string(argv[2]) == "high") ? pika::execution::thread_priority::high : pika::execution::thread_priority::low;
    std::atomic<int> done{0};
    tp.suspend_processing_unit_direct(which);
    std::printf("PU %d suspended\n", which);
    for (int i = 0; i < 10; ++i)
        ex::execute(ex::with_priority(sched, prio), [&] { ++done; });
    for (int i = 0; i < 10; ++i)
        ex::execute(sched, [&] { ++done; });
    std::this_thread::sleep_for(std::chrono::seconds(3));
    std::printf("after 3s with PU %d suspended: %d of 20 tasks done (10 low/high priority, 10 normal)\n", which, done.load());
    tp.resume_processing_unit_direct(which);
    std::this_thread::sleep_for(std::chrono::seconds(1));
    std::printf("1s after resume: %d of 20 done\n", done.load());
    pika::finalize();
    return pika::stop();
}
