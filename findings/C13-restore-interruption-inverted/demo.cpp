// Side observations on the UNCHANGED tree (not part of the pass/fail demonstration).
//   side_obs restore   : disable_interruption / restore_interruption leave interruption enabled
//   side_obs yield     : an interruption delivered inside this_thread::yield() calls std::terminate
//   side_obs clear     : thread::interrupt(false) aborts the wait of a suspended thread

#include <pika/exception.hpp>
#include <pika/init.hpp>
#include <pika/thread.hpp>

#include <atomic>
#include <cstdio>
#include <cstring>

static char const* mode = "restore";

int pika_main()
{
    if (!std::strcmp(mode, "restore"))
    {
        pika::thread t([] {
            namespace tt = pika::this_thread;
            std::printf("start:                       enabled=%d\n", int(tt::interruption_enabled()));
            tt::disable_interruption di;
            std::printf("inside disable_interruption: enabled=%d (expected 0)\n",
                int(tt::interruption_enabled()));
            {
                tt::restore_interruption ri(di);
                std::printf("inside restore_interruption: enabled=%d (expected 1)\n",
                    int(tt::interruption_enabled()));
            }
            std::printf("after restore_interruption:  enabled=%d (expected 0, still inside di)\n",
                int(tt::interruption_enabled()));
        });
        t.join();
    }
    else if (!std::strcmp(mode, "yield"))
    {
        pika::thread t([] {
            for (;;) pika::this_thread::yield();
        });
        t.interrupt();
        t.join();
        std::printf("joined\n");
    }
    else if (!std::strcmp(mode, "clear"))
    {
        std::atomic<bool> aborted{false};
        pika::thread t([&] {
            try
            {
                pika::this_thread::suspend(pika::threads::detail::thread_schedule_state::suspended);
            }
            catch (pika::exception const& e)
            {
                aborted = true;
                std::printf("target: wait ended with exception: %s\n", e.what());
            }
        });
        using namespace pika::threads::detail;
        while (get_thread_state(t.native_handle()).state() != thread_schedule_state::suspended)
            pika::this_thread::yield();
        t.interrupt(false);    // "withdraw" a request that was never made
        t.join();
        std::printf("aborted=%d\n", int(aborted.load()));
    }
    pika::finalize();
    return 0;
}

int main(int argc, char** argv)
{
    if (argc > 1) mode = argv[1];
    char const* args[] = {argv[0], "--pika:threads=4", nullptr};
    return pika::init(pika_main, 2, args);
}
