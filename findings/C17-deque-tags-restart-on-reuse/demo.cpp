// Side observation for C17 (NOT part of the pass/fail demonstration, not run by run.sh):
// random-mix stress on lockfree_abp_lifo_backend / deque that FAILS ON THE UNCHANGED TREE.
//
// 8 threads each perform 100000 random operations chosen uniformly from the characters of the
// environment variable MIX (default "Ll"):
//     L = push(v)        -> deque::push_left      R = push(v, true)  -> deque::push_right
//     l = pop(v, false)  -> deque::pop_left       r = pop(v, true)   -> deque::pop_right
// followed by a quiescent drain and a multiset check (exit 1 = duplicates/lost, exit 3 = SIGSEGV).
// On the pinned, unmodified commit MIX=Ll, LLll, LLlr, LRl, LLLRllrr fail in every run;
// MIX=Rr, Rl, RRll, Lr, LLrr pass. See NOTES.md, 'Side observations'.
//
// build: see run.sh (same flags), e.g.
//   clang++ -std=c++20 -O1 -pthread -DNDEBUG -D_GNU_SOURCE $INC side_observation.cpp -o so $LIBS

#include <pika/schedulers/lockfree_queue_backends.hpp>

#include <atomic>
#include <csignal>
#include <cstdint>
#include <cstdio>
#include <cstdlib>
#include <cstring>
#include <thread>
#include <unistd.h>
#include <vector>

namespace {
    using backend = pika::threads::detail::lockfree_abp_lifo_backend<std::uint64_t>;

    constexpr int num_threads = 8;
    constexpr int ops_per_thread = 100000;
    constexpr int rounds = 30;

    void on_segv(int)
    {
        char const msg[] = "FAIL: crash (SIGSEGV) inside the container - links were corrupted\n";
        (void) !write(2, msg, sizeof(msg) - 1);
        _exit(3);
    }

    void on_alarm(int)
    {
        char const msg[] = "FAIL: watchdog expired (container operation does not terminate)\n";
        (void) !write(2, msg, sizeof(msg) - 1);
        _exit(4);
    }

    struct xorshift
    {
        std::uint64_t s;
        std::uint64_t operator()()
        {
            s ^= s << 13;
            s ^= s >> 7;
            s ^= s << 17;
            return s;
        }
    };

    // returns the number of violations found in this round
    std::uint64_t run_round(int round)
    {
        // heap-allocated and intentionally leaked if the round fails (a corrupted deque must not
        // be walked by its destructor)
        backend* q = new backend(256);

        std::atomic<int> ready{0};
        std::atomic<bool> go{false};
        std::vector<std::vector<std::uint64_t>> popped(num_threads);
        std::vector<std::uint64_t> pushed_count(num_threads, 0);
        std::vector<std::thread> threads;

        for (int t = 0; t < num_threads; ++t)
        {
            threads.emplace_back([&, t] {
                xorshift rng{0x9E3779B97F4A7C15ull * (std::uint64_t(round) * num_threads + t + 1)};
                auto& mine = popped[t];
                mine.reserve(ops_per_thread);
                std::uint64_t next = 0;
                ++ready;
                while (!go.load(std::memory_order_acquire)) {}

                for (int i = 0; i < ops_per_thread; ++i)
                {
                    std::uint64_t r = rng();
                    static const char* mix = getenv("MIX") ? getenv("MIX") : "Ll";
                    static const unsigned mixn = strlen(mix);
                    char op = mix[unsigned(r >> 33) % mixn];
                    std::uint64_t v = 0;
                    switch (op)
                    {
                    case 'L':
                        q->push(std::uint64_t(t) * ops_per_thread + (++next));
                        break;
                    case 'R':
                        q->push(std::uint64_t(t) * ops_per_thread + (++next), true);
                        break;
                    case 'l':
                        if (q->pop(v, false)) mine.push_back(v);
                        break;
                    default:    // steal
                        if (q->pop(v, true)) mine.push_back(v);
                        break;
                    }
                }
                pushed_count[t] = next;
            });
        }
        while (ready.load() != num_threads) {}
        go.store(true, std::memory_order_release);
        for (auto& th : threads) th.join();

        std::uint64_t total_pushed = 0;
        for (auto c : pushed_count) total_pushed += c;

        // quiescent drain: first from the owner end, then from the steal end
        std::vector<std::uint64_t> drained;
        std::uint64_t limit = total_pushed + 16;
        std::uint64_t v = 0;
        while (drained.size() < limit && q->pop(v, false)) drained.push_back(v);
        bool left_says_empty = drained.size() < limit;
        std::uint64_t stranded = 0;
        while (drained.size() < limit && q->pop(v, true))
        {
            drained.push_back(v);
            ++stranded;
        }

        // account
        std::vector<std::uint8_t> seen(std::size_t(num_threads) * ops_per_thread + 1, 0);
        std::uint64_t dup = 0, invented = 0, lost = 0, total_popped = 0;
        auto account = [&](std::uint64_t x) {
            ++total_popped;
            std::uint64_t t = (x - 1) / ops_per_thread;
            std::uint64_t k = x - t * ops_per_thread;
            if (x == 0 || t >= std::uint64_t(num_threads) || k > pushed_count[t])
            {
                ++invented;
                return;
            }
            if (seen[x]++) ++dup;
        };
        for (auto& vec : popped)
            for (auto x : vec) account(x);
        for (auto x : drained) account(x);
        for (int t = 0; t < num_threads; ++t)
            for (std::uint64_t k = 1; k <= pushed_count[t]; ++k)
                if (!seen[std::uint64_t(t) * ops_per_thread + k]) ++lost;

        std::uint64_t bad = dup + invented + lost;
        if (left_says_empty && stranded != 0)
        {
            // pop at one end reported "empty" on a quiescent container that still held elements
            bad += stranded;
        }
        if (bad != 0)
        {
            std::printf("round %d: pushed=%llu popped=%llu duplicates=%llu lost=%llu invented=%llu "
                        "stranded-after-left-drain=%llu\n",
                round, (unsigned long long) total_pushed, (unsigned long long) total_popped,
                (unsigned long long) dup, (unsigned long long) lost, (unsigned long long) invented,
                (unsigned long long) stranded);
            return bad;    // leak q on purpose
        }
        delete q;
        return 0;
    }
}    // namespace

int main()
{
    std::signal(SIGSEGV, on_segv);
    std::signal(SIGBUS, on_segv);
    std::signal(SIGALRM, on_alarm);
    alarm(100);

    for (int r = 0; r < rounds; ++r)
    {
        std::uint64_t bad = run_round(r);
        if (bad != 0)
        {
            std::printf("FAIL: elements were not returned exactly once (%llu violations)\n",
                (unsigned long long) bad);
            std::fflush(stdout);
            _exit(1);
        }
    }
    std::printf("PASS: %d rounds x %d threads x %d ops, every element returned exactly once\n",
        rounds, num_threads, ops_per_thread);
    return 0;
}
