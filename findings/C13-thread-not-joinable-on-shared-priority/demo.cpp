// C13: pika::thread on the shared-priority scheduler can come back from its constructor not joinable.
//   demo --pika:scheduler=shared-priority --pika:threads=4     (compare: --pika:scheduler=local-priority-fifo)
#include <pika/init.hpp>
#include <pika/thread.hpp>
#include <atomic>
#include <cstdio>
#include <vector>

int entry(int, char**)
{
    std::atomic<int> ran{0};
    int not_joinable = 0, join_threw = 0;
    constexpr int n = 40;
    for (int i = 0; i < n; ++i)
    {
        pika::thread t([&] { ++ran; });
        if (!t.joinable()) { ++not_joinable; continue; }
        try { t.join(); } catch (...) { ++join_threw; }
    }
    while (ran < n) pika::this_thread::yield();
    std::printf("threads constructed: %d, not joinable right after construction: %d, join threw: %d, bodies run: %d\n", n, not_joinable, join_threw, ran.load());
    pika::finalize();
    return not_joinable != 0 || join_threw != 0;
}
int main(int argc, char** argv) { return pika::init(entry, argc, argv); }
