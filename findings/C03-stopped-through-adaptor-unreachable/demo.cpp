// Side observation (UNCHANGED tree): an upstream stopped signal that passes through an adaptor
// that declares sends_done = false (then, let_value, schedule_from/continues_on, bulk, drop_value,
// ...) reaches PIKA_UNREACHABLE (std::terminate) in split_tuple instead of arriving as stopped.
#include <pika/execution.hpp>

#include <cstdio>
#include <tuple>
#include <utility>

namespace ex = pika::execution::experimental;

struct stopped_leaf
{
    template <template <typename...> class Tuple, template <typename...> class Variant>
    using value_types = Variant<Tuple<std::tuple<int>>>;
    template <template <typename...> class Variant>
    using error_types = Variant<std::exception_ptr>;
    static constexpr bool sends_done = true;

    template <typename R>
    struct op
    {
        R r;
        void start() & noexcept { ex::set_stopped(std::move(r)); }
    };
    template <typename R>
    op<std::decay_t<R>> connect(R&& r) &&
    {
        return {std::forward<R>(r)};
    }
};

struct rcv
{
    int* stopped;
    template <typename... Ts>
    void set_value(Ts&&...) && noexcept
    {
    }
    template <typename E>
    void set_error(E&&) && noexcept
    {
    }
    void set_stopped() && noexcept { ++*stopped; }
};

int main()
{
    int stopped = 0;
    {
        auto [s] = ex::split_tuple(stopped_leaf{});
        auto os = ex::connect(std::move(s), rcv{&stopped});
        ex::start(os);
    }
    std::printf("stopped_leaf | split_tuple: stopped delivered %d time(s)\n", stopped);
    std::fflush(stdout);

    stopped = 0;
    {
        auto [s] = ex::split_tuple(stopped_leaf{} | ex::then([](std::tuple<int> t) { return t; }));
        auto os = ex::connect(std::move(s), rcv{&stopped});
        ex::start(os);    // terminates via PIKA_UNREACHABLE
    }
    std::printf("stopped_leaf | then | split_tuple: stopped delivered %d time(s)\n", stopped);
    return stopped == 1 ? 0 : 1;
}
