// Finding C09/F11 (see DESIGN.md §0.3): latch + barrier with more participants than workers hang on the
// unmodified tree. 8 tasks on 4 workers: every task passes a latch, then uses a barrier. One latch waiter W is
// woken (state pending, queued on a worker's normal queue by *another* worker), the 7 others reach
// barrier::arrive_and_wait first and poll the phase through util::yield_while: they stay runnable and are
// re-enqueued by their own worker for ever. The pending queue (lockfree_fifo_backend -> moodycamel
// ConcurrentQueue::try_dequeue(U&), token-less) is only FIFO per producer thread: between the worker's own
// sub-queue (the re-enqueued pollers) and the sub-queue holding W it picks by size, ties by producer-list order,
// without rotation. W is never dequeued, never arrives at the barrier, the pollers never stop: livelock.
//
// build: see run.sh (any pika build); run: ./demo --pika:threads=4   (hangs in most runs; watchdog prints the state)
#include <pika/execution.hpp>
#include <pika/init.hpp>
#include <pika/synchronization/barrier.hpp>
#include <pika/synchronization/latch.hpp>

#include <atomic>
#include <chrono>
#include <cstdio>
#include <thread>
#include <unistd.h>
namespace ex = pika::execution::experimental;
namespace tt = pika::this_thread::experimental;
constexpr int phases = 50;
struct state
{
    int n;
    std::atomic<int> arrived{0};
    std::atomic<int> where[64];
    pika::barrier<> b;
    pika::latch done;
    pika::latch start;
    explicit state(int n) : n(n), b(n), done(n + 1), start(n) { for (auto& x : where) x = -1; }
};
int main(int argc, char** argv)
{
    int const n = 8;
    auto* s = new state(n);    // leaked on purpose
    std::thread([s, n] {
        std::this_thread::sleep_for(std::chrono::seconds(10));
        std::fprintf(stderr, "HANG: barrier arrivals=%d of %d in phase 0\n", s->arrived.load(), n);
        for (int i = 0; i < n; ++i)
            std::fprintf(stderr, " task%d: %s\n", i, s->where[i] == -1 ? "latch::arrive_and_wait has not returned (count reached zero long ago)" : "polling in barrier::wait");
        _exit(3);
    }).detach();
    pika::start(argc, argv);
    tt::sync_wait(ex::schedule(ex::thread_pool_scheduler{}) | ex::then([s, n] {
        for (int i = 0; i < n; ++i)
        {
            ex::start_detached(ex::schedule(ex::thread_pool_scheduler{}) | ex::then([s, i] {
                s->start.arrive_and_wait();
                s->where[i] = 0;
                for (int k = 0; k < phases; ++k)
                {
                    ++s->arrived;
                    s->b.arrive_and_wait();
                }
                s->done.count_down(1);
            }));
        }
        s->done.arrive_and_wait();
    }));
    std::printf("OK\n");
    std::fflush(stdout);
    pika::finalize();
    pika::stop();
    _exit(0);
}
