#!/bin/sh
# usage: run.sh <pika source tree> <pika build dir (clang or gcc, shared libpika)>
WT=$1; B=$2
INC="-I$B $(for d in $WT/libs/pika/*/include; do m=$(basename $(dirname $d)); echo -n "-I$d -I$B/libs/pika/$m/include "; done)"
c++ -std=c++20 -O1 $INC -DFMT_SHARED -DSPDLOG_COMPILED_LIB -DSPDLOG_FMT_EXTERNAL -DSPDLOG_SHARED_LIB -D_GNU_SOURCE \
  demo.cpp -o demo -L$B/lib -lpika -lfmt -lspdlog -lhwloc -Wl,-rpath,$B/lib || exit 2
for s in local-priority-fifo local-priority-lifo; do
  ok=0; for i in 1 2 3 4 5 6; do ./demo --pika:threads=4 --pika:scheduler=$s 2>/dev/null | grep -q '^OK' && ok=$((ok+1)); done
  echo "$s: $ok/6 runs finished"
done
