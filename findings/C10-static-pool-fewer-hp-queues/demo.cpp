// C10 probe on the unmodified tree: a static-priority pool "B" (4 workers) created through the resource partitioner,
// the runtime started with --pika:high-priority-threads=2 (a supported option of the default local-priority scheduler).
// A normal-priority task hinted to worker 3 of B yields through yield_k (boost-priority yields): where do its phases run?
#include <pika/execution.hpp>
#include <pika/init.hpp>
#include <pika/runtime.hpp>
#include <pika/modules/resource_partitioner.hpp>
#include <pika/execution_base/this_thread.hpp>
#include <cstdio>
namespace ex = pika::execution::experimental;
namespace tt = pika::this_thread::experimental;
int main(int argc, char** argv)
{
    pika::init_params p;
    p.rp_callback = [](pika::resource::partitioner& rp, pika::program_options::variables_map const&) {
        rp.create_thread_pool("B", pika::resource::scheduling_policy::static_priority);
        int n = 0;
        for (auto const& s : rp.sockets()) for (auto const& c : s.cores()) for (auto const& pu : c.pus()) if (n++ < 4) rp.add_resource(pu, "B");
    };
    pika::start(argc, argv, p);
    int bad = 0, total = 0;
    auto sched = ex::with_hint(ex::thread_pool_scheduler{&pika::resource::get_thread_pool("B")},
        pika::execution::thread_schedule_hint(pika::execution::thread_schedule_hint_mode::thread, 3));
    for (int round = 0; round < 200; ++round)
    {
        auto r = tt::sync_wait(ex::schedule(sched) | ex::then([&] {
            int wrong = 0;
            for (std::size_t k = 0; k < 40; ++k)
            {
                pika::execution::this_thread::detail::yield_k(k, "probe");
                if (pika::get_local_worker_thread_num() != 3 || pika::get_thread_pool_num() != pika::resource::get_thread_pool("B").get_pool_index()) ++wrong;
            }
            return wrong;
        }));
        total += 40; bad += r;
    }
    std::printf("phases of the hinted task that ran on a worker other than the hinted one: %d of %d\n", bad, total);
    pika::finalize();
    pika::stop();
    return bad ? 1 : 0;
}
