#include <pika/execution.hpp>
#include <pika/init.hpp>
#include <atomic>
#include <cstdint>
#include <cstdio>
#include <vector>
#include <chrono>
namespace ex = pika::execution::experimental;
namespace tt = pika::this_thread::experimental;

struct alignas(64) acc { std::uint64_t cnt = 0; std::uint64_t sum = 0; };

template <typename Shape>
int run(Shape n, char const* name)
{
    std::vector<acc> a(64);
    auto t0 = std::chrono::steady_clock::now();
    tt::sync_wait(ex::schedule(ex::thread_pool_scheduler{}) | ex::bulk(n, [&](Shape i) {
        auto& x = a[pika::get_worker_thread_num()];
        ++x.cnt; x.sum += static_cast<std::uint64_t>(i);
    }));
    std::uint64_t cnt = 0, sum = 0;
    for (auto& x : a) { cnt += x.cnt; sum += x.sum; }
    std::uint64_t N = static_cast<std::uint64_t>(n);
    std::uint64_t esum = (N % 2 == 0) ? (N / 2) * (N - 1) : N * ((N - 1) / 2);
    double dt = std::chrono::duration<double>(std::chrono::steady_clock::now() - t0).count();
    std::printf("%s n=%llu: calls=%llu (missing %lld) sum %s  [%.1fs]\n", name, (unsigned long long) N,
        (unsigned long long) cnt, (long long) (N - cnt), sum == esum ? "ok" : "WRONG", dt);
    return cnt == N && sum == esum ? 0 : 1;
}

int main(int argc, char** argv)
{
    pika::start(argc, argv);
    int rc = 0;
    rc |= run<int>(1000000, "int");
    rc |= run<unsigned>(0xffffffffu, "unsigned");
    rc |= run<int>(0x7fffffff, "int");
    rc |= run<std::uint64_t>((1ull << 32) + 5, "uint64");
    pika::finalize();
    pika::stop();
    return rc;
}
