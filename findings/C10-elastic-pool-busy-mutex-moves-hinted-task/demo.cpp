#include <pika/execution.hpp>
#include <pika/init.hpp>
#include <pika/modules/resource_partitioner.hpp>
#include <pika/runtime.hpp>
#include <pika/thread.hpp>
#include <atomic>
#include <cstdio>
#include <thread>
#include <vector>
namespace ex = pika::execution::experimental;
std::atomic<long> wrong{0}, total{0}, moved{0};
static bool yielding = false;
int pika_main()
{
    ex::thread_pool_scheduler sched{&pika::resource::get_thread_pool("sp")};
    auto hinted = ex::with_hint(sched, pika::execution::thread_schedule_hint(std::int16_t(1)));
    std::printf("elasticity mode: %d\n", (int) pika::resource::get_thread_pool("sp").get_scheduler()->has_scheduler_mode(pika::threads::scheduler_mode::enable_elasticity));
    constexpr int nsub = 4, per = 20000;
    std::vector<std::thread> subs;
    for (int t = 0; t < nsub; ++t)
        subs.emplace_back([&] {
            for (int i = 0; i < per; ++i)
                ex::execute(hinted, [] {
                    if (pika::get_local_worker_thread_num() != 1) ++wrong;
                    if (yielding)
                    {
                        // a task that yields is re-queued by its worker with the worker's own number as hint
                        std::size_t w = pika::get_local_worker_thread_num();
                        for (int k = 0; k < 4; ++k)
                        {
                            pika::this_thread::yield();
                            std::size_t w2 = pika::get_local_worker_thread_num();
                            if (w2 != w) { ++moved; w = w2; }
                        }
                    }
                    ++total;
                });
        });
    for (auto& t : subs) t.join();
    while (total < nsub * per) pika::this_thread::yield();
    std::printf("elastic static-priority pool: %ld of %ld hinted tasks ran on another worker; %ld continued on another worker after a yield\n", wrong.load(), total.load(), moved.load());
    pika::finalize();
    return wrong != 0 || moved != 0;
}
int main(int argc, char** argv)
{
    pika::init_params params;
    bool elastic = argc > 1 && std::string(argv[1]).find("elastic") == 0;
    yielding = argc > 1 && std::string(argv[1]).find("yield") != std::string::npos;
    params.rp_callback = [elastic](pika::resource::partitioner& rp, pika::program_options::variables_map const&) {
        auto mode = pika::threads::scheduler_mode::default_mode;
        if (elastic) mode = mode | pika::threads::scheduler_mode::enable_elasticity;
        rp.create_thread_pool("sp", pika::resource::scheduling_policy::static_priority, mode);
        std::size_t count = 0;
        for (auto const& s : rp.sockets()) for (auto const& c : s.cores()) for (auto const& p : c.pus())
        { if (count >= 2 && count < 6) rp.add_resource(p, "sp"); ++count; }
    };
    char* av[] = {argv[0], (char*)"--pika:threads=16", nullptr};
    return pika::init(pika_main, 2, av, params);
}
