// Side observations on the UNCHANGED tree. usage: side <scenario>   (1..4)
#include <pika/exception.hpp>
#include <pika/init.hpp>
#include <pika/mutex.hpp>
#include <pika/thread.hpp>

#include <atomic>
#include <chrono>
#include <cstdio>
#include <cstdlib>
#include <string>
#include <thread>
#include <vector>

using clk = std::chrono::steady_clock;
static int scenario = 1;

static void spin_yield_ms(int ms)
{
    auto const until = clk::now() + std::chrono::milliseconds(ms);
    while (clk::now() < until) pika::this_thread::yield();
}

// 1: a waiter that was notified and is interrupted before it runs swallows the unlock
static void s1()
{
    pika::mutex m;
    std::atomic<int> blocked{0};
    std::atomic<bool> w_out{false}, v_got{false};
    m.lock();
    pika::thread w([&] {
        ++blocked;
        try { m.lock(); m.unlock(); std::printf("W got the mutex\n"); }
        catch (pika::thread_interrupted const&) { std::printf("W interrupted inside lock()\n"); }
        w_out = true;
    });
    while (blocked != 1) pika::this_thread::yield();
    spin_yield_ms(20);
    pika::thread v([&] {
        ++blocked;
        m.lock(); v_got = true; m.unlock();
    });
    while (blocked != 2) pika::this_thread::yield();
    spin_yield_ms(20);
    // single worker: W cannot run between the two calls
    m.unlock();
    w.interrupt();
    spin_yield_ms(1000);
    std::printf("w_out=%d v_got=%d (mutex is free: try_lock=%d)\n", int(w_out), int(v_got),
        int(m.try_lock()));
    std::fflush(stdout);
    std::_Exit(v_got ? 0 : 1);
}

// 2: a notified try_lock_for waiter sleeps on until its deadline; the plain waiter behind it waits
static void s2()
{
    pika::timed_mutex m;
    std::atomic<int> blocked{0};
    m.lock();
    auto t0 = clk::now();
    auto ms = [&] { return (long) std::chrono::duration_cast<std::chrono::milliseconds>(clk::now() - t0).count(); };
    pika::thread t([&] {
        ++blocked;
        bool got = m.try_lock_for(std::chrono::milliseconds(3000));
        std::printf("T try_lock_for(3000ms) -> %d at %ld ms\n", int(got), ms());
        if (got) m.unlock();
    });
    while (blocked != 1) pika::this_thread::yield();
    spin_yield_ms(50);
    pika::thread w([&] {
        ++blocked;
        m.lock();
        std::printf("W lock() acquired at %ld ms\n", ms());
        m.unlock();
    });
    while (blocked != 2) pika::this_thread::yield();
    spin_yield_ms(50);
    std::printf("owner unlocks at %ld ms\n", ms());
    m.unlock();
    t.join(); w.join();
}

// 3: default recursive mutex (spinlock based): owner yields inside the critical section
static void s3()
{
    pika::detail::recursive_mutex_impl<> m;
    std::atomic<bool> locked{false}, done{false};
    pika::thread a([&] {
        m.lock(); locked = true;
        pika::this_thread::yield();
        m.unlock();
    });
    pika::thread b([&] {
        while (!locked) pika::this_thread::yield();
        m.lock(); m.unlock(); done = true;
    });
    a.join(); b.join();
    std::printf("done=%d\n", int(done));
}

// 4: lock(ec) with an error_code that already holds an error
static void s4()
{
    pika::mutex m;
    pika::error_code ec(pika::throwmode::lightweight);
    m.lock();
    m.lock(ec);    // ec == deadlock now
    std::printf("ec after re-lock: %d\n", int(ec.value()));
    m.unlock();
    // uncontended: acquires, ec still says error
    m.lock(ec);
    std::printf("uncontended lock(ec): ec=%d, owned=%d\n", int(ec.value()), int(!m.try_lock()));
    std::atomic<bool> blocked{false}, ret{false};
    pika::thread o([&] {
        pika::error_code ec2(pika::throwmode::lightweight);
        pika::mutex m2; m2.lock(); m2.lock(ec2);    // make ec2 hold an error
        m2.unlock();
        blocked = true;
        m.lock(ec2);
        ret = true;
        // did we get it?
        pika::error_code ec3(pika::throwmode::lightweight);
        m.unlock(ec3);
        std::printf("contended lock(ec): returned with ec=%d; unlock -> ec=%d (%s)\n",
            int(ec2.value()), int(ec3.value()), ec3 ? "did NOT own the mutex" : "owned it");
    });
    while (!blocked) pika::this_thread::yield();
    spin_yield_ms(50);
    m.unlock();
    o.join();
}

static int pika_main()
{
    switch (scenario) { case 1: s1(); break; case 2: s2(); break; case 3: s3(); break; case 4: s4(); break; }
    pika::finalize();
    return 0;
}

int main(int argc, char** argv)
{
    if (argc > 1) scenario = std::atoi(argv[1]);
    std::thread([] { std::this_thread::sleep_for(std::chrono::seconds(20));
        std::printf("watchdog: HANG\n"); std::fflush(stdout); std::_Exit(2); }).detach();
    std::string th = (scenario == 1 || scenario == 3) ? "--pika:threads=1" : "--pika:threads=4";
    char const* av[] = {argv[0], th.c_str()};
    return pika::init(pika_main, 2, av);
}
