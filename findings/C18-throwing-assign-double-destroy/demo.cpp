// Side observations on the UNCHANGED function wrappers (independent of patch.diff).
#include <pika/functional/function.hpp>
#include <pika/functional/unique_function.hpp>
#include <cstdint>
#include <cstdio>
#include <stdexcept>
#include <utility>

using pika::util::detail::function;

static int live = 0, dtor_calls = 0, ctor_calls = 0;

struct A    // small, never throws
{
    int id = 1;
    A() { ++live; ++ctor_calls; }
    A(A const& o) : id(o.id) { ++live; ++ctor_calls; }
    ~A() { --live; ++dtor_calls; }
    int operator()() const { return id; }
};

struct B    // copy constructor throws on demand
{
    static inline bool throw_on_copy = false;
    B() { ++live; ++ctor_calls; }
    B(B const&)
    {
        if (throw_on_copy) throw std::runtime_error("copy");
        ++live; ++ctor_calls;
    }
    ~B() { --live; ++dtor_calls; }
    int operator()() const { return 2; }
};

struct SelfRef    // small (16 bytes), not trivially relocatable
{
    SelfRef* self;
    int v;
    explicit SelfRef(int v) : self(this), v(v) {}
    SelfRef(SelfRef const& o) : self(this), v(o.v) {}
    int operator()() const { return self == this ? v : -1; }
};

struct alignas(32) Over { char c = 5; int operator()() const { return (reinterpret_cast<std::uintptr_t>(this) % 32) == 0 ? 5 : -5; } };

int main()
{
    int bad = 0;
    // (1) assign(F&&) of a different type whose copy throws: old target destroyed, object left dangling
    {
        live = 0; ctor_calls = dtor_calls = 0;
        {
            function<int()> f = A{};
            B b;
            B::throw_on_copy = true;
            try { f = b; } catch (std::exception const&) {}
            B::throw_on_copy = false;
            std::printf("(1) after failed assign: empty=%d live=%d (expected 1 target A or empty + b)\n", int(f.empty()), live);
        }
        std::printf("(1) ctor=%d dtor=%d live=%d\n", ctor_calls, dtor_calls, live);
        if (live != 0) { ++bad; std::printf("(1) BROKEN: destructor count does not match\n"); }
    }
    // (2) copy-assign between wrappers of different target type, copy throws
    {
        live = 0; ctor_calls = dtor_calls = 0;
        {
            function<int()> f = A{};
            function<int()> g = B{};
            B::throw_on_copy = true;
            try { f = g; } catch (std::exception const&) {}
            B::throw_on_copy = false;
        }
        std::printf("(2) ctor=%d dtor=%d live=%d\n", ctor_calls, dtor_calls, live);
        if (live != 0) { ++bad; std::printf("(2) BROKEN: destructor count does not match\n"); }
    }
    // (3) inline-stored target is relocated with memcpy on move
    {
        function<int()> f = SelfRef{42};
        int before = f();
        function<int()> g = std::move(f);
        int after = g();
        std::printf("(3) before move %d, after move %d\n", before, after);
        if (before != after) { ++bad; std::printf("(3) BROKEN: moved wrapper returns something else\n"); }
    }
    // (4) over-aligned small target placed in the 8-aligned inline buffer
    {
        function<int()> f = Over{};
        int r = f();
        std::printf("(4) over-aligned target sees itself %s\n", r == 5 ? "aligned" : "MISALIGNED");
        if (r != 5) ++bad;
    }
    std::printf("side observations reproduced: %d\n", bad);
    return 0;
}
