#include <pika/functional/function.hpp>
#include <cstdio>
#include <stdexcept>
using pika::util::detail::function;
static int live=0;
template <int N> struct T_ { char pad[N]; bool thr; T_(bool t=false):thr(t){++live;} T_(T_ const& o):thr(o.thr){ if(thr) throw std::runtime_error("copy"); ++live;} ~T_(){--live;} int operator()() const {return N;} };
int main(){ int bad=0;
  // same type, small and large, via assign(F) and op_assign
  { live=0; { function<int()> f = T_<8>{}; T_<8> b(true); try { f = b; } catch(...) {} if(!f.empty()) { std::printf("same small: not empty\n"); ++bad;} try{ f(); std::printf("call on empty did not throw\n"); ++bad;}catch(...){} } if(live!=0){std::printf("same small live=%d\n",live);++bad;} }
  { live=0; { function<int()> f = T_<200>{}; T_<200> b(true); try { f = b; } catch(...) {} if(!f.empty()) ++bad; } if(live!=0){std::printf("same large live=%d\n",live);++bad;} }
  { live=0; { function<int()> f = T_<200>{}; function<int()> g = T_<200>{}; g.target<T_<200>>()->thr = true; try { f = g; } catch(...) {} if(!f.empty()) ++bad; } if(live!=0){std::printf("opassign same large live=%d\n",live);++bad;} }
  { live=0; { function<int()> f = T_<8>{}; function<int()> g = T_<200>{}; g.target<T_<200>>()->thr = true; try { f = g; } catch(...) {} if(!f.empty()) ++bad; } if(live!=0){std::printf("opassign diff live=%d\n",live);++bad;} }
  { live=0; { function<int()> f = T_<8>{}; function<int()> g = T_<200>{}; f = g; if (f() != 200) ++bad; f = T_<8>{}; if (f()!=8) ++bad; function<int()> e; f = e; if(!f.empty()) ++bad; } if(live!=0){std::printf("normal live=%d\n",live);++bad;} }
  std::printf("bad=%d\n",bad); return bad; }
