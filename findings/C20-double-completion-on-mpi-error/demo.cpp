#include <pika/execution.hpp>
#include <pika/init.hpp>
#include <pika/mpi.hpp>
#include <pika/runtime.hpp>
#include <pika/thread.hpp>
#include <mpi.h>
#include <atomic>
#include <cstdio>
#include <exception>
namespace ex = pika::execution::experimental;
namespace mpix = pika::mpi::experimental;
std::atomic<int> values{0}, errors{0}, stops{0};
struct counting_receiver
{
    PIKA_STDEXEC_RECEIVER_CONCEPT
    void set_value() && noexcept { ++values; }
    void set_error(std::exception_ptr) && noexcept { ++errors; }
    void set_stopped() && noexcept { ++stops; }
    constexpr ex::empty_env get_env() const& noexcept { return {}; }
};
int pika_main()
{
    MPI_Comm_set_errhandler(MPI_COMM_WORLD, MPI_ERRORS_RETURN);
    {
        mpix::enable_polling polling;
        int buf = 0;
        auto snd = ex::just(&buf, 1, MPI_INT, 12345 /*invalid rank*/, 7, MPI_COMM_WORLD) |
            mpix::transform_mpi(MPI_Irecv);
        auto os = ex::connect(std::move(snd), counting_receiver{});
        ex::start(os);
        for (int i = 0; i < 200000; ++i) pika::this_thread::yield();
        std::printf("set_value calls %d, set_error calls %d, set_stopped calls %d, work count %zu\n",
            values.load(), errors.load(), stops.load(), mpix::get_work_count());
        std::fflush(stdout);
    }
    pika::finalize();
    return 0;
}
int main(int argc, char* argv[])
{
    int provided;
    MPI_Init_thread(&argc, &argv, MPI_THREAD_MULTIPLE, &provided);
    pika::init_params params;
    params.cfg = {"pika.os_threads=2"};
    int r = pika::init(pika_main, argc, argv, params);
    MPI_Finalize();
    return r;
}
