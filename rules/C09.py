# C09 — latch, barrier, event and call_once release exactly when due (structural part; DESIGN.md §5 C09)
import re
from engine.core import AnalysisBroken, P, T, callee_of, callee_short, cond_atoms, loc_of, strip, forward, block_path, is_moved
from engine.kinds import (LockFlow, FactFlow, CountFlow, check_guarded, precedes_on_all_paths, eval_walk, loop_of, reaching_init)
from .common import facts, lib, driver, local_init

EXPLANATION = (
    "Static analysis of the current source. Decided: latch: notified_ only under mtx_, it is set (under the lock) only "
    "on the count-reached-zero edge and before the notify loop, the loop keeps notifying until no waiter is left "
    "re-acquiring the lock each round, wait() blocks whenever the counter is positive and does not block once counter "
    "is zero and notified (truth table) (R1); event: set() publishes the flag with release order before taking the "
    "lock and notifying all, waiters loop on the flag under the lock (R2); call_once invokes the callable only after "
    "winning the compare-exchange, publishes 'complete' and then sets the event, on an exception resets the status, "
    "sets the event and rethrows, and losers wait only if the call is not complete (R3); barrier: completion runs, the "
    "expected count is adjusted and the phase is advanced by 2 with release order in this order and only for the last "
    "arriver, waiters poll the phase with acquire order, arrive_and_drop registers the adjustment before arriving, the "
    "tree tickets change only by acq_rel compare-exchange (R4). Not decided: the tournament-tree arithmetic of "
    "barrier_algorithm_base::arrive for every participant count.")
ASSUMPTIONS = ["detail::condition_variable behaves as decided in C02/C07", "util::yield_while(f) returns only when f() is false"]
THOROUGH_CONFIGS = [["-UNDEBUG", "-DPIKA_DEBUG"]]
FLOORS = {"C09.R1": 10, "C09.R2": 5, "C09.R3": 5, "C09.R4": 6, "C09.R5": 5}

LOCK = "this->mtx_.data_"


def notify_loop_ok(fn, lf, field_write_pos):
    """notify_one(std::move(l)) in a loop that is left only when notify_one returned false; lock re-acquired each round."""
    n = [(b, i, ev) for b, i, ev in fn.all_events() if ev.get("k") == "call" and callee_short(ev) == "notify_one"]
    if len(n) != 1:
        return "expected one notify_one (found %d)" % len(n)
    b, i, ev = n[0]
    loop = loop_of(fn, b)
    if loop is None:
        return "notify_one is not in a loop: only one waiter is released"
    for bb in loop:
        blk = fn.blocks[bb]
        for lab, t, _ in blk.succ:
            if t not in loop:
                a, pos = cond_atoms(blk.cond) if blk.cond is not None else ("", True)
                if "notify_one(" not in a or ((lab == "true") == pos):
                    return "the notify loop can be left while notify_one still reports waiters (%s)" % a
    if not (ev.get("args") and is_moved(ev["args"][0])):
        return "notify_one must consume the lock"
    tmp = [(bb, ii) for bb, ii, e2 in fn.all_events() if e2.get("k") == "ctor" and e2.get("copymove") == "move"
           and e2.get("rec") == "std::unique_lock" and not e2.get("var") and bb == b and ii < i]
    pos = tmp[-1] if tmp else (b, i)
    if LOCK not in (lf.held_before(pos) or frozenset()):
        return "notify_one is handed a lock that is not held on every path (missing re-lock in the loop)"
    if field_write_pos is not None and not precedes_on_all_paths(fn, lambda e: e is field_write_pos, (b, i)):
        return "notified_ is not set before the first notify_one"
    return None


def derives_from_moved(fn, arg):
    """the argument is a by-value parameter temporary / local that was move-constructed from the lock"""
    from engine.kinds import derives_from
    return derives_from(fn, arg, lambda t: "std::move(" in t or "move(" in t)


def run(rep, tier):
    rep.rule("C09.R1", "latch: K1 notified_ under mtx_; K2 set on the zero edge before the notify loop; loop until no waiter; K7 wait() table")
    rep.rule("C09.R2", "event: set(): store(true, >=release) -> lock -> notify_all; waiters loop on the flag under the lock")
    rep.rule("C09.R3", "call_once: invoke only after winning the CAS; complete -> set; handler: reset status -> set -> rethrow; losers wait unless complete")
    rep.rule("C09.R5", "waiters park on the condition variable; a waiter that polls through yield_while stays runnable for ever, so the FIFO run-queue "
             "back-end must then rotate between producer streams (else the pollers starve a woken participant: participants > workers)")
    rep.rule("C09.R4", "barrier: completion -> adjust -> phase.store(old+2, release) only for the last arriver; wait polls with acquire; drop before arrive; tickets by acq_rel CAS")

    D = facts(rep, driver("c09_sync.cpp"), [r"^pika::latch::", r"^pika::experimental::event::", r"^pika::call_once$", r"^pika::barrier::"])
    B = facts(rep, lib("synchronization", "src/barrier.cpp"), [r"^pika::detail::barrier_algorithm_base::"])

    def one(q, inst=None):
        fs = [f for f in D.find("^" + q + "$") if (inst is None or f.pattern != inst) and f.parent == -1]
        if not fs:
            raise AnalysisBroken("%s not found" % q)
        return fs

    # ---- R1 latch
    for name in ("count_down", "wait", "arrive_and_wait"):
        fn = one("pika::latch::" + name)[0]
        lf = LockFlow(fn)
        got = check_guarded(rep, "C09.R1", fn, "pika::latch", "notified_", lock_id=LOCK, flow=lf)
        if not got:
            rep.bad("C09.R1", fn, fn.loc, "no-notified", "latch::%s no longer reads/writes notified_: waiters that arrive after the count reached zero block for ever" % name)
            continue
        ff = FactFlow(fn)
        if name in ("count_down", "arrive_and_wait"):
            w = [(b, i, ev) for b, i, ev in fn.all_events() if ev.get("k") == "write" and P(ev["lhs"]) == "this->notified_"]
            if len(w) != 1:
                raise AnalysisBroken("latch::%s: expected one write of notified_" % name)
            b, i, ev = w[0]
            fb = ff.before.get((b, i)) or frozenset()
            U = fn.params[0]["name"] if fn.params else "update"            # the amount to count down by (the parameter's name is free)
            if name == "count_down":
                # the local that receives (counter_ -= n), whatever it is called
                nc = [e for _, _, e in fn.all_events() if e.get("k") == "decl" and e.get("init") is not None and "this->counter_" in T(e["init"]) and "-=" in T(e["init"])]
                NC = nc[0]["var"] if nc else "new_count"
                ini = nc[0]["init"] if nc else None
                zero = ("0 == %s" % NC, True) in fb or ("%s == 0" % NC, True) in fb
                derived = ini is not None and re.search(r"(^|[^\w])%s($|[^\w])" % re.escape(U), T(ini)) is not None
                cond = zero and derived
                why = "%s == 0 where %s = (counter_ -= %s)" % (NC, NC, U)
            else:
                oc = [e for _, _, e in fn.all_events() if e.get("k") == "decl" and e.get("init") is not None and ("this->counter_.fetch_sub(%s" % U) in T(e["init"])]
                OC = oc[0]["var"] if oc else "old_count"
                ini = oc[0]["init"] if oc else None
                last = ("%s < %s" % (U, OC), False) in fb
                derived = ini is not None
                cond = last and derived
                why = "!(%s > %s) where %s = counter_.fetch_sub(%s)" % (OC, U, OC, U)
            if cond and T(strip(ev["rhs"])) == "true":
                rep.ok("C09.R1", fn, "notified_ = true only on the edge %s" % why)
            else:
                rep.bad("C09.R1", fn, loc_of(ev), "notified-edge", "notified_ must be set exactly on the count-reached-zero edge (%s); facts: %s" % (why, sorted(fb)))
            msg = notify_loop_ok(fn, lf, ev)
            if msg is None:
                rep.ok("C09.R1", fn, "notify loop: runs after notified_ is set, re-locks each round, ends only when no waiter is left")
            else:
                rep.bad("C09.R1", fn, fn.loc, "notify-loop", msg)
            nfy = [(bb, ii) for bb, ii, e in fn.all_events() if e.get("k") == "call" and callee_short(e) == "notify_one"]
            if nfy:
                fbn = ff.before.get(nfy[0]) or frozenset()
        if name == "arrive_and_wait":
            wt = [(b, i, ev) for b, i, ev in fn.all_events() if ev.get("k") == "call" and callee_short(ev) == "wait" and "cond_" in P(ev.get("recv"))]
            if len(wt) == 1 and ("%s < %s" % (U, OC), True) in (ff.before.get((wt[0][0], wt[0][1])) or frozenset()):
                rep.ok("C09.R1", fn, "waits exactly when other participants are still missing (%s > %s)" % (OC, U))
            else:
                rep.bad("C09.R1", fn, fn.loc, "arrive-wait", "arrive_and_wait must wait iff the count before the decrement exceeds the decrement")
            fs = [(b, i, ev) for b, i, ev in fn.all_events() if ev.get("k") == "call" and callee_short(ev) == "fetch_sub"]
            if fs and LOCK in (lf.held_before((fs[0][0], fs[0][1])) or frozenset()):
                rep.ok("C09.R1", fn, "the decrement happens under the lock (no notify between decrement and wait)")
            else:
                rep.bad("C09.R1", fn, fn.loc, "decrement-unlocked", "arrive_and_wait decrements outside the lock: the last arriver can notify before this waiter is queued")
        if name == "wait":
            wt = [(b, i, ev) for b, i, ev in fn.all_events() if ev.get("k") == "call" and callee_short(ev) == "wait" and "cond_" in P(ev.get("recv"))]
            if len(wt) != 1:
                raise AnalysisBroken("latch::wait: expected one cond_.wait")
            from engine.core import dominators
            dom = set(dominators(fn).get(wt[0][0], set())) - {wt[0][0]}
            # the test that decides whether to wait dominates the wait (debug assertions after it do not)
            A = [a for b_, a, _ in __import__("engine.kinds", fromlist=["cond_leaves"]).cond_leaves(fn) if "counter_.load(" in a and b_ in dom]
            if not A:
                raise AnalysisBroken("latch::wait: counter test not found")
            A = A[0]
            # atom is '0 < counter' (positive = counter > 0) or 'counter == 0'
            mism = []
            for cpos in (True, False):
                for notified in (True, False):
                    if "== 0" in A or A.startswith("0 =="):
                        env = {A: not cpos, "this->notified_": notified}
                    else:
                        env = {A: cpos, "this->notified_": notified}
                    start = [b for b, blk in fn.blocks.items() if any(e.get("k") == "ctor" and e.get("rec") == "std::unique_lock" for e in blk.events)]
                    paths = eval_walk(fn, start[0], atom_env=env)
                    waits = all(any(e is wt[0][2] for _, _, e in evs) for evs, end in paths)
                    nowait = all(not any(e is wt[0][2] for _, _, e in evs) for evs, end in paths)
                    if cpos and not waits:
                        mism.append(("counter>0", notified, "must wait"))
                    if (not cpos) and notified and not nowait:
                        mism.append(("counter==0", notified, "must not wait"))
            if mism:
                rep.bad("C09.R1", fn, loc_of(wt[0][2]), "wait-table", "latch::wait blocks/does not block on the wrong condition: %s" % mism)
            else:
                rep.ok("C09.R1", fn, "wait(): blocks when counter > 0, returns at once when counter == 0 and notified (4 valuations)")

    # ---- R2 event (set / wait are read with their private helpers set_locked / wait_locked in place)
    DE = facts(rep, driver("c09_sync.cpp"), [r"^pika::latch::", r"^pika::experimental::event::", r"^pika::call_once$", r"^pika::barrier::"],
               flatten=[r"^pika::experimental::event::(set_locked|wait_locked)$"])

    def onee(q):
        fs = [f for f in DE.find("^" + q + "$") if f.parent == -1]
        if not fs:
            raise AnalysisBroken("%s not found" % q)
        return fs[0]
    st = onee("pika::experimental::event::set")
    if st.calls(r"::set_locked$"):
        raise AnalysisBroken("event::set: set_locked could not be flattened")
    stores = [(b, i, ev) for b, i, ev in st.all_events() if ev.get("k") == "call" and callee_short(ev) == "store" and P(ev.get("recv")) == "this->event_"]
    locks = [(b, i, ev) for b, i, ev in st.all_events() if ev.get("k") == "ctor" and ev.get("rec") == "std::unique_lock" and ev.get("var") and
             ev.get("args") and P(ev["args"][0]) == "this->mtx_"]
    na = [(b, i, ev) for b, i, ev in st.all_events() if ev.get("k") == "call" and callee_short(ev) == "notify_all"]
    mo = (stores[0][2].get("mo") or ["memory_order_seq_cst"])[0] if stores else None
    lfs = LockFlow(st)
    if len(stores) == 1 and len(locks) == 1 and len(na) == 1 and T(stores[0][2]["args"][0]) == "true" and \
            mo in ("memory_order_release", "memory_order_seq_cst", "memory_order_acq_rel") and \
            precedes_on_all_paths(st, lambda e: e is stores[0][2], (locks[0][0], locks[0][1])) and \
            precedes_on_all_paths(st, lambda e: e is locks[0][2], (na[0][0], na[0][1])):
        rep.ok("C09.R2", st, "event_.store(true, %s) -> lock mtx_ -> notify_all" % mo)
    else:
        rep.bad("C09.R2", st, st.loc, "set-order", "event::set must publish the flag (store true, >=release) before taking the lock and notifying: a waiter that "
                "checked the flag under the lock and is about to wait would otherwise miss the notification")
    if len(na) == 1 and na[0][2].get("args") and (is_moved(na[0][2]["args"][0]) or derives_from_moved(st, na[0][2]["args"][0])):
        rep.ok("C09.R2", st, "set() notifies all waiters, consuming the lock")
    else:
        rep.bad("C09.R2", st, st.loc, "notify-all", "event::set must notify_all (future and current waiters are all released)")
    wt = onee("pika::experimental::event::wait")
    if wt.calls(r"::wait_locked$"):
        raise AnalysisBroken("event::wait: wait_locked could not be flattened")
    ffw = FactFlow(wt)
    lfw = LockFlow(wt)
    ex = ffw.block_in.get(wt.exit)
    seen_true = lambda fb: any(t and a.startswith("this->event_.load(") for a, t in (fb or ()))
    okw = True
    for b, i, ev in wt.all_events():
        if ev.get("k") == "return" and (b, i) in ffw.before and not seen_true(ffw.before[(b, i)]):
            okw = False
    if okw and ex is not None and seen_true(ex):
        rep.ok("C09.R2", wt, "wait() returns only after event_ was observed true (early return or wait loop)")
    else:
        rep.bad("C09.R2", wt, wt.loc, "wait-loop", "event::wait can return without the event flag having been observed true")
    c = [(b, i, ev) for b, i, ev in wt.all_events() if ev.get("k") == "call" and callee_short(ev) == "wait" and "cond_" in P(ev.get("recv"))]
    if len(c) == 1 and "this->mtx_" in (lfw.held_before((c[0][0], c[0][1])) or frozenset()) and loop_of(wt, c[0][0]) is not None:
        rep.ok("C09.R2", wt, "wait(): cond_.wait in a loop on the flag, with mtx_ held")
    else:
        rep.bad("C09.R2", wt, wt.loc, "wait", "event::wait must either see the flag set or wait on cond_ in a loop with mtx_ held")

    # every park is preceded, under the lock, by a test of the flag: set() publishes the flag *before* it takes the lock and notifies,
    # so a waiter that parks without having looked at the flag after locking can park after the only notification
    for b, i, ev in c:
        tested = precedes_on_all_paths(wt, lambda e: e.get("k") == "call" and callee_short(e) == "load" and P(e.get("recv") or {}) == "this->event_", (b, i),
                                       reset_pred=lambda e: (e.get("k") == "ctor" and e.get("rec") == "std::unique_lock") or
                                       (e.get("k") == "call" and callee_short(e) == "wait" and "cond_" in P(e.get("recv") or {})))
        if tested:
            rep.ok("C09.R2", wt, "wait(): the flag is tested under mtx_ before every park")
        else:
            rep.bad("C09.R2", wt, loc_of(ev), "park-before-test", "event::wait parks in cond_.wait on a path where the flag was not tested since mtx_ was taken (or since the last park): "
                    "set() stores the flag and only then locks and notifies, so a set() that lands between the waiter's unlocked fast-path load and its lock acquisition "
                    "has already notified - the waiter enqueues itself afterwards and sleeps for ever (call_once callers hang although the callable finished)")

    # ---- R3 call_once
    for fn in one("pika::call_once", inst=True):
        ff = FactFlow(fn)
        inv = [(b, i, ev) for b, i, ev in fn.all_events() if ev.get("k") == "call" and (callee_of(ev) == "f" or T(ev).startswith("invoke_impl{f}") or T(ev).startswith("f("))]
        if len(inv) != 1:
            raise AnalysisBroken("call_once: invocation of the callable not found (%d)" % len(inv))
        b, i, ev = inv[0]
        fb = ff.before.get((b, i)) or frozenset()
        won = any(t and a.startswith("flag.status_.compare_exchange_strong(") for a, t in fb)
        if won:
            rep.ok("C09.R3", fn, "the callable is invoked only after winning the compare-exchange on status_")
        else:
            rep.bad("C09.R3", fn, loc_of(ev), "invoke-without-cas", "the callable can be invoked without winning the status_ compare-exchange: it may run twice")
        cas = [e for _, _, e in fn.all_events() if e.get("k") == "call" and callee_short(e) == "compare_exchange_strong"]
        ini = local_init(fn, P(cas[0]["args"][0])) if cas else None
        # the expected value is 0 at *every* execution of the CAS: a failed compare_exchange writes the observed value
        # (e.g. 'running') into the variable, so it is re-initialised between two executions
        fresh0 = False
        if cas:
            var = P(cas[0]["args"][0])
            caspos = [(b2, i2) for b2, i2, e in fn.all_events() if e is cas[0]][0]
            init0 = lambda e, var=var: (e.get("k") == "decl" and e.get("var") == var and not e.get("static") and e.get("init") is not None and T(strip(e["init"])) == "0") or \
                (e.get("k") == "write" and P(e["lhs"]) == var and e.get("op", "=") == "=" and T(strip(e.get("rhs"))) == "0")
            fresh0 = bool(precedes_on_all_paths(fn, init0, caspos, reset_pred=lambda e: e is cas[0]))
        anyinit0 = bool(cas) and any(init0(e) for _, _, e in fn.all_events())
        if cas and anyinit0 and P(cas[0]["args"][1]) == "running_value" and not fresh0:
            rep.bad("C09.R3", fn, loc_of(cas[0]), "cas-expected-stale", "the expected value of the entry compare-exchange is not reset to 0 between two attempts: after a failed "
                    "attempt it holds 'running', so a retry succeeds (running -> running) while another caller is executing the callable - the callable runs twice, concurrently")
        elif cas and fresh0 and P(cas[0]["args"][1]) == "running_value":
            rep.ok("C09.R3", fn, "CAS is 0 -> running")
        else:
            rep.bad("C09.R3", fn, fn.loc, "cas-values", "the entry compare-exchange must be 0 -> running")
        blk = fn.blocks[b]
        tail = blk.events[i + 1:]
        st_i = [k for k, e in enumerate(tail) if e.get("k") == "call" and callee_short(e) == "store" and P(e.get("recv")) == "flag.status_"]
        se_i = [k for k, e in enumerate(tail) if e.get("k") == "call" and callee_short(e) == "set" and P(e.get("recv")) == "flag.event_"]
        if len(st_i) == 1 and len(se_i) == 1 and st_i[0] < se_i[0] and P(tail[st_i[0]]["args"][0]) == "function_complete_flag_value":
            rep.ok("C09.R3", fn, "normal path: invoke -> status_.store(complete) -> event_.set()")
        else:
            rep.bad("C09.R3", fn, loc_of(ev), "complete-order", "after the call, 'complete' must be stored and then the event set (waiters would otherwise hang or return early)")
        # handler
        hb = [h["block"] for t in fn.tries.values() for h in t["handlers"]]
        if not hb:
            rep.bad("C09.R3", fn, fn.loc, "no-handler", "an exception from the callable leaves status_ == running for ever: all other callers hang")
        else:
            evs = []
            cur = hb[0]
            seen = set()
            while cur is not None and cur not in seen:
                seen.add(cur)
                evs += fn.blocks[cur].events
                s = fn.succs(cur)
                cur = s[0][1] if len(s) == 1 else None
            names = [(callee_short(e) if e.get("k") == "call" else e.get("k")) + ":" + (P(e.get("recv")) if e.get("recv") else "") for e in evs if e.get("k") in ("call", "throw")]
            try:
                i0 = names.index("store:flag.status_")
                i1 = names.index("set:flag.event_")
                i2 = names.index("throw:")
                good = i0 < i1 < i2 and T([e for e in evs if e.get("k") == "call" and callee_short(e) == "store"][0]["args"][0]) == "0"
            except ValueError:
                good = False
            if good:
                rep.ok("C09.R3", fn, "handler: status_.store(0) -> event_.set() -> rethrow (another caller retries)")
            else:
                rep.bad("C09.R3", fn, fn.loc, "handler-order", "the exception handler must reset status_ to 0, set the event and rethrow (found %s)" % names)
        # the event protocol of one attempt: the winner re-arms the event (reset) before it runs the callable, and whoever ends the attempt sets it - a
        # reset after that set (in the same attempt) takes the wake-up back before the woken callers have re-tested the flag: they sleep for ever
        is_set = lambda e: e.get("k") == "call" and callee_short(e) == "set" and P(e.get("recv")) == "flag.event_"
        is_rst = lambda e: e.get("k") == "call" and callee_short(e) == "reset" and P(e.get("recv")) == "flag.event_"
        sets_ = set((b2, i2) for b2, i2, e in fn.all_events() if is_set(e))
        after_set, _, _ = forward(fn, frozenset(), lambda st, e, pos: st | {"set"} if pos in sets_ else (frozenset() if (e.get("k") == "call" and callee_short(e) == "compare_exchange_strong") else st),
                                  None, lambda a, b2: a | b2)
        late = [e for b2, i2, e in fn.all_events() if is_rst(e) and "set" in (after_set.get((b2, i2)) or ())]
        if late:
            rep.bad("C09.R3", fn, loc_of(late[0]), "wakeup-withdrawn", "call_once resets the event after setting it within one attempt: event::set only makes the waiters runnable, each re-tests "
                    "the flag when it runs - the reset lands first, they block again and (status_ is back to 0, nobody is running) nothing ever sets the event: callers blocked "
                    "during a throwing attempt never return and never retry")
        else:
            rep.ok("C09.R3", fn, "the event is never reset after it was set within one attempt")
        if precedes_on_all_paths(fn, is_rst, (b, i), reset_pred=lambda e: e.get("k") == "call" and callee_short(e) == "compare_exchange_strong", eh=False):
            rep.ok("C09.R3", fn, "the winner re-arms the event before running the callable")
        else:
            rep.bad("C09.R3", fn, loc_of(ev), "event-not-rearmed", "the winner of the compare-exchange does not reset the event before it runs the callable: after an attempt that threw, the event "
                    "is still set, so callers that should block while the retry runs return from event_.wait() at once and spin on the flag (with as many spinners as workers the "
                    "retry - a suspended task - never gets a worker)")
        w = [(b2, i2, e) for b2, i2, e in fn.all_events() if e.get("k") == "call" and callee_short(e) == "wait" and P(e.get("recv")) == "flag.event_"]
        if len(w) == 1:
            fbw = ff.before.get((w[0][0], w[0][1])) or frozenset()
            lost = any((not t) and a.startswith("flag.status_.compare_exchange_strong(") for a, t in fbw)
            notdone = any((not t) and "function_complete_flag_value" in a and "status" in a for a, t in fbw)
            if lost and notdone:
                rep.ok("C09.R3", fn, "losers wait on the event only when the call is not complete")
            else:
                rep.bad("C09.R3", fn, loc_of(w[0][2]), "loser-wait", "a caller that lost the CAS must wait only if status != complete (lost: %s, not complete: %s)" % (lost, notdone))
        else:
            rep.bad("C09.R3", fn, fn.loc, "no-wait", "callers that lost the race do not wait for the running call to finish")
        ex = ff.block_in.get(fn.exit)

    # ---- R4 barrier
    for fn in one("pika::barrier::arrive", inst=True):
        ff = FactFlow(fn)
        ps = [(b, i, ev) for b, i, ev in fn.all_events() if ev.get("k") == "call" and callee_short(ev) == "store" and P(ev.get("recv")) == "this->phase"]
        if len(ps) != 1:
            raise AnalysisBroken("barrier::arrive: expected one phase.store")
        b, i, ev = ps[0]
        fb = ff.before.get((b, i)) or frozenset()
        mo = (ev.get("mo") or ["memory_order_seq_cst"])[0]
        compl = [(bb, ii, e) for bb, ii, e in fn.all_events() if e.get("k") == "call" and "this->completion" in T(e) and e.get("op") == "()"]
        # the 'last arriver' fact mentions this->expected and is (correctly) dropped when expected is adjusted, so it
        # is read at the completion call, which in turn must precede the store on every path since base.arrive()
        last = bool(compl) and any(t and a.startswith("this->base.arrive(") for a, t in (ff.before.get((compl[0][0], compl[0][1])) or frozenset()))
        order = compl and precedes_on_all_paths(fn, lambda e: e is compl[0][2], (b, i), reset_pred=lambda e: e.get("k") == "call" and callee_short(e) == "arrive" and "base" in P(e.get("recv")))
        adj = precedes_on_all_paths(fn, lambda e: e.get("k") == "write" and P(e["lhs"]) == "this->expected", (b, i),
                                    reset_pred=lambda e: e.get("k") == "call" and callee_short(e) == "arrive" and "base" in P(e.get("recv")))
        val = T(strip(ev["args"][0]))
        if last and order and adj and mo in ("memory_order_release", "memory_order_seq_cst", "memory_order_acq_rel") and val in ("(old_phase + 2)", "(2 + old_phase)"):
            rep.ok("C09.R4", fn, "last arriver: completion() -> expected adjusted -> phase.store(old_phase + 2, %s)" % mo)
        else:
            rep.bad("C09.R4", fn, loc_of(ev), "phase-advance", "the phase must be advanced (old_phase + 2, >=release) only by the last arriver and only after the completion "
                    "function ran and the expected count was adjusted (last: %s, completion first: %s, adjusted first: %s, value %s, order %s)"
                    % (last, bool(order), bool(adj), val, mo))
        if compl and any(t and a.startswith("this->base.arrive(") for a, t in (ff.before.get((compl[0][0], compl[0][1])) or frozenset())):
            rep.ok("C09.R4", fn, "completion() runs only for the last arriver of the phase")
        else:
            rep.bad("C09.R4", fn, fn.loc, "completion-guard", "the completion function is not restricted to the last arriver (it would run more than once per phase)")
    for fn in one("pika::barrier::wait", inst=True):
        lams = fn.lambdas()
        good = False
        for lam in lams:
            for _, _, e in lam.all_events():
                if e.get("k") == "return" and e.get("e") is not None:
                    a, pos = cond_atoms(e["e"])
                    loads = [x for _, _, x in lam.all_events() if x.get("k") == "call" and callee_short(x) == "load" and P(x.get("recv")) == "this->phase"]
                    if pos and "this->phase.load(" in a and "old_phase" in a and loads and (loads[0].get("mo") or [""])[0] in ("memory_order_acquire", "memory_order_seq_cst"):
                        good = True
        yw = [e for _, _, e in fn.all_events() if e.get("k") == "call" and callee_short(e) == "yield_while"]
        if good and yw:
            rep.ok("C09.R4", fn, "wait polls phase with acquire order until it differs from the arrival token")
        else:
            rep.bad("C09.R4", fn, fn.loc, "wait-poll", "barrier::wait must poll 'phase.load(acquire) == old_phase' until false")
        # every way out of wait() has seen the poll fail (= the phase advanced): the untimed yield_while returned, or the
        # bounded busy wait reported success (yield_while_timeout returns true when the predicate became false, false on timeout)
        flow = FactFlow(fn)

        def tr_(st, ev, pos):
            if ev.get("k") == "call" and callee_short(ev) == "yield_while":
                return frozenset()
            return st

        def ed_(st, blk, lab, cond):
            if blk.term.get("noreturn"):
                return None
            if st and any(t and "yield_while_timeout(" in a for a, t in flow.edge_facts(blk, lab)):
                return frozenset()
            return st
        _, bin_, _ = forward(fn, frozenset(["unchecked"]), tr_, edge=ed_)
        at_exit = bin_.get(fn.exit)
        if at_exit is None:
            raise AnalysisBroken("barrier::wait has no reachable exit")
        if "unchecked" in at_exit:
            rep.bad("C09.R4", fn, fn.loc, "wait-early-exit", "barrier::wait can return on a path on which neither the untimed poll loop returned nor the "
                    "bounded busy wait reported that the phase advanced (a timed-out busy wait must fall back to the untimed wait): a participant "
                    "leaves the phase before all expected participants arrived")
        else:
            rep.ok("C09.R4", fn, "every exit of wait() follows a poll that saw the phase advance (busy-wait success or the untimed poll loop)")
    for fn in one("pika::barrier::arrive_and_drop", inst=True):
        fs = [(b, i, ev) for b, i, ev in fn.all_events() if ev.get("k") == "call" and callee_short(ev) == "fetch_sub" and P(ev.get("recv")) == "this->expected_adjustment"]
        ar = [(b, i, ev) for b, i, ev in fn.all_events() if ev.get("k") == "call" and callee_short(ev) == "arrive"]
        if len(fs) == 1 and len(ar) == 1 and precedes_on_all_paths(fn, lambda e: e is fs[0][2], (ar[0][0], ar[0][1])):
            rep.ok("C09.R4", fn, "arrive_and_drop registers the adjustment before arriving")
        else:
            rep.bad("C09.R4", fn, fn.loc, "drop-order", "arrive_and_drop must decrement expected_adjustment before arrive(): otherwise the next phase still expects the dropped participant")
    ba = [f for f in B.find(r"barrier_algorithm_base::arrive$") if not f.pattern]
    if not ba:
        raise AnalysisBroken("barrier_algorithm_base::arrive not found")
    ba = ba[0]
    # operations on a ticket's phase word, directly or through a local reference bound to it
    from engine.kinds import derives_from
    mods = [(b, i, ev) for b, i, ev in ba.all_events() if ev.get("k") == "call" and ev.get("recv") is not None and callee_of(ev).startswith(("std::atomic", "std::__atomic")) and
            derives_from(ba, ev["recv"], lambda t: t.endswith(".phase")) and callee_short(ev) not in ("load",)]
    bad = [ev for b, i, ev in mods if callee_short(ev) != "compare_exchange_strong" or (ev.get("mo") or [""])[0] not in ("memory_order_acq_rel", "memory_order_seq_cst")]
    if mods and not bad:
        rep.ok("C09.R4", ba, "ticket phases change only through compare_exchange_strong(acq_rel) (%d sites)" % len(mods))
    else:
        rep.bad("C09.R4", ba, loc_of(bad[0]) if bad else ba.loc, "ticket-cas", "tree tickets must only be modified by compare_exchange_strong with >=acq_rel")

    # ---- R5: how the waiters block.  A waiter that parks (condition_variable::wait) leaves the run queues; a waiter that
    # polls through util::yield_while* stays runnable and is re-enqueued by its worker after every poll, for as long as
    # the tasks it waits for have not run.  With more participants than workers those tasks sit in the same run queues,
    # so a polling waiter is only live if the run queue hands out elements of *other* producers while the pollers are
    # re-enqueued continuously.  The queue side is decided from the back-end the FIFO policies use.
    Q = facts(rep, driver("c17_queues.cpp"), [r"^pika::threads::detail::lockfree_fifo_backend::pop$", r"ConcurrentQueue::try_dequeue$"])
    pops = [f for f in Q.find(r"^pika::threads::detail::lockfree_fifo_backend::pop$", pattern=False) if f.parent == -1]
    if not pops:
        raise AnalysisBroken("lockfree_fifo_backend::pop not instantiated")
    deq = [e for _, _, e in pops[0].all_events() if e.get("k") == "call" and P(e.get("recv")) == "this->queue_"]
    if len(deq) != 1:
        raise AnalysisBroken("lockfree_fifo_backend::pop: expected one container operation")
    deq = deq[0]
    fair, why = True, "%s(%d args)" % (callee_short(deq), len(deq.get("args") or []))
    if "ConcurrentQueue" in callee_of(deq) and callee_short(deq).startswith("try_dequeue"):
        # token-less dequeue: the producer stream is chosen afresh on every call; it is fair only if the choice keeps state
        # (the consumer-token overload rotates after a quota).  Decide from the body that is actually called.
        nargs = len(deq.get("args") or [])
        body = [f for f in Q.find(r"ConcurrentQueue::%s$" % callee_short(deq), pattern=False) if f.parent == -1 and len(f.params) == nargs]
        if not body:
            raise AnalysisBroken("ConcurrentQueue::%s/%d not instantiated" % (callee_short(deq), nargs))
        body = body[0]
        stateful = [e for _, _, e in body.all_events() if (e.get("k") == "write" and (P(e["lhs"]).startswith("this->") or P(e["lhs"]).startswith("token"))) or
                    (e.get("k") == "call" and callee_short(e) in ("fetch_add", "store", "exchange") and (P(e.get("recv")).startswith("this->") or P(e.get("recv")).startswith("token")))]
        picks = [a for _, a, _ in __import__("engine.kinds", fromlist=["cond_leaves"]).cond_leaves(body) if "bestSize" in a or "size_approx" in a]
        if not stateful:
            fair = False
            why = ("lockfree_fifo_backend::pop -> %s: the producer stream is chosen by a stateless scan of the producer list (%s; ties go to list "
                   "order) - no rotation, so a stream that is refilled after every pop is chosen for ever" % (callee_of(deq), ", ".join(sorted(set(picks))[:2]) or "size heuristic"))
        else:
            why = "%s keeps consumer state (rotates between producer streams)" % callee_of(deq)
    rep.ok("C09.R5", pops[0], "FIFO run-queue back-end: " + (why if fair else "not producer-fair"))

    def blocking(fn):
        """(parks, polls) call events reachable in fn itself (and its lambdas)."""
        parks, polls = [], []
        for f in [fn] + list(fn.lambdas()):
            for _, _, e in f.all_events():
                if e.get("k") != "call":
                    continue
                cs = callee_short(e)
                if cs in ("wait", "wait_until", "wait_for") and ("cond_" in P(e.get("recv")) or "event_" in P(e.get("recv"))):
                    parks.append(e)
                elif cs in ("wait_locked",):
                    parks.append(e)
                elif cs.startswith("yield_while") or cs in ("yield_k", "yield"):
                    polls.append(e)
        return parks, polls

    waiters = [("pika::latch::wait", None), ("pika::latch::arrive_and_wait", None), ("pika::experimental::event::wait", None),
               ("pika::call_once", True), ("pika::barrier::wait", True)]
    for q, inst in waiters:
        for fn in one(q, inst=inst)[:1]:
            parks, polls = blocking(fn)
            if not parks and not polls:
                raise AnalysisBroken("%s: neither a parking nor a polling wait found" % q)
            if polls and not fair:
                rep.bad("C09.R5", fn, loc_of(polls[0]), "polling-wait:unfair-run-queue",
                        "%s waits for other tasks by polling (%s): the waiter stays runnable and its worker re-enqueues it after every poll, while %s. "
                        "With more participants than workers a participant that was woken by another worker (e.g. out of a latch) is never dequeued "
                        "again, never arrives, and the pollers never stop (livelock; demonstration: findings/C09-polling-wait-starvation)"
                        % (q, T(polls[0])[:60], why))
            elif polls:
                rep.ok("C09.R5", fn, "%s polls through %s; the run queue is producer-fair (%s)" % (q, callee_short(polls[0]), why))
            else:
                rep.ok("C09.R5", fn, "%s parks on the condition variable/event (%d site(s)): the waiter leaves the run queues" % (q, len(parks)))
