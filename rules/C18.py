# C18 — type-erased senders and functions behave like what they wrap (structural part; DESIGN.md §5 C18)
import re
from engine.core import forward, is_moved, AnalysisBroken, P, T, callee_of, callee_short, cond_atoms, loc_of, strip, block_path
from engine.kinds import FactFlow, CountFlow, precedes_on_all_paths, always_followed_by, eval_walk
from .common import facts, lib, driver, witness

EXPLANATION = (
    "Static analysis of the current source. Decided: the storage of (unique_)any_sender releases a previous object "
    "before storing a new one, release() destroys the object exactly once and marks the storage empty, every move "
    "path takes the heap object over, nulls the source's pointer and marks the source empty, move assignment releases "
    "the target first and is a no-op for self assignment, the destructor releases iff non-empty, copies clone (R1); the "
    "'empty' vtable objects report empty and their connect throws bad_any_call (noreturn), (unique_)any_sender::connect "
    "forwards to the stored object (R2); function_base destroys its target iff it has one, reset = destroy + empty "
    "vtable + null object, the move constructor empties its source, and inline-stored callables must be relocated "
    "through a typed operation, never byte-wise (R3); unique_* wrappers are move-only, the others copyable, "
    "unique_any_sender does not convert to any_sender (R4). Not decided: observational equivalence of wrapped and "
    "unwrapped executions.")
ASSUMPTIONS = ["the default configuration (PIKA_DETAIL_ENABLE_ANY_SENDER_SBO off) stores every sender on the heap; the embedded-storage configuration is analysed in the thorough tier"]
FLOORS = {"C18.R1": 10, "C18.R2": 4, "C18.R3": 4, "C18.R4": 7, "C18.R5": 1, "C18.R6": 6, "C18.R7": 2, "C18.R8": 3}

MS = "pika::detail::movable_sbo_storage"
CS = "pika::detail::copyable_sbo_storage"
FB = "pika::util::detail::function_base"


def storage_rules(rep, D, cfg):
    def inst(q):
        fs = [f for f in D.find("^" + q + "$") if not f.pattern and f.parent == -1]
        if not fs:
            raise AnalysisBroken("%s not instantiated%s" % (q, cfg))
        return fs
    tag = "" if not cfg else " [%s]" % cfg.strip()
    for fn in inst(MS + "::store"):
        ff = FactFlow(fn)
        news = [(b, i, ev) for b, i, ev in fn.all_events() if ev.get("k") == "new"]
        rel = lambda e: e.get("k") == "call" and callee_short(e) == "release"
        ok = news and all(("this->empty()", True) in (ff.before.get((b, i)) or frozenset()) or precedes_on_all_paths(fn, rel, (b, i)) for b, i, ev in news)
        # path-sensitive: on the !empty edge release() precedes the allocation
        fbs = [ff.before.get((b, i)) or frozenset() for b, i, ev in news]
        rl = [(b, i, ev) for b, i, ev in fn.all_events() if rel(ev)]
        guarded = rl and all(("this->empty()", False) in (ff.before.get((b, i)) or frozenset()) for b, i, ev in rl)
        setobj = [(b, i, ev) for b, i, ev in fn.all_events() if ev.get("k") == "write" and P(ev["lhs"]) == "this->object"]
        if news and guarded and setobj:
            rep.ok("C18.R1", fn, "store%s: a previous object is released first; object points at the new one" % tag)
        else:
            rep.bad("C18.R1", fn, fn.loc, "store" + tag, "store() must release a previously stored object (if (!empty()) release()) before creating the new one and publish it in 'object' (otherwise the old object leaks / is never destroyed)")
    for fn in inst(MS + "::release"):
        dels = [ev for _, _, ev in fn.all_events() if ev.get("k") == "delete"]
        dtors = [ev for _, _, ev in fn.all_events() if ev.get("k") == "call" and callee_short(ev).startswith("~")]
        cf = CountFlow(fn, lambda ev, pos: 1 if (ev.get("k") == "delete" or (ev.get("k") == "call" and callee_short(ev).startswith("~"))) else 0)
        rv = CountFlow(fn, lambda ev, pos: 1 if (ev.get("k") == "call" and callee_short(ev) == "reset_vtable") else 0)
        nulls = [ev for _, _, ev in fn.all_events() if ev.get("k") == "write" and P(ev["lhs"]) == "this->heap_storage" and T(strip(ev["rhs"])) == "nullptr"]
        if cf.exits == frozenset([1]) and rv.exits == frozenset([1]) and (not dels or nulls):
            rep.ok("C18.R1", fn, "release%s: destroys exactly once (delete / destructor), nulls the pointer, resets the vtable" % tag)
        else:
            rep.bad("C18.R1", fn, fn.loc, "release" + tag, "release() must destroy the stored object exactly once (%s) and mark the storage empty (%s)" % (sorted(cf.exits), sorted(rv.exits)))
    for fn in inst(MS + "::move_assign"):
        ff = FactFlow(fn)
        if len(fn.params) != 1:
            raise AnalysisBroken("move_assign: expected one parameter (the source storage)")
        OTH = fn.params[0]["name"]           # the source storage (the parameter's name is free)
        take = [(b, i, ev) for b, i, ev in fn.all_events() if ev.get("k") == "write" and P(ev["lhs"]) == "this->heap_storage" and P(ev["rhs"]) == OTH + ".heap_storage"]
        probs = []
        if not take:
            probs.append("does not take over the heap object")
        for b, i, ev in take:
            if always_followed_by(fn, (b, i), lambda e: e.get("k") == "write" and P(e["lhs"]) == OTH + ".heap_storage" and T(strip(e["rhs"])) == "nullptr"):
                probs.append("the source keeps its pointer to the object (double delete)")
            if always_followed_by(fn, (b, i), lambda e: e.get("k") == "call" and callee_short(e) == "reset_vtable" and P(e.get("recv")) == OTH):
                probs.append("the moved-from storage is not marked empty (it still reports a sender and destroys it again)")
            if always_followed_by(fn, (b, i), lambda e: e.get("k") == "write" and P(e["lhs"]) == "this->object"):
                probs.append("'object' is not updated")
        mv = [(b, i, ev) for b, i, ev in fn.all_events() if ev.get("k") == "call" and callee_short(ev) == "move_into"]
        for b, i, ev in mv:
            if always_followed_by(fn, (b, i), lambda e: e.get("k") == "call" and callee_short(e) == "reset_vtable" and P(e.get("recv")) == OTH):
                probs.append("the moved-from embedded storage is not marked empty")
            if always_followed_by(fn, (b, i), lambda e: e.get("k") == "call" and (callee_short(e).startswith("~") or callee_short(e) == "release")):
                probs.append("the moved-from object in the source's embedded storage is never destroyed (move_into constructs a new object; the source only resets its vtable)")
        if probs:
            rep.bad("C18.R1", fn, fn.loc, "move_assign" + tag + (":embedded-leak" if any("embedded storage is never destroyed" in p for p in probs) and len(probs) == 1 else ""), "move_assign: " + "; ".join(sorted(set(probs))))
        else:
            rep.ok("C18.R1", fn, "move_assign%s: takes the object over, nulls the source pointer, marks the source empty" % tag)
    ops = [f for f in D.find("^" + MS + "::operator=$") if not f.pattern and f.parent == -1]
    for fn in ops:
        ff = FactFlow(fn)
        ma = [(b, i, ev) for b, i, ev in fn.all_events() if ev.get("k") == "call" and callee_short(ev) == "move_assign"]
        rl = [(b, i, ev) for b, i, ev in fn.all_events() if ev.get("k") == "call" and callee_short(ev) == "release"]
        selfchk = ma and any((not t) and "this" in a and "other" in a and "==" in a for a, t in (ff.before.get((ma[0][0], ma[0][1])) or frozenset()))
        relfirst = rl and ma and all(("this->empty()", False) in (ff.before.get((b, i)) or frozenset()) for b, i, ev in rl)
        # on the non-empty path release precedes move_assign: release is the only event between the test and move_assign
        if ma and selfchk and relfirst:
            rep.ok("C18.R1", fn, "operator=(&&)%s: self-assignment excluded, old object released before taking the new one" % tag)
        else:
            rep.bad("C18.R1", fn, fn.loc, "move-assign-op" + tag, "move assignment must exclude self assignment (%s) and release the held object before move_assign (%s)" % (bool(selfchk), bool(relfirst)))
    for fn in [f for f in D.find("^" + MS + "::~movable_sbo_storage$") if not f.pattern]:
        ff = FactFlow(fn)
        rl = [(b, i, ev) for b, i, ev in fn.all_events() if ev.get("k") == "call" and callee_short(ev) == "release"]
        if len(rl) == 1 and ("this->empty()", False) in (ff.before.get((rl[0][0], rl[0][1])) or frozenset()):
            rep.ok("C18.R1", fn, "destructor%s releases iff non-empty" % tag)
        else:
            rep.bad("C18.R1", fn, fn.loc, "dtor" + tag, "the storage destructor must release a held object (and only then)")
    # copy assignment of the copyable storage: whatever the source holds (including nothing), a target that is not
    # the source itself gives up the object it held - on every path that is not the self-assignment and on which
    # *this is non-empty, release() (or the base's move assignment, which releases) is executed
    cops = [f for f in D.find("^" + CS + "::operator=$") if not f.pattern and f.parent == -1 and f.raw.get("params")
            and "const" in str(f.raw["params"][0].get("type", "")) and not str(f.raw["params"][0].get("type", "")).rstrip().endswith("&&")]
    if not cops:
        raise AnalysisBroken("copyable_sbo_storage::operator=(const&) not instantiated%s" % cfg)
    for fn in cops:
        gives_up = lambda e: e.get("k") == "call" and (callee_short(e) == "release" or callee_of(e) == MS + "::operator=") and \
            P(e.get("recv")) in ("this", "*this", "")
        bad_paths = []
        npaths = 0
        for other_empty in (True, False):
            env = {"&other == this": False, "this == &other": False, "this->empty()": False, "other.empty()": other_empty}
            for evs, end in eval_walk(fn, fn.entry, atom_env=env):
                npaths += 1
                if end in ("return", "exit") and not any(gives_up(e) for _, _, e in evs):
                    bad_paths.append(other_empty)
        if not bad_paths:
            rep.ok("C18.R1", fn, "operator=(const&)%s: a non-empty target releases its object on every non-self path (%d paths, source empty or not)" % (tag, npaths), sites=npaths)
        else:
            rep.bad("C18.R1", fn, fn.loc, "copy-assign-op" + tag, "copy assignment leaves the previously held object in place when the source is %s: the target "
                    "stays non-empty and still completes with its old sender instead of becoming a copy of the source"
                    % " / ".join("empty" if x else "non-empty" for x in sorted(set(bad_paths))))
    for fn in [f for f in D.find("^" + CS + "::copy_assign$") if not f.pattern and f.parent == -1]:
        cl = [ev for _, _, ev in fn.all_events() if ev.get("k") == "call" and callee_short(ev) in ("clone", "clone_into")]
        if cl:
            rep.ok("C18.R1", fn, "copy_assign%s clones the stored object (copies are independent)" % tag)
        else:
            rep.bad("C18.R1", fn, fn.loc, "copy" + tag, "copying must clone the stored object; sharing the pointer makes copies dependent and double-deletes")


def run(rep, tier):
    rep.rule("C18.R1", "K3/K8: sbo storage: store releases first; release destroys once + empty; moves null/empty the source; op= releases first, no self; dtor; copy clones")
    rep.rule("C18.R2", "K6: empty vtables: empty() true, connect noreturn -> throw_bad_any_call; wrappers forward connect to the stored object")
    rep.rule("C18.R3", "K3/K8: function_base: destroy iff object; reset = destroy + empty + null; move ctor empties the source; no byte-wise relocation of inline callables")
    rep.rule("C18.R4", "K9: unique_* move-only, others copyable, no unique->copyable conversion")

    sel = [r"^pika::detail::(movable|copyable)_sbo_storage::", r"^pika::execution::experimental::detail::empty_", r"^pika::execution::experimental::detail::throw_bad_any_call$",
           r"^pika::execution::experimental::(unique_any_sender|any_sender)::connect$", r"^pika::execution::experimental::unique_any_sender::", r"^pika::execution::experimental::any_sender::",
           r"^pika::execution::experimental::detail::any_operation_state"]
    D = facts(rep, driver("c18_erasure.cpp"), sel)
    storage_rules(rep, D, "")
    if tier == "thorough":
        D2 = facts(rep, driver("c18_erasure.cpp"), sel, extra=["-DPIKA_DETAIL_ENABLE_ANY_SENDER_SBO"])
        storage_rules(rep, D2, " PIKA_DETAIL_ENABLE_ANY_SENDER_SBO")

    # ---- R5: the type-erased receiver turns a throwing hand-over of the values into set_error
    rep.rule("C18.R5", "K6: any_receiver::set_value passes the values to a virtual member that takes them *by value*: their copy/move happens in the caller and "
             "may throw (a sender that sends const references, a throwing copy constructor); the forwarding call therefore sits in a try block whose handler "
             "completes the wrapped receiver with set_error - exactly what the unerased pipeline does - instead of escaping from a noexcept function (terminate)")
    AR = facts(rep, driver("c18_erasure.cpp"), [r"^pika::execution::experimental::detail::any_receiver::set_value$"])
    ars = [f for f in AR.find(r"any_receiver::set_value$") if f.parent == -1]
    if not ars:
        raise AnalysisBroken("any_receiver::set_value not found")
    n5 = 0
    for f in ars:
        fw = [(b, i, e) for b, i, e in f.all_events() if e.get("k") == "call" and callee_short(e) == "set_value"]
        if not fw:
            if f.pattern and not any(True for _ in f.all_events()):
                continue
            raise AnalysisBroken("%s: forwarding set_value call not found" % f.full)
        for b, i, e in fw:
            n5 += 1
            tid = e.get("try")
            hs = (f.tries.get(tid) or {}).get("handlers", []) if tid is not None else []
            errs = False
            for h in hs:
                seen, work = set(), [h["block"]]
                while work:
                    v = work.pop()
                    if v in seen or v not in f.blocks:
                        continue
                    seen.add(v)
                    if any(x.get("k") == "call" and callee_short(x) == "set_error" for x in f.blocks[v].events):
                        errs = True
                    work += [t for _, t in f.succs(v)]
            if tid is not None and errs:
                rep.ok("C18.R5", f, "the forwarding set_value call is guarded; the handler completes with set_error")
            else:
                rep.bad("C18.R5", f, loc_of(e), "erased-set_value-unguarded", "any_receiver::set_value forwards the values to the by-value virtual outside a try block that ends in "
                        "set_error (%s): a throwing copy/move of a value at the erasure boundary terminates the program where the unwrapped sender completes "
                        "with set_error" % ("no try block" if tid is None else "handler does not call set_error"))
    if n5 < 1:
        raise AnalysisBroken("C18.R5: no forwarding call examined")

    # ---- R6: every forwarding layer of the erasure forwards, exactly once, through its own channel
    rep.rule("C18.R7", "K9 (value category is preserved through the forwarding members): reset(Sender&&) of any_sender / unique_any_sender is a forwarding function; in the "
             "instantiations where the argument is an lvalue (Sender = any_sender&, any_sender const&) the wrapper is *copied* - the assignment / store it reaches takes "
             "the argument as an lvalue - and the caller's wrapper keeps its sender ('copies of a copyable wrapper are independent'); only the rvalue instantiations move")
    rep.rule("C18.R8", "K2 (typestate of the wrapper across a throwing assignment): function_base::op_assign(copy) and basic_function::assign(F&&) destroy the old target and then "
             "construct the new one, which can throw (allocation, the target's copy / move constructor). While the old target is destroyed but 'object' still points at it "
             "(after destroy() without reset, after an explicit ~T(), inside copy(.., destroy = true)) no operation that can throw runs outside a try block, and every handler "
             "reaches its rethrow with object == nullptr: otherwise the wrapper's destructor destroys the dead target again (or a target of the wrong type)")
    rep.rule("C18.R6", "K3: the type-erased layers change nothing observable: any_receiver::set_error / set_stopped and any_receiver_ref::set_value / set_error / set_stopped call the "
             "same member of what they wrap exactly once on every path; any_operation_state_holder_impl::start, any_operation_state_holder::start and any_operation_state::start "
             "start the operation they hold exactly once - a layer that drops the call leaves the wrapped pipeline without a completion / never started")
    FW = facts(rep, driver("c18_erasure.cpp"), [r"^pika::execution::experimental::detail::any_receiver(_ref)?::set_(value|error|stopped)$",
                                                r"^pika::execution::experimental::detail::any_operation_state(_holder|_holder_impl)?::start$",
                                                r"^pika::execution::experimental::detail::any_operation_state_holder::start$"])
    FWC = facts(rep, lib("execution_base", "src/any_sender.cpp"), [r"any_operation_state_holder::start$"])
    n6 = 0
    seen6 = set()
    for Fx in (FW, FWC):
        for f in Fx.fns:
            if f.parent != -1:
                continue
            short = f.qname.rsplit("::", 1)[-1]
            cls = f.qname.rsplit("::", 2)[-2] if f.qname.count("::") >= 2 else ""
            if not (cls.startswith("any_receiver") or cls.startswith("any_operation_state")):
                continue
            key6 = (f.qname, f.pattern)
            if key6 in seen6 or (cls == "any_receiver" and short == "set_value"):
                continue            # any_receiver::set_value is decided by R5 (guarded forwarding)
            seen6.add(key6)
            if not any(True for _ in f.all_events()) and f.pattern:
                continue
            same = lambda e, short=short: e.get("k") == "call" and (callee_short(e) == short or callee_of(e).endswith("::" + short)) and (e.get("recv") is not None or callee_of(e).startswith("pika::execution::experimental::"))
            cf = CountFlow(f, lambda e, pos, same=same: 1 if same(e) else 0)
            n6 += 1
            if cf.exits == frozenset([1]):
                rep.ok("C18.R6", f, "%s::%s forwards to the wrapped %s exactly once" % (cls, short, short))
            else:
                rep.bad("C18.R6", f, f.loc, "forward:%s::%s" % (cls, short), "%s::%s calls %s of what it wraps %s times depending on the path (expected exactly once): the wrapped "
                        "receiver is never completed / the held operation never started" % (cls, short, short, sorted(cf.exits)))
    if n6 < 6:
        raise AnalysisBroken("C18.R6 examined only %d forwarding members" % n6)

    # ---- R2
    for cls, what in (("empty_unique_any_sender", "unique_any_sender"), ("empty_any_sender", "any_sender")):
        fs = [f for f in D.find(r"^pika::execution::experimental::detail::%s::" % cls) if not f.pattern and f.parent == -1]
        em = [f for f in fs if f.qname.endswith("::empty")]
        co = [f for f in fs if f.qname.endswith("::connect")]
        if not em or not co:
            raise AnalysisBroken("%s: empty()/connect() not instantiated" % cls)
        rets = [e for _, _, e in em[0].all_events() if e.get("k") == "return"]
        if rets and T(strip(rets[0]["e"])) == "true":
            rep.ok("C18.R2", em[0], "%s::empty() returns true" % cls)
        else:
            rep.bad("C18.R2", em[0], em[0].loc, cls + ":empty", "the empty vtable object must report empty() == true")
        for fn in co:
            thr = [e for _, _, e in fn.all_events() if e.get("k") == "call" and callee_short(e) == "throw_bad_any_call"]
            normal = [e for _, _, e in fn.all_events() if e.get("k") == "return"]
            if thr and not normal and fn.raw.get("noreturn"):
                rep.ok("C18.R2", fn, "%s::connect is [[noreturn]] and throws bad_any_call" % cls)
            else:
                rep.bad("C18.R2", fn, fn.loc, cls + ":connect", "connecting an empty %s must throw the defined error (throw_bad_any_call), not return" % what)
    for w in ("unique_any_sender", "any_sender"):
        fs = [f for f in D.find(r"^pika::execution::experimental::%s::connect$" % w) if not f.pattern and f.parent == -1]
        if not fs:
            raise AnalysisBroken("%s::connect not instantiated" % w)
        for fn in fs:
            rets = [e for _, _, e in fn.all_events() if e.get("k") == "return" and e.get("e") is not None]
            ctor = [e for _, _, e in fn.all_events() if e.get("k") == "ctor" and (e.get("rec") or "").endswith("any_operation_state")]
            src = " ".join(T(e) for e in ctor) + " ".join(T(e["e"]) for e in rets)
            rvalue = fn.raw.get("refq") == "&&"
            emptied = (not rvalue) or any(e.get("k") == "decl" and e.get("init") is not None and P(e["init"]) == "this->storage" for _, _, e in fn.all_events())
            if "storage.get()" in src and emptied:
                rep.ok("C18.R2", fn, "%s::connect%s builds the operation from the stored sender%s" % (w, " &&" if rvalue else " const&", " after moving the storage out (wrapper left empty)" if rvalue else ""))
            else:
                rep.bad("C18.R2", fn, fn.loc, w + ":forward", "%s::connect must connect the stored sender (%s) and, for rvalues, leave the wrapper empty (%s)" % (w, "storage.get()" in src, emptied))
    aos = [f for f in D.find(r"^pika::execution::experimental::detail::any_operation_state_holder::any_operation_state_holder$") if not f.pattern]

    # ---- R3
    Fb = facts(rep, lib("functional", "src/basic_function.cpp"), [r"^pika::util::detail::function_base::"])

    def fb(name, pred=None):
        fs = [f for f in Fb.find("^" + FB + "::" + name + "$") if f.file.endswith("basic_function.cpp") and (pred is None or pred(f))]
        if not fs:
            raise AnalysisBroken("function_base::%s not found" % name)
        return fs
    de = fb("destroy")[0]
    ff = FactFlow(de)
    dl = [(b, i, ev) for b, i, ev in de.all_events() if ev.get("k") == "call" and callee_short(ev) == "deallocate"]
    if len(dl) == 1 and any((not t) and a in ("nullptr == this->object", "this->object == nullptr") for a, t in (ff.before.get((dl[0][0], dl[0][1])) or frozenset())) and \
            T(strip(dl[0][2]["args"][2])) == "true":
        rep.ok("C18.R3", de, "destroy(): vptr->deallocate(object, ..., destroy=true) iff object != nullptr")
    else:
        rep.bad("C18.R3", de, de.loc, "destroy", "destroy() must destroy (destroy=true) and deallocate the target exactly when there is one")
    rs = fb("reset")[0]
    d = [(b, i, ev) for b, i, ev in rs.all_events() if ev.get("k") == "call" and callee_short(ev) == "destroy"]
    wv = [(b, i, ev) for b, i, ev in rs.all_events() if ev.get("k") == "write" and P(ev["lhs"]) == "this->vptr"]
    wo = [(b, i, ev) for b, i, ev in rs.all_events() if ev.get("k") == "write" and P(ev["lhs"]) == "this->object" and T(strip(ev["rhs"])) == "nullptr"]
    if len(d) == 1 and wv and wo and precedes_on_all_paths(rs, lambda e: e is d[0][2], (wv[0][0], wv[0][1])) and P(wv[0][2]["rhs"]) == rs.params[0]["name"]:
        rep.ok("C18.R3", rs, "reset(): destroy() -> vptr = empty vtable -> object = nullptr")
    else:
        rep.bad("C18.R3", rs, rs.loc, "reset", "reset() must destroy the target, install the empty vtable and null the object pointer (otherwise the target leaks or is destroyed twice)")
    dt = fb("~function_base")[0]
    if [1 for _, _, e in dt.all_events() if e.get("k") == "call" and callee_short(e) == "destroy"]:
        rep.ok("C18.R3", dt, "destructor destroys the target")
    else:
        rep.bad("C18.R3", dt, dt.loc, "dtor", "~function_base must destroy the target")
    mc = fb("function_base", lambda f: f.params and "&&" in f.params[0]["type"])[0]
    wv = [e for _, _, e in mc.all_events() if e.get("k") == "write" and P(e["lhs"]) == "other.vptr"]
    wo = [e for _, _, e in mc.all_events() if e.get("k") == "write" and P(e["lhs"]) == "other.object" and T(strip(e["rhs"])) == "nullptr"]
    if wv and wo:
        rep.ok("C18.R3", mc, "move constructor leaves the source empty (empty vtable, null object)")
    else:
        rep.bad("C18.R3", mc, mc.loc, "move-source", "the moved-from function must be left empty (vptr = empty vtable, object = nullptr): otherwise the target is destroyed twice")
    # byte-wise relocation of the inline buffer
    for fn in (mc, fb("swap")[0]):
        raw = [e for _, _, e in fn.all_events() if e.get("k") == "call" and callee_short(e) in ("memcpy", "memmove", "swap", "copy", "copy_n") and
               any(re.search(r"(^|[.>])storage$", P(a)) for a in e.get("args", []))]
        name = fn.qname.rsplit("::", 1)[-1]
        if raw:
            rep.bad("C18.R3", fn, loc_of(raw[0]), "byte-relocation:" + callee_short(raw[0]),
                    "function_base::%s relocates an inline-stored callable with %s on the raw storage bytes: a callable of at most %s bytes that is not trivially relocatable "
                    "(e.g. a lambda capturing an empty std::list, whose sentinel node points into the object) is corrupted by moving the function object"
                    % (name, callee_short(raw[0]), "3*sizeof(void*)"))
        else:
            rep.ok("C18.R3", fn, "%s relocates inline callables through a typed operation" % name)

    # assign(F&&): the new target is constructed into storage that is valid at that point: on the 'same type, reuse the
    # storage' edge only the old object's destructor runs (the block stays allocated); on the other edge the old target
    # is destroyed *and* fresh storage is obtained before the placement new
    DA_ = facts(rep, driver("c18_erasure.cpp"), [r"^pika::util::detail::basic_function::assign$"])
    asg = [f for f in DA_.find(r"^pika::util::detail::basic_function::assign$") if not f.pattern and f.parent == -1 and f.params and "nullptr" not in f.params[0]["type"]]
    if not asg:
        raise AnalysisBroken("basic_function::assign(F&&) not instantiated")
    for fn in asg:
        leaves_a = set(cond_atoms(blk.cond)[0] for blk in fn.blocks.values() if blk.cond is not None)
        # the 'same target type' test compares the new callable's vtable (a local) with this->vptr; names are free
        same_c = [a for a in leaves_a if re.match(r"^(\w+ == this->vptr|this->vptr == \w+)$", a)]
        if len(same_c) != 1:
            raise AnalysisBroken("basic_function::assign: same-type test not found (%s)" % sorted(leaves_a))
        same_atom = same_c[0]
        empty_atoms = [a for a in leaves_a if a.startswith("is_empty_function(")]
        frees = lambda e: e.get("k") == "call" and callee_short(e) in ("destroy", "deallocate", "reset") and P(e.get("recv")) in ("this", "this->vptr", "*this->vptr")
        dtor = lambda e: e.get("k") == "call" and callee_short(e).startswith("~")
        alloc = lambda e: e.get("k") == "call" and callee_short(e) == "allocate"
        isnew = lambda e: e.get("k") == "new"
        probs = []
        npaths = 0
        for same in (True, False):
            for evs, end in eval_walk(fn, fn.entry, atom_env=dict([(same_atom, same)] + [(a, False) for a in empty_atoms])):
                seq = [e for _, _, e in evs]
                nw = [k_ for k_, e in enumerate(seq) if isnew(e)]
                if not nw:
                    continue
                npaths += 1
                pre = seq[:nw[0]]
                if same:
                    if any(frees(e) for e in pre):
                        probs.append("reuse path frees the storage (%s) before constructing into it" % [callee_short(e) for e in pre if frees(e)][0])
                    if not any(dtor(e) for e in pre):
                        probs.append("reuse path does not destroy the old object")
                else:
                    if not any(frees(e) for e in pre) or not any(alloc(e) for e in pre):
                        probs.append("different-type path must destroy the old target and allocate storage")
        if npaths == 0:
            raise AnalysisBroken("basic_function::assign: no path to the placement new")
        if probs:
            rep.bad("C18.R3", fn, fn.loc, "assign-storage", "basic_function::assign: %s - for a heap-stored callable (larger than the inline buffer) the new target is "
                    "constructed in released memory and the block is freed again later" % "; ".join(sorted(set(probs))))
        else:
            rep.ok("C18.R3", fn, "assign: reuse path runs only the destructor, other path destroys + allocates before the placement new (%d paths)" % npaths, sites=npaths)

    # swap: after the buffers were exchanged each wrapper's object pointer is re-pointed into its *own* buffer,
    # independently of the other one (both may hold inline callables) - truth table over the two tests
    sw = fb("swap")[0]
    OP = sw.params[0]["name"] if sw.params else "f"          # the other wrapper (the parameter's name is free)
    A = "&%s.storage == this->object" % OP
    B = "&this->storage == %s.object" % OP
    leaves_sw = set(cond_atoms(blk.cond)[0] for blk in sw.blocks.values() if blk.cond is not None)
    if A not in leaves_sw or B not in leaves_sw:
        raise AnalysisBroken("function_base::swap: pointer fix-up tests not found (conditions: %s)" % sorted(leaves_sw))
    fixa = lambda e: e.get("k") == "write" and P(e["lhs"]) == "this->object" and T(strip(e.get("rhs"))) == "&this->storage"
    fixb = lambda e: e.get("k") == "write" and P(e["lhs"]) == OP + ".object" and T(strip(e.get("rhs"))) == "&%s.storage" % OP
    mism = []
    for av in (True, False):
        for bv in (True, False):
            for evs, end in eval_walk(sw, sw.entry, atom_env={A: av, B: bv}):
                seq = [e for _, _, e in evs]
                if any(fixa(e) for e in seq) != av or any(fixb(e) for e in seq) != bv:
                    mism.append((av, bv))
    if mism:
        rep.bad("C18.R3", sw, sw.loc, "swap-fixup", "function_base::swap does not re-point both object pointers independently (this inline, other inline) = %s: "
                "after swapping (or move-assigning) two wrappers that both hold inline callables one of them points into the other's buffer - "
                "wrong callable invoked, one target destroyed twice and one never" % sorted(set(mism)))
    else:
        rep.ok("C18.R3", sw, "swap re-points each object pointer into its own buffer exactly when it pointed into the other one (4 valuations)")

    n, failed = witness(rep, "C18.R4", driver("../witness/C18.cpp"))
    for _ in range(n - failed):
        rep.ok("C18.R4", "witness:C18.cpp", "static_assert holds")

    # ---- R7: reset(lvalue) copies
    RS7 = facts(rep, driver("c18_erasure.cpp"), [r"^pika::execution::experimental::(unique_)?any_sender::reset$"])
    n7 = 0
    for fn in RS7.fns:
        if fn.pattern or fn.parent != -1 or not fn.params:
            continue
        ptype = fn.params[0].get("type") or ""
        if "&&" in ptype or not ptype.rstrip().endswith("&"):
            continue            # rvalue instantiation: may move
        for b, i, e in fn.all_events():
            if e.get("k") != "call":
                continue
            uses = [a for a in (e.get("args") or []) if P(strip(a)) == fn.params[0]["name"] or T(a).endswith(fn.params[0]["name"])]
            if not uses:
                continue
            n7 += 1
            def really_moved(a):
                # std::move / a cast to an rvalue reference; std::forward<Sender> of an lvalue instantiation yields an lvalue
                while isinstance(a, dict):
                    if a.get("k") == "move":
                        return a.get("which") in ("move", "cast")
                    if a.get("k") == "cast":
                        a = a.get("e")
                        continue
                    return False
                return False
            pts = [str(t) for t in (e.get("ptypes") or [])]
            moved = any(really_moved(a) for a in uses) or (len(pts) == 1 and pts[0].endswith("&&") and callee_short(e) == "operator=")
            if moved:
                rep.bad("C18.R7", fn, loc_of(e), "reset-moves-lvalue", "%s, instantiated for an lvalue argument (%s), hands it on as an rvalue (%s): dst.reset(src) with a named any_sender "
                        "leaves src empty (connect throws bad_function_call) instead of making an independent copy" % (fn.qname.rsplit("::", 2)[-2] + "::reset", ptype, T(e)[:60]))
            else:
                rep.ok("C18.R7", fn, "reset(%s) passes its argument on as an lvalue (copy)" % ptype)
    if n7 < 2:
        raise AnalysisBroken("C18.R7: reset() is not instantiated for lvalue arguments (%d uses)" % n7)

    # ---- R8: no throwing operation while 'object' points at a destroyed target
    FB8 = facts(rep, lib("functional", "src/basic_function.cpp"), [r"^pika::util::detail::function_base::op_assign$"])
    AS8 = facts(rep, driver("c18_erasure.cpp"), [r"^pika::util::detail::basic_function::assign$"])
    cands = [f for f in FB8.fns if f.parent == -1 and f.params and "&&" not in (f.params[0].get("type") or "")] + \
        [f for f in AS8.fns if f.parent == -1 and not f.pattern and f.params and "nullptr" not in (f.params[0].get("type") or "")][:2]
    if len(cands) < 2:
        raise AnalysisBroken("C18.R8: op_assign(copy) / basic_function::assign(F&&) not found (%d)" % len(cands))
    for fn in cands:
        short8 = fn.qname.rsplit("::", 2)[-2] + "::" + fn.qname.rsplit("::", 1)[-1]

        def kills(e):
            if e.get("k") != "call":
                return False
            cs = callee_short(e) or ""
            if cs == "destroy" and (e.get("recv") is None or P(e["recv"]) == "this"):
                return True
            if cs.startswith("~") or T(e).endswith(".~()"):
                return True
            return False

        def heals(e):
            if e.get("k") == "call" and callee_short(e) == "reset" and (e.get("recv") is None or P(e["recv"]) == "this"):
                return True
            return e.get("k") == "write" and P(e["lhs"]) == "this->object"

        def may_throw(e):
            if e.get("k") == "call" and callee_short(e) in ("allocate", "copy"):
                return True
            return e.get("k") in ("new",) or (e.get("k") == "ctor" and e.get("var") is None and "vtable" not in str(e.get("rec")))
        DIRTY = "dirty"

        def tr8(st, e, pos):
            if kills(e):
                return frozenset([DIRTY])
            if heals(e):
                return frozenset()
            return st
        before8, _, _ = forward(fn, frozenset(), tr8, None, lambda a, b: a | b, eh=True)
        bad8 = None
        for b, i, e in fn.all_events():
            if not may_throw(e):
                continue
            dirty = DIRTY in (before8.get((b, i)) or frozenset())
            inplace = e.get("k") == "call" and callee_short(e) == "copy" and e.get("args") and T(strip(e["args"][-1])) == "true"
            if (dirty or inplace) and "try" not in e:
                bad8 = bad8 or (e, "runs %s outside a try block while 'object' still points at the destroyed old target" % T(e)[:60])
        for b, i, e in fn.all_events():
            if e.get("k") == "throw" and e.get("e") is None:
                if not precedes_on_all_paths(fn, lambda x: x.get("k") == "write" and P(x["lhs"]) == "this->object" and T(strip(x.get("rhs"))) == "nullptr", (b, i), eh=True):
                    bad8 = bad8 or (e, "rethrows from its handler without having set object = nullptr")
        if bad8:
            rep.bad("C18.R8", fn, loc_of(bad8[0]), "throwing-assign:" + short8, "%s %s: when the new target's allocation or constructor throws, the wrapper is left non-empty with 'object' "
                    "pointing at a destroyed (or differently typed) target, and its destructor destroys it again" % (short8, bad8[1]))
        else:
            rep.ok("C18.R8", fn, "%s: the wrapper is empty, or inside a try block whose handler empties it, whenever constructing the new target can throw" % short8)

