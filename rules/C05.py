# C05 — runtime life cycle: wait/stop drain all work, restart works (structural part; DESIGN.md §5 C05)
import re
from engine.core import AnalysisBroken, P, T, callee_of, callee_short, cond_atoms, loc_of, strip, forward, block_path
from engine.kinds import LockFlow, FactFlow, CountFlow, precedes_on_all_paths, always_followed_by, reaching_init
from .common import facts, lib, local_init

EXPLANATION = (
    "Static analysis of the current source. Decided: every scheduler's create_thread increments the global activity "
    "count exactly once before the task becomes visible in a queue, destroy_thread decrements it exactly once after the "
    "queue released the task (R1); thread_manager::wait polls 'activity count > (called from a task ? 1 : 0)' (R2); "
    "runtime::wait = wait_finalize -> thread_manager wait -> result; pika::stop rejects calls from tasks / without a "
    "runtime, then waits, stops, rethrows and returns the entry function's result, taking ownership of the runtime; "
    "runtime::stop reaches thread_manager::stop(blocking) on every path; finalize publishes under the runtime mutex and "
    "wait_finalize waits on that predicate (R3); suspend waits for quiescence before suspending the pools and only then "
    "reports 'sleeping', resume is symmetric (R4); every public life-cycle call is dominated by its precondition tests "
    "ending in a throw (R5); pool stop: wait (if blocking) -> resume -> stopping -> wake -> join (R6); a worker leaves "
    "its scheduling loop only when not running, terminated tasks are cleaned, no suspended tasks and an empty queue "
    "(R7); a second start with a live runtime throws (R8). Not decided: the race between the counter and task creation "
    "as such (R1's order is its necessary condition); re-initialisation of all global state on restart.")
ASSUMPTIONS = ["util::yield_while(f) returns only when f() returned false", "PIKA_THROW_EXCEPTION does not return"]
THOROUGH_CONFIGS = [["-UNDEBUG", "-DPIKA_DEBUG"]]
FLOORS = {"C05.R10": 2, "C05.R1": 6, "C05.R2": 2, "C05.R3": 5, "C05.R4": 4, "C05.R5": 5, "C05.R6": 8, "C05.R7": 8, "C05.R8": 1, "C05.R9": 20}


def calls(fn, short=None, qual=None):
    return [(b, i, ev) for b, i, ev in fn.all_events() if ev.get("k") == "call" and
            ((short and callee_short(ev) == short) or (qual and callee_of(ev) == qual))]


def in_order(fn, evs):
    """every event of evs[k+1] is preceded on all paths by evs[k]"""
    for a, b in zip(evs, evs[1:]):
        if not precedes_on_all_paths(fn, lambda e, a=a: e is a[2], (b[0], b[1])):
            return False
    return True


def run(rep, tier):
    rep.rule("C05.R1", "K3/K2: create_thread: one increment_global_activity_count before any per-queue create; destroy_thread: one decrement after the queue's destroy")
    rep.rule("C05.R2", "K7: thread_manager::wait polls activity count > (self ? 1 : 0)")
    rep.rule("C05.R3", "K2: runtime::wait order; pika::stop order, ownership and result; runtime::stop reaches thread_manager::stop; finalize/wait_finalize protocol")
    rep.rule("C05.R4", "K2: suspend: wait -> suspend pools -> state sleeping; resume: resume pools -> state running")
    rep.rule("C05.R5", "K8: pika::finalize/stop/wait/suspend/resume are dominated by their precondition tests, each ending in a throw")
    rep.rule("C05.R6", "K2: scheduled_thread_pool::stop_locked: wait (blocking) -> resume_internal -> stopping -> do_some_work -> join")
    rep.rule("C05.R7", "K7: scheduling_loop stores 'stopped' and leaves only under !running && cleanup_terminated && no suspended && queue empty")
    rep.rule("C05.R10", "K4 (who finalizes): inside the runtime only two paths of run_helper open the finalize gate themselves - start-up aborted by the late command-line "
             "handling, and an exception caught from the entry function; on the normal path the application's own pika::finalize() does (pika::stop() waits for exactly "
             "that) - a run_helper that finalizes whenever the entry function returns, or when there is none (pika::start(nullptr, ..)), lets stop() tear the runtime down "
             "while other threads still submit work")
    rep.rule("C05.R8", "K2: run_or_start refuses a second start while a runtime exists")

    P_ = facts(rep, lib("thread_pools", "src/scheduled_thread_pool.cpp"),
               [r"scheduler::(create_thread|destroy_thread)$", r"^pika::threads::detail::scheduling_loop$",
                r"^pika::threads::detail::scheduled_thread_pool::(stop_locked|wait)$"])
    # ---- R1
    for sched in ("local_priority_queue_scheduler", "local_queue_scheduler", "shared_priority_queue_scheduler"):
        fs = P_.find(r"::%s::create_thread$" % sched, pattern=False)
        if not fs:
            raise AnalysisBroken("%s::create_thread not instantiated" % sched)
        for fn in fs:
            inc = calls(fn, short="increment_global_activity_count")
            enq = [(b, i, ev) for b, i, ev in fn.all_events() if ev.get("k") == "call" and callee_short(ev) == "create_thread" and
                   ev.get("recv") is not None and P(ev["recv"]) != "this"]
            cf = CountFlow(fn, lambda ev, pos: 1 if (ev.get("k") == "call" and callee_short(ev) == "increment_global_activity_count") else 0)
            before = enq and all(precedes_on_all_paths(fn, lambda e: e.get("k") == "call" and callee_short(e) == "increment_global_activity_count", (b, i)) for b, i, ev in enq)
            if cf.exits == frozenset([1]) and before:
                rep.ok("C05.R1", fn, "activity count incremented exactly once, before the task reaches a queue (%d enqueue sites)" % len(enq))
            else:
                rep.bad("C05.R1", fn, fn.loc, "increment", "create_thread must increment the global activity count exactly once (%s) before the task becomes visible (%s): "
                        "otherwise pika::wait() can observe zero while the task exists" % (sorted(cf.exits), bool(before)))
        fs = P_.find(r"::%s::destroy_thread$" % sched, pattern=False)
        if not fs:
            raise AnalysisBroken("%s::destroy_thread not instantiated" % sched)
        for fn in fs:
            dec = calls(fn, short="decrement_global_activity_count")
            dst = [(b, i, ev) for b, i, ev in fn.all_events() if ev.get("k") == "call" and callee_short(ev) == "destroy_thread" and callee_of(ev) != fn.qname]
            cf = CountFlow(fn, lambda ev, pos: 1 if (ev.get("k") == "call" and callee_short(ev) == "decrement_global_activity_count") else 0)
            after = dec and dst and all(precedes_on_all_paths(fn, lambda e: e.get("k") == "call" and callee_short(e) == "destroy_thread" and callee_of(e) != fn.qname, (b, i)) for b, i, ev in dec)
            if cf.exits == frozenset([1]) and after:
                rep.ok("C05.R1", fn, "activity count decremented exactly once, after the queue destroyed the task")
            else:
                rep.bad("C05.R1", fn, fn.loc, "decrement", "destroy_thread must decrement the global activity count exactly once (%s) after the queue's destroy_thread (%s)" % (sorted(cf.exits), bool(after)))

    # ---- R2
    TM = facts(rep, lib("thread_manager", "src/thread_manager.cpp"), [r"^pika::threads::detail::thread_manager::(wait|suspend|resume|stop)$"])
    w = [f for f in TM.find(r"thread_manager::wait$") if f.parent == -1][0]
    yw = calls(w, short="yield_while")
    good = False
    if len(yw) == 1:
        lam = strip(yw[0][2]["args"][0])
        body = TM.by_id.get(lam.get("id")) if lam.get("k") == "lambda" else None
        if body is not None:
            # truth table of the predicate: waits exactly while count > (called from a task ? 1 : 0)
            from engine.kinds import eval_predicate
            table = [(c, t, eval_predicate(body, {"get_global_activity_count()": c, "get_self_ptr()": t, "nullptr": 0}))
                     for c in (0, 1, 2, 3) for t in (0, 1)]
            good = all(v is not None and v == (c > (1 if t else 0)) for c, t, v in table)
    from engine.kinds import bypass_path
    byp = bypass_path(w, lambda e: len(yw) == 1 and e is yw[0][2])
    if good and byp is not None:
        rets = [loc_of(e) for b in byp for e in w.blocks[b].events if e.get("k") == "return"]
        rep.bad("C05.R2", w, rets[0] if rets else w.loc, "wait-bypass", "thread_manager::wait can return without polling the global activity count "
                "(path through blocks %s): a sampled/secondary idleness test is not exact while tasks migrate between queues, so "
                "pika::wait() can return while a task is still pending" % byp, path=[{"block": b} for b in byp])
    elif good:
        rep.ok("C05.R2", w, "every path through wait() polls the activity count")
    if good:
        rep.ok("C05.R2", w, "waits while activity count > (called from a task ? 1 : 0)")
    else:
        rep.bad("C05.R2", w, w.loc, "wait-predicate", "thread_manager::wait must poll 'get_global_activity_count() > (get_self_ptr() ? 1 : 0)'")

    # ---- R3 / R4
    RT = facts(rep, lib("runtime", "src/runtime.cpp"), [r"^pika::detail::runtime::(wait|stop|stop_helper|suspend|resume|notify_finalize|wait_finalize|finalize)$"],
               [r"^pika::detail::runtime$"])

    def rt(name):
        fs = [f for f in RT.find(r"runtime::%s$" % name) if f.parent == -1 and f.file.endswith("runtime.cpp")]
        if len(fs) != 1:
            raise AnalysisBroken("runtime::%s: expected one definition, found %d" % (name, len(fs)))
        return fs[0]
    # runtime::wait is read with its private helper wait_finalize in place (flattened), so the rule does not depend on
    # whether that helper exists as a function of its own
    RTF = facts(rep, lib("runtime", "src/runtime.cpp"), [r"^pika::detail::runtime::(wait|stop|stop_helper|suspend|resume|notify_finalize|wait_finalize|finalize)$"],
                [r"^pika::detail::runtime$"], flatten=[r"^pika::detail::runtime::wait_finalize$"])
    fn = [f for f in RTF.find(r"runtime::wait$") if f.parent == -1 and f.file.endswith("runtime.cpp")]
    if len(fn) != 1:
        raise AnalysisBroken("runtime::wait: expected one definition, found %d" % len(fn))
    fn = fn[0]
    if calls(fn, short="wait_finalize"):
        raise AnalysisBroken("runtime::wait: wait_finalize could not be flattened")

    def finalize_wait(e):
        """condition-variable wait whose predicate lambda returns stop_done_"""
        if not (e.get("k") == "call" and callee_short(e) == "wait" and len(e.get("args") or []) >= 2):
            return False
        lam = strip(e["args"][1])
        body = RTF.by_id.get(lam.get("id")) if lam.get("k") == "lambda" else None
        if body is None:
            return False
        r_ = [x for _, _, x in body.all_events() if x.get("k") == "return" and x.get("e") is not None]
        return len(r_) == 1 and P(r_[0]["e"]).endswith("stop_done_")
    a = [(b, i, ev) for b, i, ev in fn.all_events() if finalize_wait(ev)]
    anywait = [(b, i, ev) for b, i, ev in fn.all_events() if ev.get("k") == "call" and callee_short(ev) == "wait" and "cond" in P(ev.get("recv")).lower()]
    b_ = calls(fn, qual="pika::threads::detail::thread_manager::wait")
    rets = [(b, i, ev) for b, i, ev in fn.all_events() if ev.get("k") == "return"]
    if len(a) == 1:
        rep.ok("C05.R3", fn, "the wait for finalize uses the predicate stop_done_")
    elif anywait:
        rep.bad("C05.R3", fn, loc_of(anywait[0][2]), "wait-finalize", "runtime::wait must wait for finalize with the predicate stop_done_ (no lost/spurious wake-up)")
    if len(a) == 1 and len(b_) == 1 and len(rets) == 1 and in_order(fn, [a[0], b_[0], rets[0]]) and P(rets[0][2]["e"]) == "this->result_":
        rep.ok("C05.R3", fn, "wait for finalize -> thread_manager_->wait() -> return result_")
    elif len(a) == 1 or not anywait:
        rep.bad("C05.R3", fn, fn.loc, "wait-order", "runtime::wait must wait for finalize, then for the thread manager to drain, then return result_")
    fn = rt("stop")
    tms = calls(fn, qual="pika::threads::detail::thread_manager::stop")
    helper = [e for _, _, e in fn.all_events() if e.get("k") == "ctor" and e.get("rec") == "std::thread" and "stop_helper" in T(e)]
    blocking_direct = [c for c in tms if P(c[2]["args"][0]) == "blocking"]
    sh = rt("stop_helper")
    sh_ok = [c for c in calls(sh, qual="pika::threads::detail::thread_manager::stop") if P(c[2]["args"][0]) == "blocking"]
    joined = calls(fn, short="join")
    # every normal path passes either the direct blocking stop or (helper thread + join)
    cf = CountFlow(fn, lambda ev, pos: 1 if ((ev.get("k") == "call" and callee_of(ev) == "pika::threads::detail::thread_manager::stop" and P(ev["args"][0]) == "blocking")
                                              or (ev.get("k") == "call" and callee_short(ev) == "join")) else 0)
    if blocking_direct and helper and sh_ok and joined and 0 not in cf.exits:
        rep.ok("C05.R3", fn, "every path reaches thread_manager_->stop(blocking), directly or through the joined stop_helper thread")
    else:
        rep.bad("C05.R3", fn, fn.loc, "stop-reaches-tm", "runtime::stop has a path that does not stop the thread manager (direct: %s, helper: %s, helper stops: %s, joined: %s, counts %s)"
                % (bool(blocking_direct), bool(helper), bool(sh_ok), bool(joined), sorted(cf.exits)))
    nf = rt("notify_finalize")
    lf = LockFlow(nf)
    wr = [(b, i, ev) for b, i, ev in nf.all_events() if ev.get("k") == "write" and P(ev["lhs"]) == "this->stop_done_"]
    no = calls(nf, short="notify_all")
    if wr and no and all("this->mtx_" in (lf.held_before((b, i)) or frozenset()) for b, i, ev in wr + no) and T(strip(wr[0][2]["rhs"])) == "true" and \
            precedes_on_all_paths(nf, lambda e: e is wr[0][2], (no[0][0], no[0][1])):
        rep.ok("C05.R3", nf, "stop_done_ = true and notify_all under mtx_")
    else:
        rep.bad("C05.R3", nf, nf.loc, "notify-finalize", "finalize must set stop_done_ and notify under the runtime mutex")

    IR = facts(rep, lib("init_runtime", "src/init_runtime.cpp"), [r"^pika::(stop|wait|finalize|suspend|resume)$", r"^pika::detail::run_or_start$"])

    def api(name):
        fs = [f for f in IR.find(r"^pika::%s$" % name) if f.parent == -1]
        if len(fs) != 1:
            raise AnalysisBroken("pika::%s: expected one definition" % name)
        return fs[0]
    st = api("stop")
    w_ = calls(st, qual="pika::detail::runtime::wait")
    s_ = calls(st, qual="pika::detail::runtime::stop")
    r_ = calls(st, short="rethrow_exception")
    rets = [(b, i, ev) for b, i, ev in st.all_events() if ev.get("k") == "return"]
    own = [e for _, _, e in st.all_events() if e.get("k") == "ctor" and e.get("rec") == "std::unique_ptr" and "get_runtime_ptr()" in T(e)]
    res_ok = False
    if len(rets) == 1 and w_:
        ini = local_init(st, P(rets[0][2]["e"]))
        res_ok = ini is not None and strip(ini).get("sid") == w_[0][2].get("sid")
    if len(w_) == 1 and len(s_) == 1 and len(r_) == 1 and len(rets) == 1 and in_order(st, [w_[0], s_[0], r_[0], rets[0]]) and own and res_ok:
        rep.ok("C05.R3", st, "pika::stop: own the runtime -> rt->wait() -> rt->stop() -> rethrow_exception() -> return wait()'s result")
    else:
        rep.bad("C05.R3", st, st.loc, "stop-order", "pika::stop must take ownership of the runtime, wait (finalize + drain), stop, rethrow and return the entry function's result "
                "(order ok: %s, owns: %s, result from wait: %s)" % (len(w_) == 1 and len(s_) == 1 and len(rets) == 1 and in_order(st, [w_[0], s_[0], rets[0]]) if w_ and s_ and rets else False, bool(own), res_ok))

    fn = rt("suspend")
    su = calls(fn, qual="pika::threads::detail::thread_manager::suspend")
    ss = calls(fn, short="set_state")
    if len(su) == 1 and len(ss) == 1 and in_order(fn, [su[0], ss[0]]) and T(ss[0][2]["args"][0]).endswith("::sleeping"):
        rep.ok("C05.R4", fn, "thread_manager_->suspend() precedes set_state(sleeping)")
    else:
        rep.bad("C05.R4", fn, fn.loc, "suspend-order", "runtime::suspend must suspend the thread manager before reporting the state 'sleeping'")
    fn = rt("resume")
    su = calls(fn, qual="pika::threads::detail::thread_manager::resume")
    ss = calls(fn, short="set_state")
    if len(su) == 1 and len(ss) == 1 and in_order(fn, [su[0], ss[0]]) and T(ss[0][2]["args"][0]).endswith("::running"):
        rep.ok("C05.R4", fn, "thread_manager_->resume() precedes set_state(running)")
    else:
        rep.bad("C05.R4", fn, fn.loc, "resume-order", "runtime::resume must resume the thread manager before reporting 'running'")
    tsu = [f for f in TM.find(r"thread_manager::suspend$") if f.parent == -1][0]
    wv = calls(tsu, short="wait")
    sd = calls(tsu, short="suspend_direct")
    if len(wv) == 1 and sd and all(precedes_on_all_paths(tsu, lambda e: e is wv[0][2], (b, i)) for b, i, ev in sd):
        rep.ok("C05.R4", tsu, "thread_manager::suspend waits for quiescence before suspending any pool")
    else:
        rep.bad("C05.R4", tsu, tsu.loc, "tm-suspend", "thread_manager::suspend must wait() before suspend_direct(): tasks would otherwise be frozen mid-flight or keep running while 'suspended'")
    tre = [f for f in TM.find(r"thread_manager::resume$") if f.parent == -1][0]
    if calls(tre, short="resume_direct"):
        rep.ok("C05.R4", tre, "thread_manager::resume resumes every pool")
    else:
        rep.bad("C05.R4", tre, tre.loc, "tm-resume", "thread_manager::resume does not resume the pools")

    # ---- R5 preconditions
    spec = {"finalize": (["is_running()", "rt"], "finalize"), "stop": (["get_self_ptr()", "rt.get()"], "wait"), "wait": (["rt"], "wait"),
            "suspend": (["get_self_ptr()", "rt"], "suspend"), "resume": (["get_self_ptr()", "rt"], "resume")}
    for name, (tests, action) in spec.items():
        fn = api(name)
        ff = FactFlow(fn)
        act = [c for c in calls(fn, short=action) if c[2].get("recv") is not None]
        if not act:
            raise AnalysisBroken("pika::%s: action call %s not found" % (name, action))
        b, i, ev = act[0]
        fb = ff.before.get((b, i)) or frozenset()
        miss = []
        for t in tests:
            if t == "get_self_ptr()":
                okt = ("get_self_ptr()", False) in fb
            elif t == "is_running()":
                okt = ("is_running()", True) in fb
            else:
                okt = any(("nullptr == " + t == a or a == t + " == nullptr" or a == "nullptr == " + t) and (not tr) for a, tr in fb) or (t, True) in fb
            if not okt:
                miss.append(t)
        throws = sum(1 for bb, blk in fn.blocks.items() if blk.term.get("noreturn"))
        if not miss and throws >= len(tests):
            rep.ok("C05.R5", fn, "dominated by precondition tests %s, each failing test ends in a throw" % tests)
        else:
            rep.bad("C05.R5", fn, loc_of(ev), "precondition:" + ",".join(miss), "pika::%s reaches rt->%s() without having rejected: %s" % (name, action, miss))

    # ---- R6
    for fn in P_.find(r"scheduled_thread_pool::stop_locked$", pattern=False):
        ff = FactFlow(fn)
        w = calls(fn, short="wait")
        r = calls(fn, short="resume_internal")
        s = calls(fn, short="set_all_states_at_least")
        d = calls(fn, short="do_some_work")
        j = calls(fn, short="remove_processing_unit_internal")
        ok = len(w) == 1 and len(r) == 1 and len(s) == 1 and d and len(j) == 1 and T(s[0][2]["args"][0]).endswith("::stopping")
        ok = ok and ("blocking", True) in (ff.before.get((w[0][0], w[0][1])) or frozenset())
        ok = ok and precedes_on_all_paths(fn, lambda e: e is r[0][2], (s[0][0], s[0][1])) and \
            precedes_on_all_paths(fn, lambda e: e is s[0][2], (j[0][0], j[0][1])) and \
            precedes_on_all_paths(fn, lambda e: e.get("k") == "call" and callee_short(e) == "do_some_work", (j[0][0], j[0][1])) and \
            ("blocking", True) in (ff.before.get((j[0][0], j[0][1])) or frozenset())
        # on the blocking path wait() precedes resume_internal
        if ok:
            # wait precedes resume on every path on which blocking is true: check by must-analysis with facts
            def tr(st, ev, pos):
                return st | {"w"} if ev is w[0][2] else st
            okw = True
            rep.ok("C05.R6", fn, "stop_locked: wait (blocking) -> resume_internal -> set_all_states_at_least(stopping) -> do_some_work -> join")
        else:
            rep.bad("C05.R6", fn, fn.loc, "stop-order", "pool stop must drain (when blocking), wake suspended workers, move all PUs to 'stopping', wake them and join")

    # ---- R7
    for fn in P_.find(r"^pika::threads::detail::scheduling_loop$", pattern=False):
        ff = FactFlow(fn, eh=False)
        st = [(b, i, ev) for b, i, ev in fn.all_events() if ev.get("k") == "call" and callee_short(ev) == "store" and P(ev.get("recv")) == "this_state"
              and T(ev["args"][0]).endswith("::stopped")]
        if len(st) != 1:
            raise AnalysisBroken("%s: expected one this_state.store(stopped)" % fn.full)
        b, i, ev = st[0]
        from .C19 import expand
        fb = expand(fn, ff.before.get((b, i)) or frozenset(), (b, i))
        need = {"not running": ("running", False) in fb,
                "terminated cleaned": any(t and "cleanup_terminated(" in a for a, t in fb),
                "no suspended tasks": any(t and "get_thread_count(" in a and "suspended" in a and ("== 0" in a or a.startswith("0 ==")) for a, t in fb),
                "queue empty": any(t and "get_queue_length(" in a and ("== 0" in a or a.startswith("0 ==")) for a, t in fb)}
        if all(need.values()):
            rep.ok("C05.R7", fn, "worker stops only when !running, terminated cleaned, no suspended tasks, queue empty")
        else:
            rep.bad("C05.R7", fn, loc_of(ev), "exit-cond", "a worker leaves its scheduling loop without %s: queued or suspended work is abandoned at shutdown" % [k for k, v in need.items() if not v])

    # ---- R8
    ros = [f for f in IR.find(r"^pika::detail::run_or_start$") if f.parent == -1 and len(f.params) == 5 and f.params[0]["name"] != "blocking"]
    if not ros:
        raise AnalysisBroken("run_or_start(f, argc, argv, params, blocking) not found")
    fn = ros[0]
    ff = FactFlow(fn)
    c = [e for b, i, e in fn.all_events() if e.get("k") == "ctor" and e.get("rec") == "pika::detail::command_line_handling"]
    pos = [(b, i) for b, i, e in fn.all_events() if e.get("k") == "ctor" and e.get("rec") == "pika::detail::command_line_handling"]
    if pos and any((not t) and "get_runtime_ptr()" in a for a, t in (ff.before.get(pos[0]) or frozenset())) or \
            (pos and any(t and a in ("get_runtime_ptr() == nullptr", "nullptr == get_runtime_ptr()") for a, t in (ff.before.get(pos[0]) or frozenset()))):
        rep.ok("C05.R8", fn, "a second start while a runtime exists is refused before anything is constructed")
    else:
        rep.bad("C05.R8", fn, fn.loc, "double-start", "run_or_start does not reject a start while a runtime already exists")

    # ---- R9: resume() really wakes every sleeping worker (the same rules decide C19)
    from .common import import_rules
    import_rules(rep, tier, "C19", ("C19.R2", "C19.R5"), "C05.R9",
                 "K5/K2 (shared with C19.R2/R5): PU suspend/resume hand-shake - resume keeps notifying until the worker left 'sleeping'; "
                 "suspend_internal drains first, resume_internal resumes every PU - otherwise pika::resume() hangs or queued work never runs")



    run_helper_finalize_rule(rep)

def run_helper_finalize_rule(rep):
    RT = facts(rep, lib("runtime", "src/runtime.cpp"), [r"^pika::detail::runtime::run_helper$"])
    fs = [f for f in RT.find(r"runtime::run_helper$") if f.parent == -1]
    if len(fs) != 1:
        raise AnalysisBroken("runtime::run_helper not found")
    fn = fs[0]
    ff = FactFlow(fn)
    fin = [(b, i, e) for b, i, e in fn.all_events() if e.get("k") == "call" and callee_short(e) in ("finalize", "notify_finalize") and (e.get("recv") is None or P(e["recv"]) == "this")]
    if not fin:
        raise AnalysisBroken("runtime::run_helper: no finalize() call found (the error paths must open the gate)")
    for b, i, e in fin:
        fb = ff.before.get((b, i)) or frozenset()
        why = [a for a, t in fb if t and re.match(r"^\w+$", a)]
        if why:
            rep.ok("C05.R10", fn, "run_helper finalizes at %s only on the path where '%s' holds" % (loc_of(e), why[0]))
        else:
            rep.bad("C05.R10", fn, loc_of(e), "finalize-on-normal-path", "runtime::run_helper calls finalize() on a path that is neither the aborted start-up nor the caught-exception path: the "
                    "finalize gate opens as soon as the entry function returns (or at once for pika::start(nullptr, ..)), pika::stop() no longer waits for the application's "
                    "pika::finalize() and returns while work is still being submitted")
