# C07 — condition variables never lose a notification (structural part; DESIGN.md §5 C07)
import re
from engine.core import AnalysisBroken, P, T, callee_of, callee_short, cond_atoms, loc_of, strip, forward, block_path, is_moved, walk
from engine.kinds import (LockFlow, FactFlow, precedes_on_all_paths, eval_tree, Unknown, return_set, reaching_init, eval_walk)
from .common import facts, lib, driver, local_init
from . import cvdetail

EXPLANATION = (
    "Static analysis of the current source (every wait body of condition_variable / condition_variable_any, "
    "instantiated with std::unique_lock<pika::mutex> and with a user lock type). Decided: the internal lock is taken "
    "before the user lock is released, the user lock is released only through an RAII unlock_guard (so it is "
    "re-acquired on every exit) whose destructor runs after the internal lock was dropped, the shared state is kept "
    "alive first, and cond_.wait* is called with the internal lock held and the user lock released (R1); stop-token "
    "waits test stop_requested() under the internal lock with no release before the wait, and register a callback that "
    "takes the internal lock and notifies all (R2); wait_until maps 'timeout' (and nothing else from the computed "
    "return set) to cv_status::timeout, predicate forms return true only after the predicate held (R3); notify_* take "
    "the internal lock and hand it over by move (R4); the detail implementation's hand-shake (R5, shared with C02). "
    "Not decided: user lock types whose unlock() throws; fairness.")
ASSUMPTIONS = ["pika::detail::unlock_guard unlocks in its constructor and locks in its destructor (thread_support/unlock_guard.hpp)",
               "notifiers acquire the user lock before notifying (user contract stated in the property)"]
THOROUGH_CONFIGS = [["-UNDEBUG", "-DPIKA_DEBUG"]]
FLOORS = {"C07.R7": 20, "C07.R1": 8, "C07.R2": 3, "C07.R3": 6, "C07.R4": 4, "C07.R5": 10, "C07.R6": 5}

INTERNAL = "data->mtx_"


def is_wait_call(ev):
    return ev.get("k") == "call" and callee_of(ev) in ("pika::detail::condition_variable::wait", "pika::detail::condition_variable::wait_until")


def run(rep, tier):
    rep.rule("C07.R1", "K2: internal lock before user unlock; RAII unlock_guard only; destructor order; keep-alive first; wait with internal held/user released")
    rep.rule("C07.R2", "K4: stop-token waits test stop_requested() under the internal lock before waiting; stop callback locks and notifies all")
    rep.rule("C07.R3", "K7: cv_status::timeout iff reason == timeout (over the computed return set); predicate forms return true only after pred()")
    rep.rule("C07.R4", "K2: notify_one/notify_all lock the internal mutex and pass the lock by move")
    rep.rule("C07.R5", "detail::condition_variable hand-shake (same rules as C02.R1/R2)")
    rep.rule("C07.R6", "K2/K8 plain-OS-thread agent (default_agent), the other implementation of the agent interface the condition variable parks waiters on: resume()/abort() deliver on every path (set running_, notify); they wait for running_ == false, so every member a waiter can be parked in - suspend() and the timed sleep_for/sleep_until - establishes running_ = false (and announces it) before blocking")

    D = facts(rep, driver("c07_condvar.cpp"), [r"^pika::condition_variable(_any)?::(wait|wait_until|notify_one|notify_all)$"])
    CVF = cvdetail.load(rep)
    bodies = []
    for fn in D.fns:
        if fn.pattern or fn.parent != -1:
            continue
        if any(is_wait_call(ev) for _, _, ev in fn.all_events()):
            bodies.append(fn)
    if len(bodies) < 8:
        raise AnalysisBroken("expected >= 8 instantiated wait bodies, found %d" % len(bodies))

    for fn in bodies:
        user = fn.params[0]["name"]
        from engine.kinds import guard_kind
        lf = LockFlow(fn, entry_held=() if guard_kind(fn.params[0].get("rec")) == "guard" else (user,))
        user_ids = {"@" + user, user}
        w = [(b, i, ev) for b, i, ev in fn.all_events() if is_wait_call(ev)]
        ulc = [(b, i, ev) for b, i, ev in fn.all_events() if ev.get("k") == "ctor" and ev.get("rec") == "pika::detail::unlock_guard"]
        direct = [(b, i, ev) for b, i, ev in fn.all_events() if ev.get("k") == "call" and callee_short(ev) == "unlock"
                  and P(ev.get("recv")) == user]
        problems = []
        if len(w) != 1:
            raise AnalysisBroken("%s: expected one cond_.wait*" % fn.full)
        if len(ulc) != 1:
            rep.bad("C07.R1", fn, loc_of(w[0][2]), "no-raii-unlock", "the user lock must be released through exactly one RAII unlock_guard "
                    "(found %d; direct unlock calls: %d): it is not re-acquired on every exit" % (len(ulc), len(direct)))
            continue
        wb, wi, wev = w[0]
        ub, ui, uev = ulc[0]
        if P(uev["args"][0]) != user:
            problems.append("the unlock_guard does not release the user lock")
        if direct:
            problems.append("the user lock is unlocked directly (not re-acquired on exceptional exits)")
        held_u = lf.held_before((ub, ui)) or frozenset()
        if INTERNAL not in held_u:
            problems.append("the user lock is released before the internal lock is held (a notify between the two is lost)")
        held_w = lf.held_before((wb, wi)) or frozenset()
        if INTERNAL not in held_w:
            problems.append("cond_.wait* called without the internal lock")
        if held_w & user_ids:
            problems.append("cond_.wait* called with the user lock still held")
        if not precedes_on_all_paths(fn, lambda e: e is uev, (wb, wi), reset_pred=lambda e: e.get("k") == "dtor" and e.get("var") == uev.get("var")):
            problems.append("the user lock is not released when waiting")
        if P(wev["args"][0]) != "l" and not (lf.before[(wb, wi)].g(P(wev["args"][0])) and lf.before[(wb, wi)].g(P(wev["args"][0]))[0] == INTERNAL):
            problems.append("cond_.wait* is not handed the internal lock")
        # keep-alive and use of the local copy
        ka = [(b, i, ev) for b, i, ev in fn.all_events() if ev.get("k") == "decl" and ev.get("var") == "data"]
        if not ka or not precedes_on_all_paths(fn, lambda e: e.get("k") == "decl" and e.get("var") == "data", (ub, ui)):
            problems.append("the shared state is not kept alive (auto data = data_) before waiting")
        if not P(wev.get("recv")).startswith("data->"):
            problems.append("waits on this->data_ instead of the kept-alive copy")
        # destructor order: internal lock dropped (unlock_next) before the user lock is re-acquired (unlock)
        for b, blk in fn.blocks.items():
            idx = {}
            for i, ev in enumerate(blk.events):
                if ev.get("k") == "dtor" and ev.get("var"):
                    idx[ev["var"]] = i
            adopt = [v for v in idx if lf.before.get((b, idx[v])) is not None and (lf.before[(b, idx[v])].g(v) or (None, None, None))[2] == "adopt"]
            if uev.get("var") in idx:
                if not adopt or idx[adopt[0]] > idx[uev["var"]]:
                    if any(INTERNAL in (lf.held_before((b, idx[uev["var"]])) or ()) for _ in [0]):
                        problems.append("the user lock is re-acquired while the internal lock is still held (lock-order inversion with notifiers)")
        # user lock held again at every normal exit
        ex = lf.block_in.get(fn.exit)
        if ex is not None and not (ex.held & user_ids):
            problems.append("the user lock is not re-acquired on every exit")
        if problems:
            rep.bad("C07.R1", fn, loc_of(wev), "wait-protocol:" + problems[0][:40], "; ".join(problems), path=[{"block": x} for x in block_path(fn, wb)])
        else:
            rep.ok("C07.R1", fn, "internal lock -> RAII user unlock -> cond_.wait*(internal) -> internal dropped -> user re-locked")

        # ---- R2 (stop-token forms)
        if any("stop_token" in p["type"] for p in fn.params):
            rel = lf.release_events
            acq = set((b, i) for b, i, ev in fn.all_events() if ev.get("k") == "ctor" and ev.get("rec") == "std::unique_lock"
                      and ev.get("args") and P(ev["args"][0]) == INTERNAL)

            def kill(ev, pos, rel=rel, acq=acq):
                if rel.get(pos) in (INTERNAL, "?") or pos in acq:
                    return lambda atom: "stop_requested()" in atom
                return None
            ff = FactFlow(fn, kill=kill)
            fb = ff.before.get((wb, wi)) or frozenset()
            tested = any((not t) and a.endswith(".stop_requested()") for a, t in fb)
            cb = [(b, i, ev) for b, i, ev in fn.all_events() if ev.get("k") in ("ctor",) and ev.get("rec") == "pika::stop_callback"]
            cb_ok = False
            if cb and precedes_on_all_paths(fn, lambda e: e is cb[0][2], (wb, wi)):
                for lam in fn.lambdas():
                    # the callback locks the internal mutex of the shared data and notifies all on the condition variable
                    # next to it (the data is reached through a capture or, in a named function object, a member)
                    lk_paths = [P(e["args"][0]) for _, _, e in lam.all_events() if e.get("k") == "ctor" and e.get("rec") == "std::unique_lock" and e.get("args") and
                                P(e["args"][0]).endswith("mtx_")]
                    locks = bool(lk_paths)
                    notif = any(e.get("k") == "call" and callee_short(e) == "notify_all" and e.get("args") and is_moved(e["args"][0]) and
                                any(P(e.get("recv")) == lp[:-len("mtx_")] + "cond_" for lp in lk_paths)
                                for _, _, e in lam.all_events())
                    cb_ok = cb_ok or (locks and notif)
            if tested and cb_ok:
                rep.ok("C07.R2", fn, "stop_requested() re-tested under the internal lock right before waiting; callback locks and notifies all")
            else:
                rep.bad("C07.R2", fn, loc_of(wev), "stop-protocol", "stop-token wait: stop must be tested after taking the internal lock with no "
                        "release before cond_.wait* (%s) and a stop_callback that locks the internal mutex and notifies all must be "
                        "registered before waiting (%s): otherwise a stop request between test and wait is missed" % (tested, cb_ok))

    # ---- R3 result mapping
    cvw = [f for f in CVF.find(r"^pika::detail::condition_variable::wait_until$") if f.file.endswith(".cpp")]
    rset = return_set(cvw[0])
    for fn in bodies:
        if fn.raw.get("ret") != "pika::cv_status":
            continue
        w = [(b, i, ev) for b, i, ev in fn.all_events() if is_wait_call(ev)][0]
        # the local that keeps the result of the wait call, whatever it is called
        var = None
        wpos = None
        for b_, i_, d in fn.all_events():
            if d.get("k") == "decl" and d.get("init") is not None and strip(d["init"]).get("sid") == w[2].get("sid"):
                var, wpos = d["var"], (b_, i_)
        if var is None:
            raise AnalysisBroken("%s: result of cond_.wait_until is not kept in a local" % fn.full)
        # for every value the wait can return: walk from the wait to the returns ('c ? a : b' and if/else alike)
        bad = []
        ev = w[2]
        ffr = FactFlow(fn)
        enums = D.enums.get("pika::cv_status") or {}
        for name, val in sorted(rset):
            outs = set()
            for evs, end in eval_walk(fn, wpos[0], tree_env={var: val}):
                if end != "return":
                    continue
                r_ = evs[-1][2]
                if not any(e is w[2] for _, _, e in evs) or r_.get("e") is None:
                    continue
                # only results that depend on the wait's outcome (an early 'if (ec) return error;' does not)
                word = re.compile(r"(^|[^\w.>])%s($|[^\w])" % re.escape(var))
                fbr = ffr.before.get((evs[-1][0], evs[-1][1])) or frozenset()
                dep = bool(word.search(T(r_["e"]))) or any(word.search(a) for a, _ in fbr)
                if not dep:
                    continue
                ev = r_
                try:
                    outs.add(eval_tree(r_["e"], {var: val}))
                except Unknown as e:
                    raise AnalysisBroken("%s: cannot evaluate %s" % (fn.full, T(r_["e"])))
            if not outs:
                raise AnalysisBroken("%s: no return after the wait" % fn.full)
            for out in outs:
                is_timeout = out == enums.get("timeout")
                if is_timeout != (name == "timeout"):
                    bad.append((name, out))
        if bad:
            rep.bad("C07.R3", fn, loc_of(ev), "status-mapping", "wait_until maps wait results wrongly: %s (a notified wait must not report a timeout and vice versa)" % bad)
        else:
            rep.ok("C07.R3", fn, "cv_status::timeout iff the detail wait returned 'timeout' (return set %s)" % sorted(n for n, v in rset))
    # predicate forms
    preds = [fn for fn in D.fns if not fn.pattern and fn.parent == -1 and fn.raw.get("ret") == "bool" and
             any(p["name"] == "pred" for p in fn.params)]
    if len(preds) < 3:
        raise AnalysisBroken("predicate wait forms not instantiated")
    for fn in preds:
        ff = FactFlow(fn)
        for b, i, ev in fn.all_events():
            if ev.get("k") != "return" or (b, i) not in ff.before:
                continue
            v = strip(ev["e"])
            if v.get("k") == "lit" and v.get("v") is True:
                if ("pred()", True) in ff.before[(b, i)]:
                    rep.ok("C07.R3", fn, "returns true only after pred() held")
                else:
                    rep.bad("C07.R3", fn, loc_of(ev), "true-without-pred", "predicate wait returns true without the predicate having been observed true")
            elif v.get("k") == "lit" and v.get("v") is False:
                fb = ff.before[(b, i)]
                if any(t and ("stop_requested()" in a or a == "ec") for a, t in fb):
                    rep.ok("C07.R3", fn, "returns false only on stop / error")
                else:
                    rep.bad("C07.R3", fn, loc_of(ev), "false-return", "predicate wait returns false without stop request or error")

    # the value a timed / stoppable predicate form returns is the predicate's value *now*: on every path the predicate is
    # evaluated after the last wait (while the caller's lock is held again), not carried over from before the wait
    from engine.core import forward
    for fn in preds:
        def is_pred(e):
            return e.get("k") == "call" and (T(e) == "pred()" or callee_of(e) in ("pred", "?pred") or (e.get("op") == "()" and P(e.get("recv") or {}) == "pred"))

        def is_wait(e):
            return e.get("k") == "call" and callee_short(e) in ("wait", "wait_until", "wait_for") and not is_pred(e)
        stale = []

        def tr(st, e, pos, stale=stale):
            if is_wait(e):
                return "stale"
            if is_pred(e):
                return "fresh"
            if e.get("k") == "return" and e.get("e") is not None:
                v = strip(e["e"])
                if not (v.get("k") == "lit") and st != "fresh":
                    stale.append(e)
            return st
        if not any(is_pred(e) for _, _, e in fn.all_events()) or not any(is_wait(e) for _, _, e in fn.all_events()):
            continue          # forwards to another predicate form
        forward(fn, "none", tr, None, lambda a, b: a if a == b else "stale")
        if stale:
            rep.bad("C07.R3", fn, loc_of(stale[0]), "stale-predicate-value", "the predicate wait returns %s, a value of the predicate from before the last wait: after a timeout (or stop) the predicate is not "
                    "re-evaluated under the re-acquired lock, so the call reports false although the condition became true before it returned" % T(stale[0]["e"]))
        else:
            rep.ok("C07.R3", fn, "every returned predicate value is evaluated after the last wait")

    vpreds = [fn for fn in D.fns if not fn.pattern and fn.parent == -1 and fn.raw.get("ret") == "void" and
              any(p["name"] == "pred" for p in fn.params)]
    if len(vpreds) < 2:
        raise AnalysisBroken("void predicate wait forms not instantiated")
    for fn in vpreds:
        ff = FactFlow(fn)
        st = ff.block_in.get(fn.exit)
        if st is not None and ("pred()", True) in st:
            rep.ok("C07.R3", fn, "wait(lock, pred) returns only after pred() held")
        else:
            rep.bad("C07.R3", fn, fn.loc, "return-without-pred", "wait(lock, pred) can return while the predicate is false (a single wake-up ends the wait)")

    # ---- R4 notify
    for cls in ("condition_variable", "condition_variable_any"):
        for m in ("notify_one", "notify_all"):
            fs = [f for f in D.find(r"^pika::%s::%s$" % (cls, m)) if not f.pattern]
            if not fs:
                raise AnalysisBroken("pika::%s::%s not found" % (cls, m))
            fn = fs[0]
            lf = LockFlow(fn)
            c = [(b, i, ev) for b, i, ev in fn.all_events() if ev.get("k") == "call" and callee_of(ev) == "pika::detail::condition_variable::" + m]
            if len(c) != 1:
                rep.bad("C07.R4", fn, fn.loc, "notify-call", "%s must forward to the detail %s exactly once" % (m, m))
                continue
            b, i, ev = c[0]
            tmp = [(bb, ii) for bb, ii, e2 in fn.all_events() if e2.get("k") == "ctor" and e2.get("copymove") == "move"
                   and e2.get("rec") == "std::unique_lock" and not e2.get("var") and bb == b and ii < i]
            pos = tmp[-1] if tmp else (b, i)
            held = lf.held_before(pos) or frozenset()
            if "this->data_->mtx_" in held and is_moved(ev["args"][0]):
                rep.ok("C07.R4", fn, "locks data_->mtx_ and hands the lock to cond_.%s by move" % m)
            else:
                rep.bad("C07.R4", fn, loc_of(ev), "notify-lock", "%s must hold the internal mutex (%s) and pass the lock by move" % (m, sorted(held)))

    cvdetail.wait_rules(rep, "C07.R5", CVF)
    cvdetail.notify_rules(rep, "C07.R5", CVF)

    # ---- R6: the agent of plain OS threads
    from engine.kinds import bypass_path
    DA = facts(rep, lib("execution_base", "src/this_thread.cpp"), [r"default_agent::(suspend|resume|abort|sleep_for|sleep_until)$"])
    da = {f.qname.rsplit("::", 1)[-1]: f for f in DA.fns if f.parent == -1}
    for need in ("suspend", "resume", "abort", "sleep_for", "sleep_until"):
        if need not in da:
            raise AnalysisBroken("default_agent::%s not found" % need)
    waits_for_not_running = {}
    for nm in ("resume", "abort"):
        f = da[nm]
        deliver = lambda e: e.get("k") == "call" and callee_short(e) in ("notify_one", "notify_all") and "suspend_cv_" in P(e.get("recv"))
        setrun = lambda e: e.get("k") == "write" and P(e["lhs"]) == "this->running_" and T(strip(e.get("rhs"))) == "true"
        byp = bypass_path(f, deliver)
        byp2 = bypass_path(f, setrun)
        if byp is None and byp2 is None and any(deliver(e) for _, _, e in f.all_events()):
            rep.ok("C07.R6", f, "default_agent::%s sets running_ and notifies the suspended thread on every path" % nm)
        else:
            rep.bad("C07.R6", f, f.loc, "agent-%s-filtered" % nm, "default_agent::%s can return without waking the target (path %s): a resume that arrives before the "
                    "target has parked itself is dropped - the waiter's queue entry is already consumed, nothing will ever wake it" % (nm, byp or byp2))
        # the flag is a boolean, not a counter: a wake-up that sets running_ = true while the target has not yet parked (running_ still true) is
        # overwritten by the target's own running_ = false - resume()/abort() therefore first wait until the target announced running_ == false
        lams0 = [l for l in DA.fns if l.parent == f.id]
        pred_ok = any(e.get("k") == "return" and T(strip(e.get("e"))) in ("!this->running_", "this->running_ == false") for l in lams0 for _, _, e in l.all_events())
        waitc = lambda e: e.get("k") == "call" and callee_short(e) in ("wait", "wait_for", "wait_until") and "resume_cv_" in P(e.get("recv"))
        sets = [(b, i) for b, i, e in f.all_events() if setrun(e)]
        ffa = FactFlow(f)
        guarded_by_fact = all(("this->running_", False) in (ffa.before.get(p_) or frozenset()) for p_ in sets)
        if sets and ((pred_ok and all(precedes_on_all_paths(f, waitc, p_) for p_ in sets)) or guarded_by_fact):
            rep.ok("C07.R6", f, "default_agent::%s sets running_ only after the target announced that it parked (running_ == false)" % nm)
        elif sets:
            rep.bad("C07.R6", f, loc_of(f.blocks[sets[0][0]].events[sets[0][1]]), "agent-%s-early" % nm, "default_agent::%s sets running_ = true without first waiting for the target to "
                    "announce running_ == false: a wake-up that arrives between the waiter's release of the internal lock and its suspend() is overwritten by the waiter's own "
                    "running_ = false - it then sleeps for ever although it was notified (the queue entry is already consumed)" % nm)
        lams = [l for l in DA.fns if l.parent == f.id]
        waits_for_not_running[nm] = any(e.get("k") == "return" and T(strip(e.get("e"))) in ("!this->running_", "this->running_ == false") for l in lams for _, _, e in l.all_events())
    blocking = lambda e: e.get("k") == "call" and (callee_short(e) in ("wait", "wait_for", "wait_until") and "_cv_" in P(e.get("recv")) or
                                                    callee_of(e) in ("std::this_thread::sleep_for", "std::this_thread::sleep_until"))
    # the members the condition variable parks a waiter in: suspend() (wait) and sleep_until() (wait_until; wait_for
    # is converted to an absolute time first) - sleep_for alone is never the target of a resume
    for nm in ("suspend", "sleep_until"):
        f = da[nm]
        bl = [(b, i, e) for b, i, e in f.all_events() if blocking(e)]
        if not bl:
            raise AnalysisBroken("default_agent::%s: blocking call not recognised" % nm)
        clears = lambda e: e.get("k") == "write" and P(e["lhs"]) == "this->running_" and T(strip(e.get("rhs"))) == "false"
        if not any(waits_for_not_running.values()) or all(precedes_on_all_paths(f, clears, (b, i)) for b, i, e in bl):
            rep.ok("C07.R6", f, "default_agent::%s announces running_ = false before it blocks (resume() waits for that)" % nm)
        else:
            rep.bad("C07.R6", f, loc_of(bl[0][2]), "timed-wait-not-resumable:" + nm, "default_agent::%s blocks without clearing running_, but resume()/abort() wait for running_ == false: "
                    "notify_one / notify_all on a plain OS thread that is in a timed condition-variable wait blocks the notifier forever while it holds the condition "
                    "variable's internal lock (the waiter then deadlocks on that lock at its deadline)" % nm)


    # ---- R7: the stop-token waits register a stop_callback: the list it lives in and the hand-shake of its (de)registration are decided by C14's rules
    from .common import import_rules
    import_rules(rep, tier, "C14", ("C14.R3", "C14.R4", "C14.R9", "C14.R10"), "C07.R7",
                 "K1/K2/K8 (shared with C14.R3/R4/R9/R10): stop-token waits are woken through a stop_callback on the token's state - the callback list stays a consistent "
                 "doubly-linked list under the state's lock, every registered callback runs when stop is requested, a refused registration is not waited for: a wait(lock, "
                 "stop_token, pred) whose stop is requested is woken whatever other waits on the same stop state did before")
