# Rules on pika::detail::condition_variable shared by C02 (no lost wake-up) and C07 (condition variables)
from engine.core import AnalysisBroken, P, T, callee_of, callee_short, cond_atoms, loc_of, strip, block_path
from engine.kinds import LockFlow, FactFlow, CountFlow, precedes_on_all_paths, loop_of, on_every_cycle
from .common import facts, lib

CV = "pika::detail::condition_variable"


def load(rep):
    return facts(rep, lib("synchronization", "src/detail/condition_variable.cpp"), [r"^pika::detail::condition_variable::"])


def defs(F, name):
    fs = [f for f in F.find("^" + CV + "::" + name + "$") if f.file.endswith("condition_variable.cpp") and not f.pattern]
    return fs


def wait_rules(rep, rid, F):
    """enqueue -> release lock (RAII) -> suspend; entry removed on every exit; signaled iff entry consumed"""
    for name, susp in (("wait", "suspend"), ("wait_until", "sleep_until")):
        fs = defs(F, name)
        if len(fs) != 1:
            raise AnalysisBroken("expected one definition of %s::%s" % (CV, name))
        fn = fs[0]
        sus = [(b, i, ev) for b, i, ev in fn.all_events() if ev.get("k") == "call" and callee_short(ev) == susp]
        if len(sus) != 1:
            raise AnalysisBroken("%s: expected one %s()" % (fn.qname, susp))
        sb, si, sev = sus[0]
        lf = LockFlow(fn)
        push = lambda e: e.get("k") == "call" and callee_short(e) in ("push_back", "push_front") and P(e.get("recv")) == "this->queue_"
        ulc = [(b, i, ev) for b, i, ev in fn.all_events() if ev.get("k") == "ctor" and ev.get("rec") == "pika::detail::unlock_guard"]
        if len(ulc) != 1:
            rep.bad(rid, fn, loc_of(sev), "no-unlock-guard", "%s must release the caller's lock through exactly one RAII unlock_guard around %s()" % (name, susp))
            continue
        ub, ui, uev = ulc[0]
        pushed_before_unlock = precedes_on_all_paths(fn, push, (ub, ui))
        held_at_push = all("@" + fn.params[0]["name"] in (lf.held_before((b, i)) or ()) for b, i, ev in fn.all_events() if push(ev))
        unlocked_at_suspend = precedes_on_all_paths(fn, lambda e: e is uev, (sb, si),
                                                    reset_pred=lambda e: e.get("k") == "dtor" and e.get("var") == uev.get("var"))
        still_held = "@" + fn.params[0]["name"] in (lf.held_before((sb, si)) or ())
        if pushed_before_unlock and held_at_push and unlocked_at_suspend and not still_held:
            rep.ok(rid, fn, "queue_.push_back (lock held) precedes the unlock_guard which precedes %s()" % susp)
        else:
            rep.bad(rid, fn, loc_of(sev), "enqueue-unlock-suspend",
                    "the waiter must be enqueued while the lock is held, before the lock is released, before it suspends "
                    "(enqueued before unlock: %s, lock held at enqueue: %s, lock released at %s(): %s): a notify issued in the "
                    "window is lost" % (pushed_before_unlock, held_at_push, susp, unlocked_at_suspend and not still_held),
                    path=[{"block": x} for x in block_path(fn, sb)])
        # reset_queue_entry (removes the entry on every exit) is constructed before the lock is released
        rqe = lambda e: e.get("k") == "ctor" and e.get("rec", "").endswith("reset_queue_entry")
        if precedes_on_all_paths(fn, rqe, (ub, ui)):
            rep.ok(rid, fn, "reset_queue_entry guard constructed before the unlock")
        else:
            rep.bad(rid, fn, loc_of(uev), "no-reset-guard", "the queue entry is not protected by reset_queue_entry before the lock is released: "
                    "a waiter leaving by timeout/exception stays in the queue and a later notify wakes a dead entry")
        # result mapping
        # result mapping: every returned value with the facts it is returned under ('c ? a : b' and if/else alike)
        from engine.kinds import guarded_returns
        gr = guarded_returns(fn)
        rets = [ev for _, _, ev in gr]
        good = bool(gr)
        seen = set()
        for leaf, fb, _ in gr:
            v = T(leaf)
            ctx = [t for a, t in fb if a.endswith(".ctx_")]
            if v.endswith("::timeout"):
                good = good and ctx == [True]
            elif v.endswith("::signaled"):
                good = good and ctx == [False]
            else:
                good = False
            seen.add(v.rsplit("::", 1)[-1])
        good = good and seen == {"timeout", "signaled"}
        # the entry's context (cleared by a notifier under the caller's lock) is inspected with that lock held again:
        # a result read while the lock is still released can say 'timeout' for an entry a notifier is just consuming
        lock_id = "@" + fn.params[0]["name"]
        unlocked_reads = [(b, i, ev) for b, i, ev in fn.all_events() if ev.get("k") == "read" and P(ev["e"]).endswith(".ctx_") and
                          precedes_on_all_paths(fn, lambda e: e is sev, (b, i)) and lock_id not in (lf.held_before((b, i)) or ())]
        if unlocked_reads:
            rep.bad(rid, fn, loc_of(unlocked_reads[0][2]), "result-read-unlocked", "%s decides between 'timeout' and 'signaled' (reads %s) before the caller's lock has been re-acquired: a notifier that "
                    "holds the lock can consume exactly this entry afterwards - the waiter reports a timeout and the notification (a semaphore permit, a mutex hand-over) is lost" % (name, P(unlocked_reads[0][2]["e"])))
        else:
            rep.ok(rid, fn, "the wait result is read with the caller's lock re-acquired")
        if good:
            rep.ok(rid, fn, "returns signaled iff the queue entry's context was consumed by a notifier")
        else:
            rep.bad(rid, fn, loc_of(rets[0]) if rets else fn.loc, "result-mapping", "%s must return 'signaled' exactly when f.ctx_ was reset by a notifier and 'timeout' otherwise" % name)


def notify_rules(rep, rid, F):
    fs = defs(F, "notify_one")
    fs = [f for f in fs if len(f.params) == 3]
    if len(fs) != 1:
        raise AnalysisBroken("expected one 3-parameter definition of %s::notify_one" % CV)
    fn = fs[0]
    lf = LockFlow(fn)
    ff = FactFlow(fn)
    is_resume = lambda e: e.get("k") == "call" and callee_short(e) == "resume"
    res = [(b, i, ev) for b, i, ev in fn.all_events() if is_resume(ev)]
    if len(res) != 1:
        rep.bad(rid, fn, fn.loc, "resume-count", "notify_one must contain exactly one ctx.resume() (found %d): a dequeued waiter is never woken" % len(res))
    else:
        rb, ri, rev = res[0]
        popped = precedes_on_all_paths(fn, lambda e: e.get("k") == "call" and callee_short(e) == "pop_front" and P(e.get("recv")) == "this->queue_", (rb, ri))
        reset = precedes_on_all_paths(fn, lambda e: e.get("k") == "call" and callee_short(e) == "reset" and P(e.get("recv")).endswith(".ctx_"), (rb, ri))
        held = "@" + fn.params[0]["name"] in (lf.held_before((rb, ri)) or ())
        if popped and reset and held:
            rep.ok(rid, fn, "entry consumed (ctx_.reset, pop_front) before ctx.resume(), lock still held")
        else:
            rep.bad(rid, fn, loc_of(rev), "resume-order", "ctx.resume() must come after ctx_.reset() and pop_front() with the lock still held "
                    "(popped %s, reset %s, held %s)" % (popped, reset, held))
        # the resumed context is the one copied from the queue head
        from .common import local_init
        from engine.kinds import derives_from
        ini = local_init(fn, P(rev.get("recv")))
        direct = ini is not None and "queue_.front()" in T(ini) and T(ini).endswith(".ctx_")
        via = derives_from(fn, rev.get("recv"), lambda t: t.endswith(".ctx_")) and derives_from(fn, rev.get("recv"), lambda t: "queue_.front()" in t)
        if direct or via:
            rep.ok(rid, fn, "the resumed context is the queue head's")
        else:
            rep.bad(rid, fn, loc_of(rev), "resume-target", "the resumed context is not the dequeued entry's context")
    cf = CountFlow(fn, lambda ev, pos: 1 if is_resume(ev) else 0)
    from engine.core import forward
    deq, _, _ = forward(fn, False, lambda st, ev, pos: True if (ev.get("k") == "call" and callee_short(ev) == "pop_front"
                                                                  and P(ev.get("recv")) == "this->queue_") else st,
                        None, lambda a, b: a and b)
    for (b, i), st in cf.ret_states.items():
        fb = ff.before.get((b, i)) or frozenset()
        nonempty = bool(deq.get((b, i)))        # a waiter was dequeued on every path to this return
        ctxname = P(res[0][2].get("recv")) if res else "ctx"        # the local holding the dequeued context, whatever it is called
        nullctx = any((not t) and a == ctxname for a, t in fb)
        want = {1} if (nonempty and not nullctx) else {0}
        ev = fn.blocks[b].events[i]
        if set(x for x in st if isinstance(x, int)) <= want:
            rep.ok(rid, fn, "return at %s: %s resume (non-empty queue: %s)" % (loc_of(ev), sorted(want), nonempty))
        else:
            rep.bad(rid, fn, loc_of(ev), "resume-once:%s" % ("nonempty" if nonempty else "empty"),
                    "on this path notify_one resumes %s time(s), expected %s" % (sorted(st), sorted(want)),
                    path=[{"block": x} for x in block_path(fn, b)])
    # notify_all
    fs = [f for f in defs(F, "notify_all") if len(f.params) == 3]
    if len(fs) != 1:
        raise AnalysisBroken("expected one 3-parameter definition of %s::notify_all" % CV)
    fn = fs[0]
    res = [(b, i, ev) for b, i, ev in fn.all_events() if is_resume(ev)]
    if len(res) != 1:
        rep.bad(rid, fn, fn.loc, "resume-count", "notify_all must contain exactly one ctx.resume() in its drain loop (found %d)" % len(res))
        return
    rb, ri, rev = res[0]
    loop = loop_of(fn, rb)
    if loop is None:
        rep.bad(rid, fn, loc_of(rev), "no-drain-loop", "notify_all resumes outside a loop: only one waiter is woken")
        return
    # the local list the waiters are moved to (swapped with this->queue_), whatever it is called
    from engine.core import subexprs
    sw = [e for _, _, e in fn.all_events() if e.get("k") == "call" and callee_short(e) == "swap" and "this->queue_" in T(e)]
    LQ = "queue"
    if sw:
        names = [x.get("name") for x in subexprs(sw[0], lambda y: isinstance(y, dict) and y.get("k") == "var" and not y.get("param"))]
        if names:
            LQ = names[0]
    exits = []
    for b in loop:
        blk = fn.blocks[b]
        for lab, t, _ in blk.succ:
            if t not in loop:
                exits.append((b, lab, cond_atoms(blk.cond) if blk.cond is not None else None))
    ok_exit = all(c is not None and c[0].endswith(LQ + ".empty()") and ((lab == "true") == c[1]) for b, lab, c in exits)
    every = on_every_cycle(fn, loop, rb)
    swapped = precedes_on_all_paths(fn, lambda e: e.get("k") == "call" and callee_short(e) == "swap" and "this->queue_" in T(e), (rb, ri))
    # the swapped-out list is not private: every entry's q_ points at it, and a timed waiter whose deadline expires
    # erases its own entry from it under the internal lock - so the caller's lock is held at every access to it
    lf2 = LockFlow(fn)
    want = "@" + fn.params[0]["name"]
    unl = [(b, i, ev) for b, i, ev in fn.all_events() if ev.get("k") == "call" and ev.get("recv") is not None and
           (P(ev["recv"]) == LQ or P(ev["recv"]).startswith(LQ + ".")) and callee_short(ev) in ("front", "pop_front", "empty", "begin", "end", "erase", "back", "pop_back")
           and want not in (lf2.held_before((b, i)) or ())]
    if unl:
        rep.bad(rid, fn, loc_of(unl[0][2]), "drain-unlocked", "notify_all touches the swapped-out waiter list (%s) without holding the lock it was given: a timed waiter "
                "that times out erases its entry from the same list concurrently (waiters are skipped, freed entries resumed)" % callee_short(unl[0][2]))
    else:
        rep.ok(rid, fn, "the swapped-out waiter list is accessed only with the caller's lock held")
    if ok_exit and every and swapped:
        rep.ok(rid, fn, "drain loop: leaves only when the swapped-out queue is empty; every iteration resumes once")
    else:
        rep.bad(rid, fn, loc_of(rev), "drain-loop", "notify_all must take over the whole queue and resume one waiter per iteration until it is empty "
                "(exit only on empty: %s, resume on every iteration: %s, queue taken over: %s)" % (ok_exit, every, swapped))
