# C11 — bulk calls f once per index, then completes once (structural part; DESIGN.md §5 C11)
import re
from engine.core import AnalysisBroken, P, T, callee_of, callee_short, cond_atoms, loc_of, strip, walk, subexprs, block_path
from engine.kinds import FactFlow, CountFlow, precedes_on_all_paths, always_followed_by, loop_of, reaches, expand_locals, eval_tree, Unknown
from engine.core import dominators
from engine.completions import Completions, NS
from .common import facts, lib, driver, local_init
from . import C17

EXPLANATION = (
    "Static analysis of the current source (thread_pool_scheduler's bulk, instantiated with a 64-bit and a 32-bit "
    "shape, and the generic bulk). Decided: an empty shape completes once and does nothing else; otherwise every "
    "worker's index queue is initialised before the first worker task is spawned, every worker index is either "
    "spawned or run locally, exactly once (R1); a worker task runs the loop inside try, records an exception, and calls "
    "finish() exactly once on every path; a worker with an empty queue finishes without spawning; the first exception "
    "wins the exception slot (R2); finish() completes only on the last decrement, with exactly one of error/value, and "
    "the task counter is initialised from the same worker count that bounds the loops (R3); on the value flow shape -> "
    "chunk size -> number of chunks -> queue bounds -> index range no integer conversion loses bits for a 64-bit shape, "
    "apart from the chunk count whose bound follows from the chunk-size loop's exit condition (R4); the generic bulk "
    "invokes f inside the guard, before its single value completion (R5); the index queue hands out every index at "
    "most once (R6 = C17.R1-R3). Not decided: that the chunk arithmetic partitions [0,n) exactly for all n and worker "
    "counts (pure arithmetic).")
ASSUMPTIONS = ["register_work runs the task function exactly once (C01)", "n >= 0 (precondition of bulk)"]
THOROUGH_CONFIGS = [["-UNDEBUG", "-DPIKA_DEBUG"]]
FLOORS = {"C11.R7": 6, "C11.R8": 3, "C11.R1": 3, "C11.R2": 6, "C11.R3": 5, "C11.R4": 3, "C11.R5": 1}

NSB = "pika::thread_pool_bulk_detail::operation_state::bulk_receiver"


def run(rep, tier):
    from .common import unknown_helpers_are_not_violations
    unknown_helpers_are_not_violations(rep, ("C11.R6",))
    rep.rule("C11.R1", "K2/K3: shape==0 completes once; all init_queue before any do_work_task; each worker spawned or run locally exactly once")
    rep.rule("C11.R2", "K3/K4: task: do_work in try, store_exception in the handler, finish() exactly once; empty queue -> finish without spawn; first exception wins")
    rep.rule("C11.R3", "K3/K7/K8: finish(): completion only on the last decrement, one of error/value; tasks_remaining initialised from num_worker_threads")
    rep.rule("C11.R4", "K10: no lossy integer conversion on the shape flow (64-bit shape)")
    rep.rule("C11.R5", "generic bulk: f invoked inside the guard before the single value completion")
    rep.rule("C11.R6", "contiguous_index_queue pops each index at most once (C17.R1-R3)")

    # the one-line forwarding helpers do_work_local / task_function::do_work are read in place (flattened): the rules are
    # about set_value and the task's operator() and hold whether or not those helpers exist
    D = facts(rep, driver("c11_bulk.cpp"), [r"^pika::thread_pool_bulk_detail::", r"^pika::bulk_detail::"], [r"^pika::thread_pool_bulk_detail::operation_state$"],
              flatten=[r"::bulk_receiver::do_work_local$", r"::task_function::do_work$"])
    C = Completions(D)

    def inst(q, pred=None):
        fs = [f for f in D.find("^" + re.escape(q) + "$") if not f.pattern and f.parent == -1 and (pred is None or pred(f))]
        if not fs:
            raise AnalysisBroken("%s not instantiated" % q)
        return fs
    # ---- R1
    for fn in inst(NSB + "::set_value"):
        ff = FactFlow(fn)
        initq = [(b, i, ev) for b, i, ev in fn.all_events() if ev.get("k") == "call" and callee_short(ev) == "init_queue"]
        spawn = [(b, i, ev) for b, i, ev in fn.all_events() if ev.get("k") == "call" and callee_short(ev) == "do_work_task"]
        # the local run: a task_function built in place and invoked (do_work_local, flattened)
        local = []
        for b, i, ev in fn.all_events():
            if ev.get("k") == "call" and callee_of(ev).endswith("::task_function::operator()") and ev.get("recv") is not None:
                rc = strip(ev["recv"])
                if rc.get("k") == "construct" and len(rc.get("args") or []) >= 4:
                    local.append((b, i, dict(ev, args=rc["args"])))
        early = [(b, i, ev) for b, i, ev in fn.all_events() if ev.get("k") == "call" and callee_of(ev) == NS + "set_value"]
        probs = []
        if len(initq) != 1 or len(spawn) != 1 or len(local) != 1 or len(early) != 1:
            if len(initq) == 1 and len(spawn) > 1:
                rep.bad("C11.R1", fn, loc_of(spawn[0][2]), "spawn-sites", "worker tasks are spawned at %d places: a worker index can be started twice or before all queues are initialised" % len(spawn))
                continue
            raise AnalysisBroken("%s: expected one init_queue / do_work_task / do_work_local / early set_value" % fn.full)
        li, ls = loop_of(fn, initq[0][0]), loop_of(fn, spawn[0][0])
        if li is None or ls is None:
            probs.append("queue initialisation / spawning is not done for every worker (not in a loop)")
        elif li & ls:
            probs.append("worker tasks are spawned inside the loop that initialises the queues: a task can steal from a queue that is not initialised yet")
        if li and ls:
            dom = dominators(fn)
            heads = [b for b in li if any(t not in li for _, t in fn.succs(b))]
            if not any(h in dom.get(spawn[0][0], set()) for h in heads) or reaches(fn, spawn[0][0], initq[0][0]):
                probs.append("the queue-initialisation loop does not run to completion before the first worker task is spawned")
        # loop bounds: both loops run worker_thread over [0, num_worker_threads)
        for lp, what in ((li, "init"), (ls, "spawn")):
            if lp:
                exits = [cond_atoms(fn.blocks[b].cond)[0] for b in lp for l, t, _ in fn.blocks[b].succ if t not in lp and fn.blocks[b].cond is not None]
                site = initq[0][2] if what == "init" else spawn[0][2]
                wv = P(site["args"][0] if what == "init" else site["args"][-1])       # the loop variable is what the call is given
                if not any(re.search(r"^%s < .*(->|\.)num_worker_threads$" % re.escape(wv), a) for a in exits):
                    probs.append("the %s loop is not bounded by num_worker_threads (%s)" % (what, exits))
        # the locally executed worker is exactly the one skipped in the spawn loop
        fbs = ff.before.get((spawn[0][0], spawn[0][1])) or frozenset()
        LW = P(local[0][2]["args"][3])                   # the worker index the local run uses
        lw_init = local_init(fn, LW)
        wv = P(spawn[0][2]["args"][-1])
        if not any((not t) and re.search(r"(^|\W)%s($|\W)" % re.escape(LW), a) and re.search(r"(^|\W)%s($|\W)" % re.escape(wv), a) and "==" in a for a, t in fbs):
            probs.append("the spawn loop does not skip exactly the local worker")
        if lw_init is None or "get_local_worker_thread_num" not in T(lw_init):
            probs.append("the local run does not use the local worker's queue")
        if ls and local[0][0] in ls:
            probs.append("the local run happens inside the spawn loop")
        # empty shape
        fbe = ff.before.get((early[0][0], early[0][1])) or frozenset()
        if not any(t and re.search(r"(->|\.)shape == 0$|^0 == .*(->|\.)shape$", a) for a, t in fbe):
            probs.append("the immediate value completion is not restricted to shape == 0")
        blk = fn.blocks[early[0][0]]
        if not any(e.get("k") == "return" for e in blk.events[early[0][1]:]):
            probs.append("after completing for an empty shape the function goes on to spawn work (second completion)")
        if probs:
            rep.bad("C11.R1", fn, fn.loc, "set-value", "; ".join(probs))
        else:
            rep.ok("C11.R1", fn, "empty shape: one completion and return; otherwise all queues initialised, then one task per non-local worker, then the local run")

    # ---- R2
    TF = NSB + "::task_function"
    for fn in inst(TF + "::operator()"):
        fin = lambda e: e.get("k") == "call" and callee_short(e) == "finish"
        cf = CountFlow(fn, lambda ev, pos: 1 if fin(ev) else 0)
        # the work loop: the loop visitor built and visited (task_function::do_work, flattened)
        dw = [(b, i, ev) for b, i, ev in fn.all_events() if (ev.get("k") == "call" and callee_short(ev) == "do_work") or
              (ev.get("k") in ("ctor", "construct") and str(ev.get("rec", "")).endswith("::set_value_loop_visitor") and not ev.get("copymove")) or
              (ev.get("k") == "call" and subexprs(ev, lambda y: isinstance(y, dict) and y.get("k") == "construct" and str(y.get("rec", "")).endswith("::set_value_loop_visitor")))]
        hb = [h["block"] for t in fn.tries.values() for h in t["handlers"]]
        stores = any(e.get("k") == "call" and callee_short(e) == "store_exception" for h in hb for e in fn.blocks[h].events)
        if cf.exits == frozenset([1]) and dw and all(x[2].get("try") is not None for x in dw) and stores:
            rep.ok("C11.R2", fn, "do_work() inside try, store_exception() in the handler, finish() exactly once on every path")
        else:
            rep.bad("C11.R2", fn, fn.loc, "task-body", "a worker task must run the loop inside try (%s), record an exception (%s) and call finish() exactly once (%s): "
                    "otherwise bulk never completes or an exception escapes the task" % (bool(dw and all(x[2].get("try") is not None for x in dw)), stores, sorted(cf.exits)))
    LV = NSB + "::set_value_loop_visitor"
    # who may invoke the user callable: op_state->f is referenced (other than for the annotation) only in
    # task_function::do_work_chunk, which is reached only through do_work() - i.e. inside the try above
    uses = []
    for fn in D.fns:
        if not fn.qname.startswith(NSB + "::") or fn.pattern:
            continue
        for b, i, ev in fn.all_events():
            if ev.get("k") == "read":
                continue
            refs = subexprs(ev, lambda y: isinstance(y, dict) and y.get("k") == "mem" and y.get("name") == "f" and
                            str(y.get("rec", "")).endswith("thread_pool_bulk_detail::operation_state"))
            if not refs:
                continue
            if ev.get("k") in ("ctor", "decl") and "scoped_annotation" in str(ev.get("rec", "")) + str(ev.get("type", "")):
                continue
            if ev.get("k") == "init":
                continue        # the operation state stores f
            uses.append((fn, b, i, ev))
    if not uses:
        raise AnalysisBroken("thread pool bulk: no use of the stored callable found")
    for fn, b, i, ev in uses:
        short = fn.qname.rsplit("::", 1)[-1]
        if fn.qname == LV + "::do_work_chunk":
            rep.ok("C11.R2", fn, "f is invoked in set_value_loop_visitor::do_work_chunk (reached only from the task's work loop, under its exception guard)")
        else:
            rep.bad("C11.R2", fn, loc_of(ev), "f-outside-guard:" + short, "the user callable is used in %s (%s), outside set_value_loop_visitor::do_work_chunk: an exception thrown "
                    "by f there is not recorded by store_exception() - it escapes a noexcept completion (std::terminate) instead of becoming set_error"
                    % (fn.qname, T(ev)[:120]))
    for fn in D.fns:
        if fn.pattern or not fn.qname.startswith(NSB + "::"):
            continue
        for b, i, ev in fn.all_events():
            if ev.get("k") == "call" and callee_short(ev) == "do_work_chunk" and not fn.qname.startswith(LV + "::"):
                rep.bad("C11.R2", fn, loc_of(ev), "chunk-outside-task", "do_work_chunk is called from %s, outside the worker task's exception guard" % fn.qname)
            if ev.get("k") in ("ctor", "construct") and str(ev.get("rec", "")) == LV and not ev.get("copymove") and fn.qname != TF + "::do_work" and \
                    not (fn.qname == TF + "::operator()" and ev.get("try") is not None):
                rep.bad("C11.R2", fn, loc_of(ev), "visitor-outside-task", "the loop visitor (which invokes f) is created in %s, outside task_function::do_work" % fn.qname)
            if ev.get("k") == "call" and callee_short(ev) == "do_work" and callee_of(ev).startswith(TF) and \
                    not (fn.qname == TF + "::operator()" and ev.get("try") is not None):
                rep.bad("C11.R2", fn, loc_of(ev), "do-work-outside-try", "task_function::do_work() is called outside the try block of the worker task")
    for fn in inst(NSB + "::do_work_task"):
        ff = FactFlow(fn)
        fin = [(b, i, ev) for b, i, ev in fn.all_events() if ev.get("k") == "call" and callee_short(ev) == "finish"]
        reg = [(b, i, ev) for b, i, ev in fn.all_events() if ev.get("k") == "call" and callee_short(ev) == "register_work"]
        cf = CountFlow(fn, lambda ev, pos: 1 if (ev.get("k") == "call" and callee_short(ev) in ("finish", "register_work")) else 0)
        okf = len(fin) == 1 and ("queue.empty()", True) in (ff.before.get((fin[0][0], fin[0][1])) or frozenset())
        okr = len(reg) == 1 and ("queue.empty()", False) in (ff.before.get((reg[0][0], reg[0][1])) or frozenset())
        moved = reg and "task_f" in T(reg[0][2]) or any(e.get("k") in ("ctor", "decl") and "task_f" in T(e.get("init") or e) and "make_thread_function_nullary" in T(e.get("init") or e) for _, _, e in fn.all_events())
        if cf.exits == frozenset([1]) and okf and okr:
            rep.ok("C11.R2", fn, "empty queue: finish() and no task; otherwise exactly one register_work of the task function")
        else:
            rep.bad("C11.R2", fn, fn.loc, "spawn", "do_work_task must either finish (empty queue) or spawn exactly one task (counts %s, finish guarded by empty: %s, spawn guarded by non-empty: %s)" % (sorted(cf.exits), okf, okr))
    for fn in inst(TF + "::store_exception"):
        ff = FactFlow(fn)
        wr = [(b, i, ev) for b, i, ev in fn.all_events() if (ev.get("k") == "call" and ev.get("op") == "=" and P(ev.get("recv")).endswith("exception")) or
              (ev.get("k") == "write" and P(ev["lhs"]).endswith("exception"))]
        if wr and all(any((not t) and "exception_thrown.exchange(true" in a for a, t in (ff.before.get((b, i)) or frozenset())) for b, i, ev in wr):
            rep.ok("C11.R2", fn, "the exception slot is written only after winning exception_thrown.exchange(true)")
        else:
            rep.bad("C11.R2", fn, fn.loc, "exception-race", "two failing workers can race on the exception slot (not guarded by exception_thrown.exchange(true))")
    # ---- R7: the index arithmetic, evaluated
    rep.rule("C11.R7", "K7 (evaluated on sample shapes): the chunks [index*chunk_size, min((index+1)*chunk_size, n)) tile [0, n) exactly; do_work_chunk calls f for "
             "every i of its chunk and no other; init_queue partitions the chunk indices [0, num_chunks) among the workers; every chunk index a worker pops "
             "(own queue from the left, neighbours' from the right) is processed, in a loop until the queue is empty; finish() completes with the recorded exception "
             "exactly when one was recorded")
    from engine.kinds import eval_tree as _ev, Unknown as _Un, eval_walk as _ewk, expand_locals as _xl
    n7 = 0
    for fn in inst(LV + "::do_work_chunk")[:2]:
        idx = fn.params[-1]["name"]
        decls = {e["var"]: e["init"] for _, _, e in fn.all_events() if e.get("k") == "decl" and e.get("init") is not None}
        loopc = [blk for blk in fn.blocks.values() if blk.cond is not None and loop_of(fn, blk.id)]
        app = [(b, i, e) for b, i, e in fn.all_events() if e.get("k") == "call" and callee_short(e) == "bind_front"]
        if len(loopc) != 1 or not app:
            raise AnalysisBroken("%s: loop over the chunk / call of f not found" % fn.full[:80])
        lc = loopc[0]
        ivars = [strip(e["args"][1]).get("name") for _, _, e in app if len(e.get("args") or []) >= 2 and strip(e["args"][1]).get("k") == "var"]
        if not ivars or ivars[0] not in decls:
            raise AnalysisBroken("%s: f is not called with the loop variable" % fn.full[:80])
        iv = ivars[0]
        bad = None
        nsamp = 0
        for cs in (1, 2, 4, 8):
            for n in (1, 2, 3, 7, 8, 9, 16, 17, 31):
                nchunks = (n + cs - 1) // cs
                covered = []
                for k in range(nchunks + 1):          # one chunk index past the end: must be empty
                    env = {idx: k, "this->task_f->chunk_size": cs, "this->task_f->n": n}
                    try:
                        i0 = _ev(_xl(fn, decls[iv]), env)
                        called = []
                        i_ = i0
                        for _guard in range(80):
                            env2 = dict(env)
                            env2[iv] = i_
                            truth = bool(_ev(_xl(fn, lc.cond), env2))
                            stays = [t for l, t, _ in lc.succ if l == ("true" if truth else "false")][0] in loop_of(fn, lc.id)
                            if not stays:
                                break
                            called.append(i_)
                            i_ += 1
                    except (_Un, KeyError, IndexError) as ex:
                        raise AnalysisBroken("%s: chunk bounds not evaluable (%s)" % (fn.full[:80], ex))
                    nsamp += 1
                    if k == nchunks and called and bad is None:
                        bad = "chunk index %d (one past the last) of n=%d, chunk_size=%d calls f for %s" % (k, n, cs, called[:4])
                    if k < nchunks:
                        covered += called
                if bad is None and covered != list(range(n)):
                    miss = sorted(set(range(n)) - set(covered))
                    extra = sorted(set(covered) - set(range(n)))
                    dup = sorted(set(x for x in covered if covered.count(x) > 1))
                    bad = "n=%d, chunk_size=%d: f is called for %s (never for %s, more than once for %s, out of range %s)" % (n, cs, covered[:12], miss[:6], dup[:6], extra[:6])
        # ... also where the shape is close to the largest value of its type: every intermediate value of the bound
        # arithmetic (only the operands C++ evaluates: the taken arm of ?:) is representable in the type it is computed in
        ity = None
        for _, _, e in fn.all_events():
            if e.get("k") == "decl" and e.get("var") == iv:
                ity = re.sub(r"\b(const|volatile)\b", "", str(e.get("type") or "")).strip()
        RANGES = {"int": (-2**31, 2**31 - 1), "unsigned int": (0, 2**32 - 1), "long": (-2**63, 2**63 - 1), "unsigned long": (0, 2**64 - 1),
                  "long long": (-2**63, 2**63 - 1), "unsigned long long": (0, 2**64 - 1), "short": (-2**15, 2**15 - 1), "unsigned short": (0, 2**16 - 1)}
        if ity not in RANGES:
            raise AnalysisBroken("%s: index type '%s' not recognised" % (fn.full[:80], ity))
        lo_, hi_ = RANGES[ity]
        big = hi_ if hi_ < 2**33 else 2**40 + 5

        def walk(node, env):
            node = strip(node)
            if not isinstance(node, dict):
                return
            k_ = node.get("k")
            if k_ == "cond":
                walk(node["c"], env)
                walk(node["t"] if _ev(node["c"], env) else node["f"], env)
                return
            if k_ == "bin":
                walk(node["l"], env)
                walk(node["r"], env)
                if node["op"] in ("+", "-", "*"):
                    v_ = _ev(node, env)
                    if isinstance(v_, int) and not isinstance(v_, bool) and not (lo_ <= v_ <= hi_):
                        raise OverflowError("%s = %d" % (T(node)[:70], v_))
                return
            for a_ in (node.get("args") or []):
                walk(a_, env)
            if node.get("e") is not None:
                walk(node["e"], env)
        for nthreads in (1, 4, 16):
            cs = 1
            while cs * nthreads * 8 < big:
                cs *= 2
            nchunks = (big + cs - 1) // cs
            for k in (0, nchunks - 1):
                env = {idx: k, "this->task_f->chunk_size": cs, "this->task_f->n": big}
                try:
                    for nm in decls:
                        walk(_xl(fn, decls[nm]), env)
                    env2 = dict(env)
                    env2[iv] = _ev(_xl(fn, decls[iv]), env)
                    walk(_xl(fn, lc.cond), env2)
                    nsamp += 1
                    # the last chunk ends at n
                    if k == nchunks - 1:
                        env3 = dict(env)
                        env3[iv] = big - 1
                        truth = bool(_ev(_xl(fn, lc.cond), env3))
                        if [t for l, t, _ in lc.succ if l == ("true" if truth else "false")][0] not in loop_of(fn, lc.id) and bad is None:
                            bad = "n=%d (%s), chunk_size=%d: the last chunk (index %d) does not reach n - 1" % (big, ity, cs, k)
                except OverflowError as ex:
                    if bad is None:
                        bad = "n=%d (%s), %d workers, chunk_size=%d, chunk index %d: %s is not representable in %s - the bound wraps / overflows, the chunk is skipped or runs out of range" % (
                            big, ity, nthreads, cs, k, ex, ity)
                except (_Un, KeyError, IndexError) as ex:
                    raise AnalysisBroken("%s: chunk bounds not evaluable near the type maximum (%s)" % (fn.full[:80], ex))
        n7 += 1
        if bad:
            rep.bad("C11.R7", fn, fn.loc, "chunk-tiling", "do_work_chunk does not call f exactly once for every index of [0, n): %s" % bad)
        else:
            rep.ok("C11.R7", fn, "chunks tile [0, n) exactly and f is called once per index (%d chunk evaluations)" % nsamp, sites=nsamp)
    for fn in inst(NSB + "::init_queue")[:1]:
        decls = {e["var"]: e["init"] for _, _, e in fn.all_events() if e.get("k") == "decl" and e.get("init") is not None}
        rs = [e for _, _, e in fn.all_events() if e.get("k") == "call" and callee_short(e) == "reset" and len(e.get("args") or []) == 2]
        if len(rs) != 1 or len(fn.params) != 2:
            raise AnalysisBroken("init_queue: queue.reset(begin, end) not found")
        w_, nc_ = fn.params[0]["name"], fn.params[1]["name"]
        bad = None
        for W in (1, 2, 3, 4, 7):
            for NC in (0, 1, 2, 5, 8, 33):
                got = []
                for w in range(W):
                    env = {w_: w, nc_: NC, "this->op_state->num_worker_threads": W}
                    try:
                        b0, e0 = _ev(_xl(fn, rs[0]["args"][0]), env), _ev(_xl(fn, rs[0]["args"][1]), env)
                    except _Un as ex:
                        raise AnalysisBroken("init_queue: range not evaluable (%s)" % ex)
                    got += list(range(int(b0), int(e0)))
                if got != list(range(NC)) and bad is None:
                    bad = "%d workers, %d chunks: the queues hold %s" % (W, NC, got[:12])
        n7 += 1
        if bad:
            rep.bad("C11.R7", fn, loc_of(rs[0]), "chunk-partition", "init_queue does not partition the chunk indices [0, num_chunks) among the workers: %s - chunks are never "
                    "processed (indices never passed to f) or processed twice" % bad)
        else:
            rep.ok("C11.R7", fn, "init_queue partitions [0, num_chunks) among the workers (30 sample configurations)")
    for fn in [f for f in inst(LV + "::operator()") if any(callee_short(e) in ("pop_left", "pop_right") for _, _, e in f.all_events() if e.get("k") == "call")][:2]:
        pops = [(b, i, e) for b, i, e in fn.all_events() if e.get("k") == "call" and callee_short(e) in ("pop_left", "pop_right")]
        for b, i, e in pops:
            n7 += 1
            lp = loop_of(fn, b)
            # the block that tests the popped value
            test = [blk for blk in fn.blocks.values() if blk.cond is not None and lp and blk.id in lp and any(x is e for x in blk.events)]
            if not lp or not test:
                rep.bad("C11.R7", fn, loc_of(e), "pop-not-drained:" + callee_short(e), "%s is not the test of a loop: a worker takes at most one chunk from that queue and "
                        "leaves the rest unprocessed (f is never called for those indices; the operation completes all the same)" % T(e))
                continue
            tb = test[0]
            a, pos = cond_atoms(tb.cond)
            succ_lab = "true" if pos else "false"
            tgt = [t for l, t, _ in tb.succ if l == succ_lab]
            miss = None
            if tgt:
                # from the success edge: do_work_chunk before the next pop / leaving
                seen, stack, ok_ = set(), [tgt[0]], True
                while stack:
                    v = stack.pop()
                    if v in seen:
                        continue
                    seen.add(v)
                    evs = fn.blocks[v].events
                    if any(x.get("k") == "call" and callee_short(x) == "do_work_chunk" for x in evs):
                        continue
                    if v == tb.id or v == fn.exit or any(x.get("k") == "call" and callee_short(x) in ("pop_left", "pop_right") for x in evs):
                        ok_ = False
                        break
                    stack += [t for _, t in fn.succs(v)]
                miss = not ok_
            if miss or not tgt:
                rep.bad("C11.R7", fn, loc_of(e), "popped-chunk-dropped:" + callee_short(e), "a chunk index obtained by %s is not handed to do_work_chunk before the next pop: "
                        "f is never called for the indices of that chunk" % callee_short(e))
            else:
                rep.ok("C11.R7", fn, "every chunk popped by %s is processed, in a loop until the queue is empty" % callee_short(e))
    for fn in inst(TF + "::finish")[:1]:
        ff = FactFlow(fn)
        for b, i, e in fn.all_events():
            if e.get("k") != "call":
                continue
            fb = ff.before.get((b, i)) or frozenset()
            thrown = [t for a, t in fb if "exception_thrown" in a and "exchange" not in a]
            if callee_of(e) == NS + "set_error":
                n7 += 1
                if True in thrown:
                    rep.ok("C11.R7", fn, "set_error only when an exception was recorded")
                else:
                    rep.bad("C11.R7", fn, loc_of(e), "finish-branch", "finish() completes with set_error on the path where no exception was recorded (an empty optional is dereferenced) "
                            "and with the values although a call of f threw")
            elif callee_short(e) == "visit":
                n7 += 1
                if False in thrown:
                    rep.ok("C11.R7", fn, "the value completion only when no exception was recorded")
                else:
                    rep.bad("C11.R7", fn, loc_of(e), "finish-branch", "finish() forwards the values on a path where an exception was recorded: the receiver gets a value although f threw")
    if n7 < 6:
        raise AnalysisBroken("C11.R7 examined only %d instances" % n7)

    # ---- R3
    for fn in inst(TF + "::finish"):
        ff = FactFlow(fn)
        s = C.summary(fn)
        comps = [(b, i, ev) for b, i, ev in fn.all_events() if ev.get("k") == "call" and (callee_of(ev) == NS + "set_error" or callee_short(ev) == "visit")]
        last = comps and all(any(t and re.search(r"--\(?this->op_state->tasks_remaining\)? == 0|0 == --", a) for a, t in (ff.before.get((b, i)) or frozenset())) for b, i, ev in comps)
        if s.normal <= {0, 1} and 1 in s.normal and last and len(comps) == 2:
            rep.ok("C11.R3", fn, "finish(): completes (error xor value) only on the edge --tasks_remaining == 0")
        else:
            rep.bad("C11.R3", fn, fn.loc, "finish", "finish() must complete exactly once and only for the last worker (counts %s, guarded by the last decrement: %s)" % (sorted(s.normal), bool(last)))
    # every task that may have run chunks is counted: finish() decrements on every path, and nobody re-sizes the counter / the
    # number of participating workers after the operation state was built (the spawning thread itself takes part - it steals
    # chunks like the others - whatever its worker number is)
    from engine.kinds import bypass_path as _bp3
    for fn in inst(TF + "::finish"):
        dec3 = lambda e: (e.get("k") == "call" and e.get("op") == "--" and "tasks_remaining" in P(e.get("recv") or {})) or \
            (e.get("k") == "write" and e.get("op") == "--" and "tasks_remaining" in P(e["lhs"])) or \
            (e.get("k") == "call" and callee_short(e) in ("fetch_sub",) and "tasks_remaining" in P(e.get("recv") or {}))
        byp = _bp3(fn, dec3)
        if byp is None:
            rep.ok("C11.R3", fn, "finish() decrements tasks_remaining on every path")
        else:
            rep.bad("C11.R3", fn, fn.loc, "finish-uncounted", "finish() can return without decrementing tasks_remaining: a task that took part in the chunk loop (it steals chunks "
                    "whatever its worker number) is not waited for - the last counted task signals the receiver while that task is still inside f")
    rewr = []
    for fn in D.fns:
        if not fn.qname.startswith("pika::thread_pool_bulk_detail::") or fn.qname.endswith("::finish"):
            continue
        for b, i, e in fn.all_events():
            tgt = None
            if e.get("k") == "write":
                tgt = P(e["lhs"])
            elif e.get("k") == "call" and e.get("op") in ("=", "+=", "-=", "--", "++") and e.get("recv") is not None:
                tgt = P(e["recv"])
            elif e.get("k") == "call" and callee_short(e) in ("store", "exchange", "fetch_sub", "fetch_add") and e.get("recv") is not None:
                tgt = P(e["recv"])
            if tgt and re.search(r"op_state(->|\.)(tasks_remaining|num_worker_threads)$", tgt):
                rewr.append((fn, e, tgt))
    if rewr:
        fn, e, tgt = rewr[0]
        rep.bad("C11.R3", fn, loc_of(e), "counter-rewritten", "%s writes %s after the operation state was built: the join counter / the number of participating workers no longer match the "
                "tasks that call finish() (the spawning thread takes part whatever its number), so the receiver can be signalled while a call of f is still running" % (
                    fn.qname.rsplit("::", 1)[-1], tgt))
    else:
        rep.ok("C11.R3", "pika::thread_pool_bulk_detail::operation_state", "tasks_remaining / num_worker_threads are fixed once the operation state is built (only finish() decrements)")
    recs = [r for r in D.records.values() if r["qname"] == "pika::thread_pool_bulk_detail::operation_state" and not r.get("dependent")]
    if not recs:
        raise AnalysisBroken("operation_state record not found")
    for r in recs[:1]:
        f = {x["name"]: x for x in r["fields"]}
        tr = T(f.get("tasks_remaining", {}).get("init"))
        q = T(f.get("queues", {}).get("init"))
        if "num_worker_threads" in tr and "num_worker_threads" in q:
            rep.ok("C11.R3", r["qname"], "tasks_remaining and queues are both sized by num_worker_threads (the bound of both loops)")
        else:
            rep.bad("C11.R3", r["qname"], r["loc"], "counter-init", "tasks_remaining (%s) / queues (%s) must be initialised from num_worker_threads" % (tr, q))

    # ---- R4 (64-bit shape instantiation)
    wide = lambda f: "unsigned long" in f.full and ", unsigned long," in f.full
    gcs = inst(NSB + "::get_chunk_size", wide)[0]
    lossy = []
    if len(gcs.params) != 2:
        raise AnalysisBroken("get_chunk_size: expected (num_threads, n)")
    NT, NN = gcs.params[0]["name"], gcs.params[1]["name"]
    rets = [e for _, _, e in gcs.all_events() if e.get("k") == "return"]
    RV = P(rets[0]["e"]) if len(rets) == 1 else None          # the chunk-size variable is the one that is returned
    if RV is None:
        raise AnalysisBroken("get_chunk_size: expected one return")
    for b, i, ev in gcs.all_events():
        if ev.get("k") == "cast" and ev.get("wf", 0) > ev.get("wt", 64) and subexprs(ev["e"], lambda x: x.get("k") == "var" and x.get("name") in (NN, RV)):
            lossy.append(ev)
    cs_decl = [e for _, _, e in gcs.all_events() if e.get("k") == "decl" and e.get("var") == RV]
    narrow_ret = not ("64" in (gcs.raw.get("ret") or "") or "unsigned long" in (gcs.raw.get("ret") or "") or "size_t" in (gcs.raw.get("ret") or ""))
    narrow_var = cs_decl and not any(x in cs_decl[0].get("type", "") for x in ("64", "unsigned long", "size_t"))
    # the loop's exit condition bounds the number of chunks: chunk_size * num_threads * 8 >= n
    # (decided by evaluating the loop condition, with named constants and casts of n folded, over sample points)
    def bound_cond(c):
        c = expand_locals(gcs, c)
        try:
            return all(bool(eval_tree(c, {RV: cs, NT: nt, NN: n})) == (cs * nt * 8 < n)
                       for cs in (1, 2, 64, 1 << 20) for nt in (1, 3, 16) for n in (0, 1, 7, 8, 9, 383, 384, 385, 1 << 33))
        except Unknown:
            return False
    # ... and it has to be the test of a loop (an 'if' doubles the chunk size once and leaves without the bound)
    exit_ok = any(bound_cond(blk.cond) and loop_of(gcs, blk.id) is not None for blk in gcs.blocks.values() if blk.cond is not None)
    if lossy or narrow_ret or narrow_var:
        what = []
        if lossy:
            what.append("%s is converted from %d to %d bits (%s)" % (T(lossy[0]["e"]), lossy[0]["wf"], lossy[0]["wt"], loc_of(lossy[0])))
        if narrow_ret or narrow_var:
            what.append("the chunk size is computed/returned in a %s" % (cs_decl[0].get("type") if cs_decl else gcs.raw.get("ret")))
        rep.bad("C11.R4", gcs, loc_of(lossy[0]) if lossy else gcs.loc, "narrowing:get_chunk_size",
                "for a 64-bit shape %s: with n >= 2^32 the comparison sees n mod 2^32 (n = 2^32 gives chunk_size 1 and 2^32 chunks, truncated to 0 below -> f is never "
                "called and bulk still completes with a value), and for n > 2^31 the 32-bit product chunk_size*num_threads*8 wraps so the loop does not terminate" % "; ".join(what))
    elif not exit_ok:
        rep.bad("C11.R4", gcs, gcs.loc, "chunk-bound", "the chunk-size loop no longer guarantees chunk_size*num_threads*8 >= n, which bounds the number of chunks handed to the 32-bit index queues")
    else:
        rep.ok("C11.R4", gcs, "get_chunk_size computes in 64 bits and leaves with chunk_size*num_threads*8 >= n (number of chunks <= 8*num_threads + 1)")
    sv = inst(NSB + "::set_value", wide)[0]
    lossy = []
    csv = [e["var"] for _, _, e in sv.all_events() if e.get("k") == "decl" and e.get("init") is not None and "get_chunk_size(" in T(e["init"])]
    if len(csv) != 1:
        raise AnalysisBroken("set_value: the local holding get_chunk_size()'s result was not found")
    CSV = csv[0]
    for b, i, ev in sv.all_events():
        if ev.get("k") == "cast" and ev.get("wf", 0) > ev.get("wt", 64) and subexprs(ev["e"], lambda x: x.get("k") in ("var", "mem") and x.get("name") in (CSV, "shape")):
            lossy.append(ev)
        if ev.get("k") == "call" and callee_short(ev) in ("do_work_task", "do_work_local"):
            for a, pt in zip(ev["args"], ev.get("ptypes", [])):
                if P(a) == CSV and not any(x in pt for x in ("64", "unsigned long", "size_t")) :
                    lossy.append({"e": a, "wf": 64, "wt": 32, "loc": loc_of(ev)})
    if lossy:
        rep.bad("C11.R4", sv, loc_of(lossy[0]), "narrowing:set_value", "%s is narrowed from %s to %s bits on its way to the workers" % (T(lossy[0]["e"]), lossy[0]["wf"], lossy[0]["wt"]))
    else:
        rep.ok("C11.R4", sv, "shape and chunk size reach the workers without narrowing")
    dwc = inst(NSB + "::set_value_loop_visitor::do_work_chunk", wide)
    for fn in dwc[:1]:
        lossy = [ev for b, i, ev in fn.all_events() if ev.get("k") == "cast" and ev.get("wf", 0) > ev.get("wt", 64)]
        if lossy:
            rep.bad("C11.R4", fn, loc_of(lossy[0]), "narrowing:do_work_chunk", "index arithmetic narrows %s from %s to %s bits" % (T(lossy[0]["e"]), lossy[0]["wf"], lossy[0]["wt"]))
        else:
            rep.ok("C11.R4", fn, "index range [index*chunk_size, min((index+1)*chunk_size, n)) computed in the shape's width")
        calls = [e for _, _, e in fn.all_events() if e.get("k") == "call" and callee_short(e) == "apply"]
        lp = calls and loop_of(fn, [b for b, i, e in fn.all_events() if e is calls[0]][0])
        if not calls or lp is None:
            rep.bad("C11.R4", fn, fn.loc, "no-loop", "do_work_chunk does not invoke f for every index of the chunk")

    # ---- R5 generic bulk
    gb = [f for f in D.find(r"^pika::bulk_detail::bulk_sender::bulk_receiver::set_value$") if f.parent == -1]
    if not gb:
        raise AnalysisBroken("generic bulk receiver not found")
    from .C03 import usable, lexically_guarded
    done = False
    for fn0 in gb:
        try:
            us = usable(D, fn0)
        except AnalysisBroken:
            continue
        for fn in us:
            s = C.summary(fn)
            lam = [l for l in fn.lambdas()]
            inv = [(l, b, i, e) for l in lam for b, i, e in l.all_events() if e.get("k") == "call" and re.match(r"^invoke_impl\{r\.f\}\(|^r\.f\(", T(e))]
            sv_ = [(l, b, i, e) for l in lam for b, i, e in l.all_events() if e.get("k") == "call" and callee_of(e) == NS + "set_value"]
            ok = s.normal == frozenset([1]) and inv and sv_ and inv[0][0] is sv_[0][0] and loop_of(inv[0][0], inv[0][1]) is not None and \
                precedes_on_all_paths(sv_[0][0], lambda e: False, (sv_[0][1], sv_[0][2])) is not None and lexically_guarded(D, C, inv[0][0], inv[0][3])
            if ok:
                rep.ok("C11.R5", fn, "generic bulk: f invoked in a loop over the shape inside the guard, then exactly one completion")
                done = True
            else:
                rep.bad("C11.R5", fn, fn.loc, "generic-bulk", "generic bulk must invoke f for every index inside the exception guard and complete exactly once afterwards")
                done = True
    if not done:
        raise AnalysisBroken("generic bulk: no analysable instantiation")
    # ---- R6
    C17.index_queue_rules(rep, "C11.R6")
    # ---- R8: the generic bulk receiver forwards error / stopped exactly once (same rule as C03.R1)
    from .common import import_rules
    import_rules(rep, tier, "C03", ("C03.R1",), "C11.R8", "K3 (shared with C03.R1): the receivers of bulk hand the downstream receiver off exactly once on every path of every "
                 "completion member, through its own channel (an upstream error or stopped signal is forwarded, not swallowed)", only=lambda t: "bulk" in t)
