# C10 — work runs where it was sent: scheduler, pool and hint placement (structural part; DESIGN.md §5 C10)
import re
from engine.core import AnalysisBroken, P, T, callee_of, callee_short, cond_atoms, loc_of, strip, subexprs, block_path
from engine.kinds import FactFlow, precedes_on_all_paths, origin
from .common import facts, lib, driver, local_init

EXPLANATION = (
    "Static analysis of the current source. Decided: the value completion of thread_pool_scheduler's and "
    "std_thread_scheduler's schedule operation is lexically inside the callable handed to scheduler.execute / "
    "std::thread, start() itself only completes with set_error from the exception handler (R1); execute builds the "
    "task from the scheduler's priority/hint/stack size and registers it on the scheduler's own pool, register_work "
    "and scheduled_thread_pool::create_work/create_thread hand over that pool's scheduler, create_work creates the "
    "thread on the scheduler it was given (R2); schedule_from forwards values downstream only from the scheduler "
    "sender's receiver, the predecessor's value completion only parks the values and starts the scheduler operation "
    "(R3); the static policies mask out both stealing bits, static_queue_scheduler only touches its own queue, and in "
    "local_priority_queue_scheduler every access to another worker's normal/high queue is control-dependent on "
    "enable_stealing, which scheduling_loop derives from the scheduler mode (R4); scheduling_loop re-queues a yielding "
    "task with a hint for its own worker (R5). Not decided: placement across pools created at run time by the "
    "partitioner, NUMA hints, the shared low-priority queue.")
ASSUMPTIONS = ["thread_pool_base::create_work is implemented by scheduled_thread_pool only", "hints are honoured by the queue selection decided in C01.R7/C19.R4"]
THOROUGH_CONFIGS = [["-UNDEBUG", "-DPIKA_DEBUG"]]
FLOORS = {"C10.R1": 2, "C10.R2": 5, "C10.R3": 4, "C10.R4": 8, "C10.R5": 8, "C10.R6": 4, "C10.R7": 1, "C10.R8": 4, "C10.R9": 4, "C10.R10": 2, "C10.R11": 2, "C10.R12": 2}

SETV = "pika::execution::experimental::set_value"
SETE = "pika::execution::experimental::set_error"


def completions(fn, cpo):
    return [(b, i, ev) for b, i, ev in fn.all_events() if ev.get("k") == "call" and callee_of(ev) == cpo]


def lambda_use(facts_, lam):
    parent = facts_.by_id.get(lam.parent)
    if parent is None:
        return None, None
    for b, i, ev in parent.all_events():
        if ev.get("k") in ("call", "ctor") and subexprs(ev.get("args", []), lambda x: x.get("k") == "lambda" and x.get("id") == lam.id):
            return parent, ev
    for b, i, ev in parent.all_events():
        if ev.get("k") == "decl" and subexprs(ev.get("init"), lambda x: x.get("k") == "lambda" and x.get("id") == lam.id):
            return parent, ev
    return parent, None


def descendants(facts_, fn):
    out = []
    for l in fn.lambdas():
        out.append(l)
        out += descendants(facts_, l)
    return out


def run(rep, tier):
    rep.rule("C10.R1", "K6: schedule's value completion only inside the callable given to execute / std::thread; start() itself completes only with set_error in the handler")
    rep.rule("C10.R2", "K8: execute -> register_work(data, pool_); pool create_work/create_thread pass sched_.get(); create_work creates on the given scheduler")
    rep.rule("C10.R7", "K8 (configuration vs. policy): the static-priority scheduler is created with one high-priority queue per worker - boosted re-queues go to queue "
             "(worker % number of high-priority queues), so fewer queues than workers move a hinted task to another worker")
    rep.rule("C10.R3", "K6: schedule_from completes downstream with values only from scheduler_sender_receiver::set_value")
    rep.rule("C10.R4", "K7/K6: static policies mask stealing; cross-queue access only under enable_stealing")
    rep.rule("C10.R6", "K6 (who may advertise a completion scheduler): a sender adaptor forwards its predecessor's environment unchanged only if its receiver completes downstream inside the predecessor's completion; an adaptor whose completion members start another operation (let_value, let_error: the operation returned by the user's callable; schedule_from: the scheduler's) completes wherever that operation completes and must not advertise the predecessor's completion scheduler (bulk's pool customisation trusts it)")
    rep.rule("C10.R11", "K6 (why a hinted worker may be passed over): on an elastic pool select_active_pu walks the workers starting at the hinted one and takes the first it "
             "accepts. The hinted worker is passed over only because of its *state* (suspended / going to sleep). That its PU mutex cannot be taken at this instant only "
             "means another thread is enqueuing for the same worker right now (the mutex is held across create_thread / schedule_thread): structurally, no path leads from "
             "'try_lock did not succeed' to 'try the next worker' without waiting for that mutex. Otherwise hinted tasks of a pool that does not steal run - and after a "
             "yield continue - on a neighbouring worker whenever two threads schedule onto one worker at the same time")
    rep.rule("C10.R12", "K6 (yield_to across pools): this_thread::suspend(.., nextid, ..) hands 'nextid' to the caller's scheduling loop as the thread to run next only when it "
             "belongs to the caller's own scheduler; the test that decides this compares the scheduler of *nextid* with the scheduler of the calling thread, and on "
             "inequality nextid is queued on its own scheduler (schedule_thread) and the loop gets no next thread. A test that cannot fail (both sides read from the same "
             "thread) lets a task of another pool run - and keep running - on the caller's worker")
    rep.rule("C10.R10", "K7 (evaluated): the tasks thread-pool bulk spawns carry the scheduler's own hint when it has one (with_hint(sched, k) | bulk(..): every chunk task is sent "
             "to worker k) and the hint of 'their' worker only when the scheduler has none")
    rep.rule("C10.R9", "K7 (evaluated with a concrete hint): in create_thread / schedule_thread / schedule_thread_last of the queue schedulers a hint of mode 'thread' "
             "for a worker number below the number of queues is what select_active_pu is asked for (the round-robin counter and the modulo apply only to an absent "
             "or out-of-range hint) - otherwise a hinted task of a static pool is queued on another worker")
    rep.rule("C10.R8", "K8/K6 (wake-ups keep the worker): every call in the threading layer that makes an existing task pending again - "
             "set_thread_state(id, pending, .., hint, ..) in thread_helpers.cpp / set_thread_state.cpp / execution_agent.cpp and the final "
             "scheduler->schedule_thread(thrd, hint) - passes the hint it was given or one built from the worker recorded in that task "
             "(get_last_worker_thread_num()); an empty hint or the *caller's* worker number re-queues a hinted task of a static pool on "
             "another worker")
    rep.rule("C10.R5", "K8/K2: scheduling_loop re-queues with thread_schedule_hint(num_thread) and records the worker in the task before entering its body; resume paths take their hint from it")

    D = facts(rep, driver("c10_exec.cpp"), [r"thread_pool_scheduler::operation_state::start$", r"std_thread_scheduler::operation_state::start$",
                                            r"thread_pool_scheduler::execute$", r"^pika::schedule_from_detail::operation_state::",
                                            r"^pika::threads::detail::register_work$", r"^pika::execution::experimental::tag_invoke$"])
    # ---- R1
    for cls, deferred in (("thread_pool_scheduler", ("call", "execute")), ("std_thread_scheduler", ("ctor", "std::thread"))):
        fs = [f for f in D.find(r"%s::operation_state::start$" % cls) if f.parent == -1]
        if not fs:
            raise AnalysisBroken("%s::operation_state::start not found" % cls)
        for fn in fs:
            desc = descendants(D, fn)
            inline_val = completions(fn, SETV)
            if inline_val:
                rep.bad("C10.R1", fn, loc_of(inline_val[0][2]), "inline-completion", "start() completes the receiver with set_value inside the caller's context: the "
                        "continuation runs in the thread that called start(), not on a worker of the scheduler")
                continue
            okc = 0
            for lam in desc:
                for b, i, ev in completions(lam, SETV):
                    # climb: some enclosing lambda must be an argument of the deferring construct
                    cur = lam
                    found = False
                    while cur is not None and cur.parent != -1:
                        parent, use = lambda_use(D, cur)
                        if use is not None:
                            if deferred[0] == "call" and use.get("k") == "call" and callee_short(use) == deferred[1]:
                                found = True
                            if deferred[0] == "ctor" and (use.get("rec") == deferred[1] or (use.get("k") == "decl" and use.get("rec") == deferred[1])):
                                found = True
                        if found:
                            break
                        cur = parent
                    if found:
                        okc += 1
                    else:
                        rep.bad("C10.R1", fn, loc_of(ev), "completion-not-deferred", "a value completion in start() is not inside the callable handed to %s: it runs inline in the submitting thread" % deferred[1])
            handler_err = [l for l in fn.lambdas() if completions(l, SETE)]
            if okc >= 1 and handler_err:
                rep.ok("C10.R1", fn, "set_value only inside the callable given to %s; set_error only in the exception handler" % deferred[1])
            elif okc == 0:
                rep.bad("C10.R1", fn, fn.loc, "no-completion", "start() never completes with set_value")

    # ---- R2
    ex = [f for f in D.find(r"thread_pool_scheduler::execute$") if f.parent == -1]
    if not ex:
        raise AnalysisBroken("thread_pool_scheduler::execute not found")
    for fn in ex:
        rw = [ev for _, _, ev in fn.all_events() if ev.get("k") == "call" and callee_short(ev) == "register_work"]
        # the init-data object is whatever local is handed to register_work
        dv = P(rw[0]["args"][0]) if len(rw) == 1 and rw[0].get("args") else None
        d = [ev for _, _, ev in fn.all_events() if ev.get("k") == "decl" and ev.get("var") == dv]
        ok = len(rw) == 1 and len(rw[0]["args"]) >= 2 and origin(fn, rw[0]["args"][1]) == "this->pool_" and bool(d)
        txt = T(d[0].get("init")) if d else ""
        okd = all(x in txt for x in ("this->priority_", "this->schedulehint_", "this->stacksize_"))
        if ok and okd:
            rep.ok("C10.R2", fn, "execute: thread_init_data from priority_/schedulehint_/stacksize_, register_work(data, pool_)")
        else:
            rep.bad("C10.R2", fn, fn.loc, "execute-pool", "execute must register the task on the scheduler's own pool with its priority, hint and stack size "
                    "(register_work(data, pool_): %s, properties forwarded: %s): work would run on another pool" % (ok, okd))
    rws = [f for f in D.find(r"^pika::threads::detail::register_work$") if len(f.params) == 3]
    if not rws:
        raise AnalysisBroken("register_work(data, pool, ec) not found")
    c = [ev for _, _, ev in rws[0].all_events() if ev.get("k") == "call" and callee_short(ev) == "create_work"]
    if len(c) == 1 and P(c[0].get("recv")) == rws[0].params[1]["name"]:
        rep.ok("C10.R2", rws[0], "register_work forwards to the given pool's create_work")
    else:
        rep.bad("C10.R2", rws[0], rws[0].loc, "register-work", "register_work must call create_work on the pool it was given")
    PL = facts(rep, lib("thread_pools", "src/scheduled_thread_pool.cpp"),
               [r"scheduled_thread_pool::(create_work|create_thread)$", r"^pika::threads::detail::scheduling_loop$",
                r"scheduler::(get_next_thread|wait_or_add_new|set_scheduler_mode)$", r"static_priority_queue_scheduler::static_priority_queue_scheduler$"])
    for m, callee in (("create_work", "pika::threads::detail::create_work"), ("create_thread", "pika::threads::detail::create_thread")):
        fs = PL.find(r"scheduled_thread_pool::%s$" % m, pattern=False)
        if not fs:
            raise AnalysisBroken("scheduled_thread_pool::%s not instantiated" % m)
        bad = None
        for fn in fs:
            c = [ev for _, _, ev in fn.all_events() if ev.get("k") == "call" and callee_of(ev) == callee]
            if not (len(c) == 1 and origin(fn, c[0]["args"][0]) == "this->sched_.get()"):
                bad = fn
        if bad is None:
            rep.ok("C10.R2", fs[0], "%s hands its own scheduler (sched_.get()) to threads::detail::%s in all %d instantiations" % (m, m, len(fs)))
        else:
            rep.bad("C10.R2", bad, bad.loc, "pool-" + m, "scheduled_thread_pool::%s must pass its own scheduler" % m)
    CW = facts(rep, lib("threading_base", "src/create_work.cpp"), [r"^pika::threads::detail::create_work$"])
    cw = CW.one(r"create_work$")[0]
    ct = [(b, i, ev) for b, i, ev in cw.all_events() if ev.get("k") == "call" and callee_short(ev) == "create_thread"]
    sb = [ev for _, _, ev in cw.all_events() if ev.get("k") == "write" and P(ev["lhs"]) == "data.scheduler_base"]
    ff = FactFlow(cw)
    if len(ct) == 1 and P(ct[0][2].get("recv")) == cw.params[0]["name"] and sb and P(sb[0]["rhs"]) == cw.params[0]["name"]:
        rep.ok("C10.R2", cw, "create_work creates the thread on the scheduler it was given and records it in the init data")
    else:
        rep.bad("C10.R2", cw, cw.loc, "create-work", "create_work must call create_thread on the scheduler passed in and store it as data.scheduler_base")

    # ---- R3
    ops = D.find(r"^pika::schedule_from_detail::operation_state::")
    byname = {}
    for f in ops:
        if f.parent == -1:
            byname.setdefault(f.qname.rsplit("::", 1)[-1], []).append(f)
    for need in ("set_value_predecessor_sender", "set_value_scheduler_sender"):
        if need not in byname:
            raise AnalysisBroken("schedule_from operation_state::%s not found" % need)

    def value_completion(fn):
        for b, i, ev in fn.all_events():
            if ev.get("k") == "call" and (callee_of(ev) == SETV and any(P(a).endswith("receiver") for a in ev.get("args", []))):
                return ev
            if ev.get("k") == "call" and callee_short(ev) == "visit" and "receiver" in T(ev):
                return ev
        for l in fn.lambdas():
            r = value_completion(l)
            if r is not None:
                return r
        return None
    for fn in byname["set_value_predecessor_sender"]:
        vc = value_completion(fn)
        starts = [ev for _, _, ev in fn.all_events() if ev.get("k") == "call" and callee_of(ev).endswith("::start")]
        # the values are parked in the member that the scheduler-side completion forwards from (whatever it is called)
        fwd_text = " ".join(T(e2) for g_ in byname.get("set_value_scheduler_sender", []) for f3 in [g_] + list(g_.lambdas()) for _, _, e2 in f3.all_events())
        parks = [ev for _, _, ev in fn.all_events() if ev.get("k") == "call" and callee_short(ev) == "emplace" and P(ev.get("recv")).startswith("this->") and
                 P(ev.get("recv")) in fwd_text and "op_state" not in P(ev.get("recv"))]
        sched = any("schedule(" in T(ev) for _, _, ev in list(fn.all_events()) + [x for l in fn.lambdas() for x in l.all_events()] if ev.get("k") == "call")
        if vc is None and starts and parks and sched:
            rep.ok("C10.R3", fn, "predecessor's value completion parks the values, connects schedule(scheduler) and starts it; no downstream completion")
        else:
            rep.bad("C10.R3", fn, loc_of(vc) if vc else fn.loc, "inline-forward", "set_value_predecessor_sender must not complete the downstream receiver (it runs on the predecessor's context); "
                    "it must park the values and start the scheduler's operation (parks %s, schedules %s, starts %s)" % (bool(parks), sched, bool(starts)))
    for fn in byname["set_value_scheduler_sender"]:
        if value_completion(fn) is not None:
            rep.ok("C10.R3", fn, "values are forwarded downstream from the scheduler sender's completion")
        else:
            rep.bad("C10.R3", fn, fn.loc, "no-forward", "set_value_scheduler_sender does not forward the parked values")
    callers = {}
    for f in ops:
        for _, _, ev in f.all_events():
            if ev.get("k") == "call" and callee_short(ev) == "set_value_scheduler_sender":
                callers.setdefault(f.qname, 0)
                callers[f.qname] += 1
    if callers and all(q.endswith("scheduler_sender_receiver::set_value") for q in callers):
        rep.ok("C10.R3", "schedule_from", "set_value_scheduler_sender is only called from scheduler_sender_receiver::set_value")
    else:
        rep.bad("C10.R3", "schedule_from", byname["set_value_scheduler_sender"][0].loc, "forward-caller", "the downstream value completion is reachable from %s" % sorted(callers))
    for fn in byname.get("set_value", []):
        if "predecessor_sender_receiver" in fn.qname:
            c = [ev for _, _, ev in fn.all_events() if ev.get("k") == "call" and callee_short(ev) == "set_value_predecessor_sender"]
            if c:
                rep.ok("C10.R3", fn, "predecessor receiver hands values to set_value_predecessor_sender")
            else:
                rep.bad("C10.R3", fn, fn.loc, "predecessor-path", "predecessor_sender_receiver::set_value does not go through set_value_predecessor_sender")

    # ---- R4
    for cls in ("static_queue_scheduler", "static_priority_queue_scheduler"):
        fs = PL.find(r"::%s::set_scheduler_mode$" % cls, pattern=False)
        if not fs:
            raise AnalysisBroken("%s::set_scheduler_mode not instantiated" % cls)
        fn = fs[0]
        call = [(b, i, ev) for b, i, ev in fn.all_events() if ev.get("k") == "call" and callee_of(ev).endswith("scheduler_base::set_scheduler_mode")]
        masks = set()
        for b, i, ev in fn.all_events():
            t = T(ev) if ev.get("k") in ("call", "write") else ""
            for bit in ("enable_stealing_numa", "enable_stealing"):
                if re.search(r"~\(?(pika::threads::scheduler_mode::)?%s\b" % bit, t) and call and \
                        precedes_on_all_paths(fn, lambda e, ev=ev: e is ev, (call[0][0], call[0][1])):
                    masks.add(bit)
        # evaluated: with every bit of the incoming mode set, what reaches scheduler_base::set_scheduler_mode has exactly the two
        # stealing bits cleared (whatever locals / reassignments / casts the masking is written with)
        evaluated_ok = False
        sm = PL.enums.get("pika::threads::scheduler_mode") or {}
        if call and fn.params and "enable_stealing" in sm and "enable_stealing_numa" in sm:
            from engine.kinds import interp as _in4, eval_tree as _ev4, Unknown as _Un4
            ALL = 0xFFFFFFFF
            steal = sm["enable_stealing"] | sm["enable_stealing_numa"]
            try:
                res4 = _in4(fn, {fn.params[0]["name"]: ALL}, until=lambda e: e is call[0][2], unknown_both=False)
                vals = [_ev4(call[0][2]["args"][0], r_[1]) & ALL for r_ in res4 if r_[0] == "stop"]
                evaluated_ok = bool(vals) and all(v == (ALL & ~steal) for v in vals) and all(r_[0] == "stop" for r_ in res4)
            except (_Un4, TypeError, KeyError):
                evaluated_ok = False
        if evaluated_ok or (call and masks == {"enable_stealing", "enable_stealing_numa"} and P(call[0][2]["args"][0]) == "mode"):
            rep.ok("C10.R4", fn, "%s::set_scheduler_mode clears enable_stealing and enable_stealing_numa before delegating" % cls)
        else:
            rep.bad("C10.R4", fn, fn.loc, "mode-mask", "%s::set_scheduler_mode must mask out both stealing bits (found %s): a static policy would start stealing" % (cls, sorted(masks)))
    # the masking above only works if every change of the mode word goes through the *virtual*
    # set_scheduler_mode: mode_ is modified in scheduler_base::set_scheduler_mode only, and add_/remove_
    # reach it by an unqualified (virtually dispatched) call on every path
    SB = facts(rep, lib("threading_base", "src/scheduler_base.cpp"), [r"^pika::threads::detail::scheduler_base::"])
    MODIFY = ("store", "exchange", "compare_exchange_weak", "compare_exchange_strong", "fetch_or", "fetch_and", "fetch_xor", "operator=",
              "operator|=", "operator&=")
    writers = {}
    for G_ in (SB, PL):
        for f in G_.fns:
            for b, i, ev in f.all_events():
                hit = (ev.get("k") == "call" and callee_short(ev) in MODIFY and "mode_.data_" in P(ev.get("recv"))) or \
                      (ev.get("k") == "write" and "mode_.data_" in P(ev["lhs"]))
                if hit and "scheduler_base" in (f.qname + " " + str(ev.get("rec", "")) + " " + P(ev.get("recv") or ev.get("lhs"))) and \
                        (P(ev.get("recv") or ev.get("lhs")).startswith("this->mode_") or "scheduler_base" in f.qname):
                    writers.setdefault(f.qname, (f, ev))
    allowed_w = {"pika::threads::detail::scheduler_base::set_scheduler_mode"}
    if not any(q in allowed_w for q in writers):
        raise AnalysisBroken("scheduler_base::set_scheduler_mode does not store mode_ (anchor moved)")
    for q, (f, ev) in sorted(writers.items()):
        if q in allowed_w or f.kind == "ctor":
            rep.ok("C10.R4", f, "mode_ written in %s (the single choke point behind the virtual setter)" % q.rsplit("::", 1)[-1])
        else:
            rep.bad("C10.R4", f, loc_of(ev), "mode-bypass", "%s modifies the scheduler mode word directly: the static policies' set_scheduler_mode "
                    "override (which masks enable_stealing / enable_stealing_numa) is bypassed, so a static pool can start stealing" % q)
    for nm in ("add_scheduler_mode", "remove_scheduler_mode"):
        fs = SB.find(r"^pika::threads::detail::scheduler_base::%s$" % nm)
        if not fs:
            raise AnalysisBroken("scheduler_base::%s not found" % nm)
        f = fs[0]
        vcall = lambda e: e.get("k") == "call" and callee_of(e).endswith("scheduler_base::set_scheduler_mode") and e.get("virtual") and \
            not e.get("qualified") and P(e.get("recv")) == "this"
        vblocks = set(b for b, i, e in f.all_events() if vcall(e))
        seen, work, bypass = {f.entry}, [f.entry], f.entry in vblocks and False
        while work:
            b = work.pop()
            if b in vblocks:
                continue
            if b == f.exit:
                bypass = True
                break
            for _, t in f.succs(b):
                if t not in seen:
                    seen.add(t)
                    work.append(t)
        if vblocks and not bypass:
            rep.ok("C10.R4", f, "%s applies the new mode through the virtually dispatched set_scheduler_mode on every path" % nm)
        else:
            rep.bad("C10.R4", f, f.loc, "mode-virtual", "%s does not reach the virtual set_scheduler_mode on every path (qualified call or "
                    "direct update): a static policy's mask is bypassed" % nm)
    # a normal-priority task is queued on exactly the worker that select_active_pu returned (which is the hinted
    # one when it is running): the index of queues_[..] at every enqueue site is the variable whose reaching
    # definition is the select_active_pu call - no wrap-around / arithmetic (that is for the high-priority queues,
    # of which there may be fewer than workers)
    PQ = facts(rep, lib("thread_pools", "src/scheduled_thread_pool.cpp"),
               [r"::(local_priority_queue_scheduler|local_queue_scheduler)::(create_thread|schedule_thread|schedule_thread_last)$"])
    from engine.kinds import reaching_init
    nq = 0
    for fn in PQ.fns:
        if fn.pattern or fn.parent != -1:
            continue
        for b, i, ev in fn.all_events():
            if not (ev.get("k") == "call" and callee_short(ev) in ("create_thread", "schedule_thread") and ev.get("recv") is not None):
                continue
            m = re.match(r"^this->queues_\[(.*)\]\.data_$", P(ev["recv"]))
            if not m:
                # through a local pointer: thread_queue_type* q = cond ? a : queues_[k].data_
                rv = strip(ev["recv"])
                if isinstance(rv, dict) and rv.get("k") == "var":
                    ini = reaching_init(fn, rv.get("name"), (b, i))
                    cands = re.findall(r"this->queues_\[([^\]]*)\]\.data_", T(ini)) if ini is not None else []
                    if not cands:
                        continue
                    idx = cands[0]
                else:
                    continue
            else:
                idx = m.group(1)
            nq += 1
            good = False
            seen_v = set()
            cur = idx
            while re.match(r"^\w+$", cur) and cur not in seen_v:
                seen_v.add(cur)
                ini = reaching_init(fn, cur, (b, i))
                if ini is None:
                    break
                si = strip(ini)
                if isinstance(si, dict) and si.get("k") == "call" and callee_short(si) == "select_active_pu":
                    good = True
                    break
                if isinstance(si, dict) and si.get("k") == "var":
                    cur = si.get("name")
                    continue
                break
            if good:
                rep.ok("C10.R4", fn, "%s: queues_[%s] is the worker select_active_pu returned" % (fn.qname.rsplit("::", 1)[-1], idx))
            else:
                rep.bad("C10.R4", fn, loc_of(ev), "queue-index:%s" % fn.qname.rsplit("::", 1)[-1], "%s enqueues normal-priority work on queues_[%s], which is not the "
                        "(unmodified) worker number returned by select_active_pu: a task hinted to a worker is queued on another worker's queue and, "
                        "under a static policy, runs there" % (fn.qname.rsplit("::", 1)[-1], idx))
    if nq < 4:
        raise AnalysisBroken("C10.R4: only %d normal-priority enqueue sites found in the queue schedulers" % nq)
    ctor = PL.find(r"static_priority_queue_scheduler::static_priority_queue_scheduler$", pattern=False)
    if ctor:
        t = " ".join(T(ev) for _, _, ev in ctor[0].all_events() if ev.get("k") == "call" and callee_short(ev) == "remove_scheduler_mode")
        if "enable_stealing" in t and "enable_stealing_numa" in t:
            rep.ok("C10.R4", ctor[0], "static_priority_queue_scheduler's constructor removes both stealing bits")
        else:
            rep.bad("C10.R4", ctor[0], ctor[0].loc, "ctor-mask", "static_priority_queue_scheduler's constructor must remove both stealing bits")
    sq = PL.find(r"::static_queue_scheduler::(get_next_thread|wait_or_add_new)$", pattern=False)
    for fn in sq:
        bad = []
        for b, i, ev in fn.all_events():
            if ev.get("k") in ("call", "read"):
                t = T(ev if ev.get("k") == "call" else ev["e"])
                for m in re.finditer(r"this->queues_\[([^\]]*)\]", t):
                    if m.group(1) != "num_thread" and "dump_suspended_threads" not in t:
                        bad.append(t[:80])
        if not bad:
            rep.ok("C10.R4", fn, "static_queue_scheduler::%s only touches queues_[num_thread]" % fn.qname.rsplit("::", 1)[-1])
        else:
            rep.bad("C10.R4", fn, fn.loc, "foreign-queue", "static_queue_scheduler accesses another worker's queue: %s" % bad[:2])
    lp = PL.find(r"::local_priority_queue_scheduler::(get_next_thread|wait_or_add_new)$", pattern=False)
    if not lp:
        raise AnalysisBroken("local_priority_queue_scheduler::get_next_thread/wait_or_add_new not instantiated")
    for fn in lp:
        ff = FactFlow(fn)
        n = 0
        bad = []
        for b, i, ev in fn.all_events():
            if ev.get("k") not in ("call", "read", "decl"):
                continue
            t = T(ev if ev.get("k") == "call" else (ev["e"] if ev.get("k") == "read" else ev.get("init")))
            for m in re.finditer(r"this->(queues_|high_priority_queues_)\[([^\]]*)\]", t):
                if m.group(2) == "num_thread":
                    continue
                n += 1
                fb = ff.before.get((b, i)) or frozenset()
                if ("enable_stealing", True) not in fb:
                    bad.append((loc_of(ev), t[:70]))
        if bad:
            rep.bad("C10.R4", fn, bad[0][0], "steal-unguarded", "access to another worker's queue without enable_stealing being established: %s "
                    "(a static, non-stealing policy would take work hinted to another worker)" % bad[0][1])
        elif n:
            rep.ok("C10.R4", fn, "all %d accesses to other workers' queues are control-dependent on enable_stealing" % n, sites=n)
        else:
            raise AnalysisBroken("%s: no cross-queue access found (stealing code moved?)" % fn.full)
    loops = PL.find(r"^pika::threads::detail::scheduling_loop$", pattern=False)
    for fn in loops:
        ini = local_init(fn, "enable_stealing")
        g = [ev for _, _, ev in fn.all_events() if ev.get("k") == "call" and callee_short(ev) == "get_next_thread"]
        ok = ini is not None and "has_scheduler_mode(" in T(ini) and "enable_stealing" in T(ini) and g and all(P(e["args"][3]) == "enable_stealing" for e in g)
        ini2 = local_init(fn, "enable_stealing_staged")
        w = [ev for _, _, ev in fn.all_events() if ev.get("k") == "call" and callee_short(ev) == "wait_or_add_new"]
        ok2 = ini2 is not None and re.match(r"^\(enable_stealing && ", T(strip(ini2))) and w and all(P(e["args"][3]) == "enable_stealing_staged" for e in w)
        if ok and ok2:
            rep.ok("C10.R4", fn, "scheduling_loop derives enable_stealing from has_scheduler_mode(enable_stealing) and passes it on")
        else:
            rep.bad("C10.R4", fn, fn.loc, "steal-flag", "scheduling_loop must derive the stealing flags from the scheduler mode (pending: %s, staged: %s)" % (ok, bool(ok2)))
        # ---- R5
        rq = [ev for _, _, ev in fn.all_events() if ev.get("k") == "call" and callee_short(ev) in ("schedule_thread", "schedule_thread_last") and P(ev.get("recv")) == "scheduler"]
        from engine.kinds import expand_locals as _xl5

        def hint_text(e):
            a = strip(e["args"][1])
            t = T(a)
            if re.match(r"^\w+$", t):            # a named constant initialised once from thread_schedule_hint(num_thread)
                ini5 = local_init(fn, t)
                if ini5 is not None:
                    t = T(strip(ini5))
            return t
        if rq and all(hint_text(e) in ("thread_schedule_hint{num_thread}", "thread_schedule_hint(num_thread)") for e in rq):
            rep.ok("C10.R5", fn, "all %d re-queue sites pass thread_schedule_hint(num_thread)" % len(rq), sites=len(rq))
        else:
            rep.bad("C10.R5", fn, fn.loc, "requeue-hint", "a yielding task must be re-queued with a hint for the worker it ran on: %s" % [T(e["args"][1]) for e in rq])
        # a *resumed* task is re-queued with hint = last_worker_thread_num (execution_agent::do_resume,
        # set_active_state); that number must be valid whenever somebody else can resume the task, i.e. the
        # worker records it before it enters the body (the task itself records it only inside do_yield, after
        # it has already made itself resumable, e.g. queued on a condition variable)
        body = [(b, i, ev) for b, i, ev in fn.all_events() if ev.get("k") == "call" and callee_of(ev) == "pika::threads::detail::thread_data::operator()"]
        if not body:
            raise AnalysisBroken("%s: call of thread_data::operator() not found" % fn.full)
        rec = lambda e: e.get("k") == "call" and callee_short(e) == "set_last_worker_thread_num" and e.get("args") and T(strip(e["args"][0])) == "num_thread"
        if all(precedes_on_all_paths(fn, rec, (b, i)) for b, i, ev in body):
            rep.ok("C10.R5", fn, "the worker number is recorded in the task before its body is entered")
        else:
            rep.bad("C10.R5", fn, loc_of(body[0][2]), "worker-not-recorded", "the task body is entered without set_last_worker_thread_num(num_thread): "
                    "a resume that races with the task's first suspension re-queues it with hint -1 and, under a static policy, a "
                    "hinted task runs its next phase on another worker")

    # ---- R5 (continued): who records the worker, and in which numbering.  The recorded number is used as a *pool-local*
    # queue index (do_resume / set_active_state pass it as thread_schedule_hint to the task's own scheduler), so every
    # writer stores a pool-local number: the scheduling loop's own worker index or get_local_worker_thread_num() - never
    # the runtime-global worker number (they differ in every pool but the first)
    from .common import who_references
    W_, _, _ = who_references(rep, r"^pika::threads::detail::thread_data::set_last_worker_thread_num$", "set_last_worker_thread_num")
    sites = []
    seen_sites = set()
    for Fx in W_:
        for f in Fx.fns:
            for b, i, ev in f.all_events():
                if ev.get("k") == "call" and callee_short(ev) == "set_last_worker_thread_num" and ev.get("args") and loc_of(ev) not in seen_sites:
                    seen_sites.add(loc_of(ev))
                    sites.append((f, ev))
    if len(sites) < 2:
        raise AnalysisBroken("set_last_worker_thread_num: only %d call sites found in the library" % len(sites))
    for f, ev in sites:
        a = strip(ev["args"][0])
        from engine.kinds import expand_locals
        ax = strip(expand_locals(f, a))
        local_call = ax.get("k") == "call" and callee_of(ax).endswith("::get_local_worker_thread_num")
        own_index = a.get("k") == "var" and a.get("param") and f.qname.endswith("scheduling_loop")
        if local_call or own_index:
            rep.ok("C10.R5", f, "%s records a pool-local worker number (%s)" % (f.qname.rsplit("::", 1)[-1], T(a)))
        else:
            rep.bad("C10.R5", f, loc_of(ev), "worker-number-space:" + f.qname.rsplit("::", 1)[-1],
                    "%s records %s as the task's last worker: resume paths use the recorded number as a queue index local to the task's pool - a number from another numbering "
                    "(e.g. the runtime-global worker number, which differs from the local one in every pool but the first) re-queues a resumed, hinted task on another worker of a static pool"
                    % (f.qname.rsplit("::", 1)[-1], T(a)))

    # ---- R8: wake-ups keep the worker.  A suspended task is put back on a queue by set_thread_state(id, pending, .., hint, ..)
    # -> scheduler->schedule_thread(thrd, hint); with an empty hint the queue schedulers pick a queue round robin.  Under a
    # static policy nobody steals, so every wake-up entry point of the threading layer has to name the worker recorded in
    # the task (get_last_worker_thread_num(): the scheduling loop stores it before the body runs, R5) or forward the hint
    # it was given.  set_thread_state_timed.cpp is not covered: timed suspension is not supported by this version
    # (at_timer throws before a timer is armed).
    resume_hint_rules(rep)

    # ---- R9: a worker hint reaches the queue selection unchanged (evaluated)
    hint_reaches_selection(rep)
    bulk_hint_rule(rep)

    # ---- R7: under a static policy every worker owns a high-priority queue.  The priority schedulers re-queue a task
    # that yields with boosted priority (yield_k / pending_boost - normal-priority tasks included) on high-priority queue
    # (worker % number of high-priority queues) and only the first that many workers poll one: with fewer queues than
    # workers such a task is handed to another worker.  Stealing policies may do that; the static-priority policy must
    # be created with as many high-priority queues as workers, whatever pika.thread_queue.high_priority_queues says.
    TMF = facts(rep, lib("thread_manager", "src/thread_manager.cpp"), [r"^pika::threads::detail::thread_manager::create_pools$"])
    cp = [f for f in TMF.find(r"thread_manager::create_pools$") if f.parent == -1]
    if len(cp) != 1:
        raise AnalysisBroken("thread_manager::create_pools not found")
    cp = cp[0]
    from engine.kinds import derives_from
    # the init-parameter object of the static-priority scheduler is the one that carries its description string
    inits = [(b, i, e) for b, i, e in cp.all_events() if e.get("k") in ("ctor", "construct") and "init_parameter" in str(e.get("rec", "")) + str(e.get("type", "")) and
             any("static_priority" in l_.get("s", "") for l_ in subexprs(e.get("args", []), lambda y: isinstance(y, dict) and y.get("k") == "lit" and "s" in y))]
    if not inits:
        raise AnalysisBroken("create_pools: construction of the static_priority scheduler's init parameters not found")
    from engine.kinds import reaching_init
    for b, i, e in inits:
        a = e.get("args") or []
        if len(a) < 3:
            raise AnalysisBroken("create_pools: static_priority init parameters have %d arguments" % len(a))
        # the switch cases reuse local names: take the definition that reaches this construction
        src = a[2]
        for _ in range(4):
            if strip(src).get("k") != "var" or strip(src).get("param"):
                break
            ri = reaching_init(cp, strip(src)["name"], (b, i))
            if ri is None:
                break
            src = ri
        from_cfg = "pika.thread_queue.high_priority_queues" in T(src) or "get_entry_as(" in T(src)
        from_threads = "num_threads_" in T(src)
        if from_threads and not from_cfg:
            rep.ok("C10.R7", cp, "the static-priority scheduler gets one high-priority queue per worker (%s)" % T(a[2]))
        else:
            rep.bad("C10.R7", cp, loc_of(e), "static-pool-fewer-hp-queues", "the static-priority scheduler is created with %s high-priority queues, a number taken from the configuration "
                    "(pika.thread_queue.high_priority_queues / --pika:high-priority-threads): with fewer queues than workers a hinted task that yields with boosted priority (yield_k, spinning "
                    "on a lock) is re-queued on high-priority queue (worker %% queues) and runs its next phase on another worker" % T(a[2]))

    # ---- R6: environment forwarding
    AL = facts(rep, driver("c03_algos.cpp"), [r"^pika::\w+_detail::"])
    by_ns = {}
    for f in AL.fns:
        if not f.pattern or f.parent != -1:
            continue
        m = re.match(r"^(pika::\w+_detail)::", f.qname)
        if m:
            by_ns.setdefault(m.group(1), []).append(f)
    n6 = 0
    for ns, fs in sorted(by_ns.items()):
        # anything but the operation state's own start() (which starts the predecessor) that starts an operation:
        # completion members, their visitors and helpers
        starts = [(f, e) for f in fs if f.qname.rsplit("::", 1)[-1] != "start"
                  for f2 in [f] + list(f.lambdas()) for _, _, e in f2.all_events()
                  if e.get("k") == "call" and (callee_of(e) in ("pika::execution::experimental::start", "pika::execution::experimental::start_t::operator()") or
                                               (callee_short(e) in ("start", "operator()") and T(e).startswith("start(")) or
                                               "start_visitor" in T(e))]
        for f in fs:
            if f.qname.rsplit("::", 1)[-1] != "get_env" or "receiver" in f.qname.rsplit("::", 2)[-2].lower():
                continue
            rets = [e for _, _, e in f.all_events() if e.get("k") == "return" and e.get("e") is not None]
            plain = [e for e in rets if isinstance(strip(e["e"]), dict) and strip(e["e"]).get("k") == "call" and
                     callee_of(strip(e["e"])).endswith("get_env") and strip(e["e"]).get("args") and re.match(r"^(this->)?\w+$", P(strip(e["e"])["args"][0]))]
            if not plain:
                continue
            n6 += 1
            if starts:
                rep.bad("C10.R6", f, loc_of(plain[0]), "env-forwarded:" + ns.rsplit("::", 1)[-1], "%s forwards its predecessor's environment (%s), but %s starts another operation "
                        "on completion (%s): the sender completes where that operation completes, not on the predecessor's scheduler - a following bulk selects the wrong pool's "
                        "customisation and runs f on workers of another pool" % (f.qname, T(plain[0]["e"]), starts[0][0].qname, loc_of(starts[0][1])))
            else:
                rep.ok("C10.R6", f, "%s forwards the predecessor's environment; no completion member of %s starts another operation" % (f.qname.rsplit("::", 2)[-2], ns))
    if n6 < 4:
        raise AnalysisBroken("C10.R6: only %d environment-forwarding senders found" % n6)



    # ---- R11: a busy PU mutex is not a reason to move on
    from engine.kinds import reaches as _re11
    SAP = facts(rep, lib("threading_base", "src/scheduler_base.cpp"), [r"^pika::threads::detail::scheduler_base::select_active_pu$"])
    sap = [f for f in SAP.fns if f.qname.endswith("scheduler_base::select_active_pu") and f.parent == -1]
    if len(sap) != 1:
        raise AnalysisBroken("scheduler_base::select_active_pu not found")
    n11 = 0
    for f in [sap[0]] + [g for g in SAP.fns if g.parent == sap[0].id]:
        tests = [blk for blk in f.blocks.values() if blk.cond is not None and cond_atoms(blk.cond)[0].endswith(".owns_lock()")]
        for blk in tests:
            a, pos = cond_atoms(blk.cond)
            lockvar = a[:-len(".owns_lock()")]
            tried = any(e.get("k") == "ctor" and e.get("rec") == "std::unique_lock" and "try_to_lock" in T(e) for e in blk.events) or \
                any(e.get("k") == "ctor" and e.get("rec") == "std::unique_lock" and "try_to_lock" in T(e) for _, _, e in f.all_events())
            if not tried:
                continue
            n11 += 1
            notowned = [t for l, t, _ in blk.succ if l == ("false" if pos else "true")]
            adv = [(b, i, e) for b, i, e in f.all_events() if e.get("k") == "write" and e.get("op") in ("++", "+=") and loop_of_(f, b) is not None and loop_of_(f, blk.id) is not None
                   and b in loop_of_(f, blk.id)]
            blocking = set(b for b, i, e in f.all_events() if (e.get("k") == "call" and callee_short(e) == "lock" and e.get("recv") is not None and P(e["recv"]) == lockvar) or
                           (e.get("k") == "ctor" and e.get("rec") == "std::unique_lock" and "try_to_lock" not in T(e) and "defer_lock" not in T(e) and len(e.get("args", [])) >= 1))
            moved = None
            for t in notowned:
                for b, i, e in adv:
                    if t not in blocking and (t == b or _re_skip(f, t, b, blocking)):
                        moved = (b, i, e)
            if moved:
                # reported against select_active_pu itself: a lambda's name carries its line number, which is not an identity
                rep.bad("C10.R11", sap[0], loc_of(blk.events[-1]) if blk.events else f.loc, "busy-mutex-skips-pu:" + ("loop" if f.parent == -1 else "retry-lambda"), "select_active_pu goes on to the next "
                        "worker (%s at %s) on the path where try_to_lock on the hinted worker's PU mutex did not succeed: a mutex that is merely busy - another thread is enqueuing "
                        "for the same worker - is treated like a suspended PU, and the task is queued on the neighbouring worker" % (P(moved[2]["lhs"]) + moved[2].get("op", ""), loc_of(moved[2]).rsplit("/", 1)[-1]))
            else:
                rep.ok("C10.R11", f, "a worker is passed over only after its PU mutex was obtained (its state decides)")
    if n11 < 2:
        raise AnalysisBroken("C10.R11: only %d try_to_lock tests found in select_active_pu" % n11)


    # ---- R12: yield_to keeps a foreign thread on its own scheduler
    from engine.kinds import expand_locals as _xl12
    TH12 = facts(rep, lib("threading_base", "src/thread_helpers.cpp"), [r"^pika::this_thread::suspend$"])
    n12 = 0
    for fn in TH12.fns:
        if fn.parent != -1 or not fn.file.endswith("thread_helpers.cpp"):
            continue
        nx = [p_["name"] for p_ in fn.params if "thread_id" in (p_.get("type") or "") and "ref" not in (p_.get("type") or "")]
        if not nx:
            continue
        nx = nx[0]
        ys = [(b, i, e) for b, i, e in fn.all_events() if e.get("k") == "call" and callee_short(e) == "yield" and nx in T(e)]
        if not ys:
            continue
        n12 += 1
        tests = []
        for blk in fn.blocks.values():
            if blk.cond is None:
                continue
            txt = T(_xl12(fn, blk.cond))
            if txt.count("get_scheduler_base()") >= 2:
                tests.append((blk, txt))
        ok12 = False
        why = "there is no test of the next thread's scheduler against the caller's"
        for blk, txt in tests:
            ids = []
            for m_ in re.finditer(r"get_thread_id_data\(", txt):
                depth, j = 1, m_.end()
                while j < len(txt) and depth:
                    depth += {"(": 1, ")": -1}.get(txt[j], 0)
                    j += 1
                if txt[j:].startswith("->get_scheduler_base()"):
                    ids.append(txt[m_.end():j - 1])
            if nx in ids and any(x != nx for x in ids):
                ok12 = True
            else:
                why = "the test '%s' reads both schedulers from %s - it never looks at the scheduler of '%s'" % (txt[:120], sorted(set(ids)), nx)
        disp = [e for _, _, e in fn.all_events() if e.get("k") == "call" and callee_short(e) == "schedule_thread" and nx in T(e)]
        if ok12 and disp:
            rep.ok("C10.R12", fn, "suspend(.., %s, ..): the next thread is handed to the caller's loop only when it is of the caller's scheduler, else queued on its own" % nx)
        else:
            rep.bad("C10.R12", fn, loc_of(ys[0][2]), "foreign-next-thread", "this_thread::suspend hands '%s' to the caller's scheduling loop although %s: yield_to(id) with a thread of another "
                    "pool runs that thread on the caller's worker, and the foreign loop re-queues it on its own scheduler - work sent to pool B continues on pool A" % (
                        nx, why if not ok12 else "it is never queued on its own scheduler"))
    if n12 < 2:
        raise AnalysisBroken("C10.R12: only %d suspend overloads with a next thread found" % n12)


def resume_hint_rules(rep):
    from engine.kinds import expand_locals
    from engine.core import subexprs
    n = 0
    for mod, rel in (("threading_base", "src/thread_helpers.cpp"), ("threading_base", "src/set_thread_state.cpp"),
                     ("threading_base", "src/execution_agent.cpp")):
        Fx = facts(rep, lib(mod, rel), [r"^pika::threads::detail::", r"^pika::"])
        for f in Fx.fns:
            if not f.file.endswith(rel.rsplit("/", 1)[-1]):
                continue
            hint_params = set(p_["name"] for p_ in f.params if "thread_schedule_hint" in str(p_.get("type", "")))
            for b, i, ev in f.all_events():
                if ev.get("k") != "call":
                    continue
                args = ev.get("args") or []
                hint = None
                what = None
                pt = ev.get("ptypes") or []
                hp = [k_ for k_, t_ in enumerate(pt) if "thread_schedule_hint" in str(t_)]
                if callee_of(ev) == "pika::threads::detail::set_thread_state" and len(hp) == 1 and hp[0] < len(args) and \
                        not any("time_point" in str(t_) for t_ in pt):
                    hint, what = args[hp[0]], "set_thread_state(%s, %s, ..)" % (T(args[0]), T(args[1]))
                elif callee_short(ev) in ("schedule_thread", "schedule_thread_last") and len(args) >= 2 and ev.get("recv") is not None and \
                        rel.endswith("set_thread_state.cpp"):
                    hint, what = args[1], "%s(%s, ..)" % (callee_short(ev), T(args[0]))
                if hint is None:
                    continue
                n += 1
                h0 = strip(hint)
                hx = expand_locals(f, hint)
                forwarded = h0.get("k") == "var" and h0.get("name") in hint_params
                calls = [callee_short(c_) for c_ in subexprs(hx, lambda y: isinstance(y, dict) and y.get("k") == "call")]
                from engine.kinds import derives_from
                # also through a hint local that is assigned (not merely initialised) from the recorded worker; `x = hint(w)` on a class-type
                # local is an operator= call
                assigned = [c_["args"][0] for _, _, c_ in f.all_events() if c_.get("k") == "call" and c_.get("op") == "=" and c_.get("recv") is not None
                            and h0.get("k") == "var" and P(c_["recv"]) == h0.get("name") and c_.get("args")]
                from_task = "get_last_worker_thread_num" in calls or derives_from(f, hint, lambda t: "get_last_worker_thread_num" in t) or \
                    any(derives_from(f, a_, lambda t: "get_last_worker_thread_num" in t) for a_ in assigned)
                if forwarded:
                    rep.ok("C10.R8", f, "%s at %s forwards the hint it was given" % (what, loc_of(ev)))
                elif from_task:
                    rep.ok("C10.R8", f, "%s at %s names the worker recorded in the task" % (what, loc_of(ev)))
                else:
                    rep.bad("C10.R8", f, loc_of(ev), "resume-hint:" + f.qname.rsplit("::", 1)[-1], "%s in %s re-queues an existing task with the hint %s, which is "
                            "neither the hint the caller supplied nor the worker recorded in the task (get_last_worker_thread_num()): a task that "
                            "was given a worker hint on a static (non-stealing) pool runs its next phase on whatever queue the scheduler picks"
                            % (what, f.qname, T(hint)))
    if n < 3:
        raise AnalysisBroken("C10.R8: wake-up sites not found (%d)" % n)


def hint_reaches_selection(rep):
    from engine.kinds import interp, eval_tree, Unknown
    SP_ = facts(rep, lib("thread_pools", "src/scheduled_thread_pool.cpp"),
                [r"::(local_priority_queue_scheduler|local_queue_scheduler)::(create_thread|schedule_thread|schedule_thread_last)$"])
    en = SP_.enums.get("pika::execution::thread_schedule_hint_mode") or {}
    if "thread" not in en:
        raise AnalysisBroken("enum thread_schedule_hint_mode not found")
    n = 0
    seen = set()
    for f in SP_.fns:
        if f.pattern or f.parent != -1:
            continue
        key = (f.qname,)
        if key in seen:
            continue
        seen.add(key)
        pre = None
        for p_ in f.params:
            t_ = str(p_.get("type", ""))
            if "thread_schedule_hint" in t_:
                pre = p_["name"]
            elif "thread_init_data" in t_:
                pre = p_["name"] + ".schedulehint"
        if pre is None:
            continue
        sel = lambda e: e.get("k") == "call" and callee_short(e) == "select_active_pu"
        if not any(sel(e) for _, _, e in f.all_events()):
            continue
        env = {pre + ".mode": en["thread"], pre + ".hint": 3, "this->num_queues_": 8, "this->curr_queue_": 5, "this->num_high_priority_queues_": 8,
               "this->queues_.size()": 8, "this->high_priority_queues_.size()": 8}
        res = interp(f, env, until=sel)
        stops = [(e_, ev) for end, e_, evs, ev in res if end == "stop"]
        if not stops:
            raise AnalysisBroken("%s: select_active_pu not reached in the evaluation" % f.qname)
        n += 1
        wrong = None
        for e_, ev in stops:
            a = ev["args"][1] if len(ev.get("args") or []) > 1 else None
            try:
                v = eval_tree(a, e_) if a is not None else None
            except Unknown:
                v = "?"
            if v != 3:
                wrong = (T(a) if a is not None else "?", v)
        # a hint just past the last queue is folded into range (it indexes the queue array)
        env8 = dict(env)
        env8[pre + ".hint"] = 8
        for end, e_, evs, ev in interp(f, env8, until=sel):
            if end != "stop":
                continue
            a = ev["args"][1] if len(ev.get("args") or []) > 1 else None
            try:
                v = eval_tree(a, e_) if a is not None else None
            except Unknown:
                v = None
            if isinstance(v, int) and not (0 <= v < 8):
                rep.bad("C10.R9", f, f.loc, "hint-out-of-range:" + f.qname.rsplit("::", 1)[-1], "%s passes the out-of-range hint %d (8 queues) on to the queue selection unreduced: "
                        "the queue array is indexed past its end" % (f.qname, v))
        if wrong:
            rep.bad("C10.R9", f, f.loc, "hint-not-used:" + f.qname.rsplit("::", 1)[-1], "%s, given the hint 'worker 3' (mode thread) on a scheduler with 8 queues, asks select_active_pu for %s = %s: "
                    "the task is queued on another worker although its hint names a valid one (a static pool never moves it back)" % (f.qname, wrong[0], wrong[1]))
        else:
            rep.ok("C10.R9", f, "a valid worker hint is what select_active_pu is asked for")
    if n < 4:
        raise AnalysisBroken("C10.R9 evaluated only %d scheduler entry points" % n)


def bulk_hint_rule(rep):
    from engine.kinds import interp, eval_tree, Unknown
    B = facts(rep, driver("c11_bulk.cpp"), [r"^pika::thread_pool_bulk_detail::operation_state::bulk_receiver::do_work_task$"])
    fs = [f for f in B.find(r"bulk_receiver::do_work_task$") if not f.pattern and f.parent == -1]
    if not fs:
        raise AnalysisBroken("thread-pool bulk: do_work_task not instantiated")
    fn = fs[0]
    wt = [p_["name"] for p_ in fn.params if "int" in str(p_.get("type", "")) and "chunk" not in p_["name"]]
    wname = fn.params[-1]["name"] if fn.params else None

    def model(sched_hint):
        def h(e, env):
            if e.get("k") == "call":
                cs = callee_short(e)
                if cs == "get_hint":
                    return sched_hint
                if cs == "empty" and "queue" in P(e.get("recv") or {}):
                    return False
                if e.get("op") == "==" and len(e.get("args") or []) == 2:
                    return eval_tree(e["args"][0], env) == eval_tree(e["args"][1], env)
                if e.get("op") == "!=" and len(e.get("args") or []) == 2:
                    return eval_tree(e["args"][0], env) != eval_tree(e["args"][1], env)
                raise Unknown(T(e))
            if "thread_schedule_hint" in str(e.get("rec", "")) or "thread_schedule_hint" in str(e.get("type", "")):
                a = e.get("args") or []
                if not a:
                    return "EMPTY"
                if len(a) == 1 and strip(a[0]).get("k") in ("construct", "var", "call"):
                    return eval_tree(a[0], env)      # copy / move
                vals = []
                for x in a:
                    try:
                        vals.append(eval_tree(x, env))
                    except Unknown:
                        vals.append("?")
                return ("HINT",) + tuple(vals[-1:])
            raise Unknown(T(e))
        return h
    is_data = lambda e: e.get("k") == "ctor" and "thread_init_data" in str(e.get("rec", ""))
    for sched_hint, want in (("EMPTY", ("HINT", 3)), (("HINT", 1), ("HINT", 1))):
        env = {"$call": model(sched_hint)}
        if wname:
            env[wname] = 3
        res = interp(fn, env, until=is_data)
        stops = [(e_, ev) for end, e_, evs, ev in res if end == "stop"]
        if not stops:
            raise AnalysisBroken("thread-pool bulk do_work_task: construction of the task's thread_init_data not reached in the evaluation")
        got = set()
        for e_, ev in stops:
            hv = None
            for a in ev.get("args") or []:
                try:
                    v = eval_tree(a, e_)
                except Unknown:
                    continue
                if v == "EMPTY" or (isinstance(v, tuple) and v and v[0] == "HINT"):
                    hv = v
            got.add(hv)
        if got == {want}:
            rep.ok("C10.R10", fn, "scheduler hint %s -> the spawned chunk task carries %s" % (sched_hint, want))
        else:
            rep.bad("C10.R10", fn, fn.loc, "bulk-hint:%s" % ("none" if sched_hint == "EMPTY" else "given"), "thread-pool bulk spawns the chunk task of worker 3 with hint %s when the scheduler's own "
                    "hint is %s (expected %s): %s" % (sorted(map(str, got)), sched_hint, want, "a bulk on with_hint(sched, k) of a static pool runs on every worker instead of worker k"
                                                       if sched_hint != "EMPTY" else "the chunk tasks are not sent to their workers"))


def loop_of_(fn, b):
    from engine.kinds import loop_of
    return loop_of(fn, b)


def _re_skip(fn, a, b, avoid):
    """is block b reachable from block a without entering a block of `avoid`?"""
    seen, work = set(), [a]
    while work:
        x = work.pop()
        if x == b:
            return True
        if x in seen or x in avoid:
            continue
        seen.add(x)
        work += [t for _, t in fn.succs(x)]
    return False
