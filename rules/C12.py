# C12 — a task's context survives suspension, migration and recycling (three structural clauses; DESIGN.md §5 C12)
import re
from engine import core
from engine.core import AnalysisBroken, P, T, callee_of, callee_short, cond_atoms, loc_of, strip, subexprs
from engine.kinds import FactFlow, derives_from, precedes_on_all_paths
from .common import facts, lib

EXPLANATION = (
    "Static analysis of the current source; most of C12 (stack contents, register and floating-point state at run time, "
    "disjointness of stacks, task-local storage) has no static argument in reach and is NOT decided. Decided: every "
    "field the thread_data / context_base / coroutine_impl constructors initialise is re-initialised when the object is "
    "recycled (rebind_base / rebind / reset / reset_tss), apart from fields that are fixed for the object's life, so a "
    "recycled task starts without an inherited interruption request, exit callbacks, task data or exception (R1); the "
    "x86-64 context switch saves the System V callee-saved integer registers, pops them in exactly the reverse order, "
    "switches the stack pointer between the last push and the first pop, and its frame offsets agree with the C++ "
    "constants used to build a fresh frame (funp_idx, cb_idx, context_size), init() and rebind_stack() write the same "
    "slots; it also reports whether the floating-point control state is saved (R2); stacks are mapped and unmapped with "
    "the same size and guard-page adjustment, and a thread object is recycled into the heap it is taken from (R3).")
ASSUMPTIONS = ["the x86-64 Linux assembly backend is the one compiled (PIKA_HAVE_BOOST_CONTEXT off, checked)", "System V AMD64 ABI: rbx, rbp, r12-r15 and the MXCSR/x87 control bits are callee-saved"]
FLOORS = {"C12.R1": 3, "C12.R2": 6, "C12.R3": 3, "C12.R4": 2, "C12.R5": 1, "C12.R6": 11, "C12.R7": 2, "C12.R8": 1, "C12.R9": 2}

TD = "pika::threads::detail::thread_data"
CB = "pika::threads::coroutines::detail::context_base"
CI = "pika::threads::coroutines::detail::coroutine_impl"


def assigned_fields(fns):
    out = set()
    for fn in fns:
        for b, i, ev in fn.all_events():
            if ev.get("k") == "write":
                m = re.match(r"^this->(\w+)$", P(ev["lhs"]))
                if m:
                    out.add(m.group(1))
            elif ev.get("k") == "call" and ev.get("recv") is not None:
                m = re.match(r"^this->(\w+)$", P(ev["recv"]))
                if m and (ev.get("op") in ("=",) or callee_short(ev) in ("store", "clear", "reset", "exchange")):
                    out.add(m.group(1))
    return out


def ctor_fields(fn):
    return [i_["field"] for i_ in fn.raw.get("inits", []) if i_.get("field")]


def run(rep, tier):
    rep.rule("C12.R1", "K8: every field initialised by the constructor is re-initialised on recycling (rebind/reset), minus fields fixed for the object's life")
    rep.rule("C12.R2", "K8: swapcontext asm: callee-saved registers pushed, popped in reverse, rsp switched in between; offsets agree with funp_idx/cb_idx/context_size; FP control state")
    rep.rule("C12.R4", "K6 (who-may-hold): the thread-local 'current task' slot is looked up on the executing OS thread at every use: no reference or pointer to coroutine_self::local_self()'s result is kept in a variable or member (a task may resume on another worker)")
    rep.rule("C12.R3", "K8: alloc_stack/free_stack use the same size/guard adjustment; create_thread_object and recycle_thread select the heap by the same comparisons")

    # ---- R1
    G = facts(rep, lib("threading_base", "src/thread_data.cpp"), [r"^pika::threads::detail::thread_data::(thread_data|rebind_base|free_thread_exit_callbacks)$"])
    ctor = [f for f in G.find("^" + TD + "::thread_data$") if f.kind == "ctor" and f.file.endswith("thread_data.cpp")]
    rb = [f for f in G.find("^" + TD + "::rebind_base$") if f.file.endswith("thread_data.cpp")]
    if len(ctor) != 1 or len(rb) != 1:
        raise AnalysisBroken("thread_data constructor / rebind_base not found")
    cf = ctor_fields(ctor[0])
    if len(cf) < 8:
        raise AnalysisBroken("thread_data constructor: only %d mem-initialisers seen" % len(cf))
    exempt = {"is_stackless_": "kind of the object (stackful/stackless) is fixed: objects are recycled within their own heap",
              "stacksize_": "physical stack size is fixed for the object (asserted in rebind_base)",
              "queue_": "the owning queue is fixed: objects are recycled into the queue that created them"}
    ra = assigned_fields(rb)
    missing = [f for f in cf if f not in ra and f not in exempt]
    frees = any(e.get("k") == "call" and callee_short(e) == "free_thread_exit_callbacks" for _, _, e in rb[0].all_events())
    fr = [f for f in G.find(r"thread_data::free_thread_exit_callbacks$") if not f.pattern]
    if frees and fr and not any(e.get("k") == "call" and callee_short(e) in ("clear",) and P(e.get("recv")) == "this->exit_funcs_" or
                                 (e.get("k") == "call" and e.get("op") == "=" and P(e.get("recv")) == "this->exit_funcs_") for _, _, e in fr[0].all_events()):
        frees = False
    if missing or not frees:
        rep.bad("C12.R1", rb[0], rb[0].loc, "rebind:" + ",".join(missing or ["exit-callbacks"]), "thread_data::rebind_base does not re-initialise %s (set by the constructor): a task running on a recycled "
                "thread object inherits it from the previous task" % (missing or "the exit callbacks (free_thread_exit_callbacks)"))
    else:
        rep.ok("C12.R1", rb[0], "all %d constructor-initialised fields are reset by rebind_base (fixed for life: %s); exit callbacks freed first" % (len(cf), sorted(exempt)), sites=len(cf))
    # specific values that the property names
    want = {"requested_interrupt_": "false", "enabled_interrupt_": "true", "ran_exit_funcs_": "false"}
    got = {}
    for _, _, e in rb[0].all_events():
        if e.get("k") == "write":
            m = re.match(r"^this->(\w+)$", P(e["lhs"]))
            if m and m.group(1) in want:
                got[m.group(1)] = T(strip(e["rhs"]))
    if got == want:
        rep.ok("C12.R1", rb[0], "a recycled task starts with no interruption request, interruption enabled and exit callbacks not run")
    else:
        rep.bad("C12.R1", rb[0], rb[0].loc, "rebind-values", "rebind_base must reset %s (found %s)" % (want, got))
    CIF = facts(rep, lib("coroutines", "src/detail/coroutine_impl.cpp"), [r"context_base::(context_base|rebind_base|reset|reset_tss|yield|invoke)$", r"coroutine_impl::(coroutine_impl|rebind|reset|operator\(\))$",
                                                                             r"x86_linux_context_impl::(init|rebind_stack|reset_stack|x86_linux_context_impl)$"], [r"x86_linux_context_impl$"])
    for cls, ctorname, rebinders, ex in ((CB, "context_base", ("rebind_base", "reset", "reset_tss"), {"m_caller": "not a mem-initialiser target", "m_allocation_counters": "statistics",
                                                                                                   "continuation_recursion_count_": "only changed through the balanced accessor get_continuation_recursion_count() (scoped ++/--): zero whenever the coroutine is not executing"}),
                                         (CI, "coroutine_impl", ("rebind", "reset"), {})):
        cs = [f for f in CIF.find(r"::%s::%s$" % (cls.rsplit("::", 1)[-1], ctorname)) if f.kind == "ctor" and not f.pattern]
        rs = [f for f in CIF.fns if not f.pattern and f.parent == -1 and f.qname.rsplit("::", 1)[-1] in rebinders and cls.rsplit("::", 1)[-1] + "::" in f.qname]
        if not cs or not rs:
            raise AnalysisBroken("%s: constructor / rebind functions not found" % cls)
        c0 = max(cs, key=lambda f: len(ctor_fields(f)))
        cf = ctor_fields(c0)
        ra = assigned_fields(rs)
        missing = [f for f in cf if f not in ra and f not in ex]
        if missing:
            rep.bad("C12.R1", rs[0], rs[0].loc, "rebind:%s:%s" % (ctorname, ",".join(missing)), "%s: %s is initialised by the constructor but not by %s: a recycled coroutine inherits it" % (ctorname, missing, "/".join(rebinders)))
        else:
            rep.ok("C12.R1", rs[0], "%s: all %d constructor-initialised fields are reset by %s" % (ctorname, len(cf), "/".join(rebinders)), sites=len(cf))

    # ---- R2
    A = facts(rep, lib("coroutines", "src/swapcontext.cpp"), [r"^nothing$"])
    asms = [a for a in A.asm if "swapcontext_stack" in a["text"]]
    if not asms:
        raise AnalysisBroken("no file-scope asm for swapcontext_stack found (different context backend configured?)")
    rec = [r for r in CIF.records.values() if r["qname"].endswith("x86_linux_context_impl") and r["consts"].get("funp_idx") is not None]
    if not rec:
        raise AnalysisBroken("x86_linux_context_impl constants not found")
    consts = rec[0]["consts"]
    for a in asms:
        lines = [l.strip() for l in a["text"].split("\n") if l.strip()]
        name = [l[:-1] for l in lines if re.match(r"^\w+:$", l)][0]
        ins = [l for l in lines if not l.startswith(".") and not l.endswith(":")]
        pushes = [re.sub(r"^pushq\s+", "", l) for l in ins if l.startswith("pushq")]
        pops = [re.sub(r"^popq\s+", "", l) for l in ins if l.startswith("popq")]
        fn_id = "asm:" + name
        need = {"%rbp", "%rbx", "%r12", "%r13", "%r14", "%r15"}
        if need <= set(pushes):
            rep.ok("C12.R2", fn_id, "all SysV callee-saved integer registers are pushed (%s)" % " ".join(pushes))
        else:
            rep.bad("C12.R2", fn_id, a["loc"], "callee-saved", "callee-saved register(s) %s are not saved across a context switch" % sorted(need - set(pushes)))
        if pops == list(reversed(pushes)):
            rep.ok("C12.R2", fn_id, "registers are popped in exactly the reverse order of the pushes")
        else:
            rep.bad("C12.R2", fn_id, a["loc"], "pop-order", "pops %s are not the reverse of pushes %s: registers are restored into the wrong places" % (pops, pushes))
        idx = {l: n for n, l in enumerate(ins)}
        save = [n for n, l in enumerate(ins) if re.match(r"^movq\s+%rsp,\s*\(%rdi\)$", l)]
        load = [n for n, l in enumerate(ins) if re.match(r"^movq\s+%rsi,\s*%rsp$", l)]
        lastpush = max(n for n, l in enumerate(ins) if l.startswith("pushq"))
        firstpop = min(n for n, l in enumerate(ins) if l.startswith("popq"))
        if len(save) == 1 and len(load) == 1 and lastpush < save[0] < load[0] < firstpop:
            rep.ok("C12.R2", fn_id, "old rsp stored to (%rdi) after the last push, new rsp loaded from %rsi before the first pop")
        else:
            rep.bad("C12.R2", fn_id, a["loc"], "sp-switch", "the stack pointer must be saved after the last push and switched before the first pop")
        fun = [int(m.group(1)) for l in ins for m in [re.match(r"^movq\s+(\d+)\(%rsi\),\s*%rcx$", l)] if m]
        cb = [int(m.group(1)) for l in ins for m in [re.match(r"^movq\s+(\d+)\(%rsi\),\s*%rdi$", l)] if m]
        jmp = any(re.match(r"^jmp\s+\*%rcx$", l) for l in ins)
        okc = fun == [consts["funp_idx"] * 8] and cb == [consts["cb_idx"] * 8] and jmp and len(pushes) == consts["funp_idx"] and consts["context_size"] > consts["cb_idx"]
        if okc:
            rep.ok("C12.R2", fn_id, "frame offsets agree: funp at %d = funp_idx*8, cb at %d = cb_idx*8, %d pushes = funp_idx, context_size %d > cb_idx" % (fun[0], cb[0], len(pushes), consts["context_size"]))
        else:
            rep.bad("C12.R2", fn_id, a["loc"], "frame-offsets", "the assembly's frame layout (jump target at %s, argument at %s, %d saved registers) disagrees with funp_idx=%s, cb_idx=%s, context_size=%s: "
                    "a fresh task would start at a wrong address / with a wrong 'this'" % (fun, cb, len(pushes), consts.get("funp_idx"), consts.get("cb_idx"), consts.get("context_size")))
        fp = any(re.match(r"^(stmxcsr|ldmxcsr|fnstcw|fldcw)\b", l) for l in ins)
        if fp:
            rep.ok("C12.R2", fn_id, "floating-point control state (MXCSR / x87 control word) is saved and restored")
        else:
            rep.bad("C12.R2", fn_id, a["loc"], "fp-control-not-saved", "the context switch does not save/restore MXCSR and the x87 control word (callee-saved in the SysV ABI): a task that changes "
                    "the rounding/exception mode and yields resumes with whatever mode the worker's previous task left")
    ini = [f for f in CIF.find(r"x86_linux_context_impl::init$") if not f.pattern]
    rbs = [f for f in CIF.find(r"x86_linux_context_impl::rebind_stack$") if not f.pattern]
    if not ini or not rbs:
        raise AnalysisBroken("x86_linux_context_impl::init / rebind_stack not instantiated")

    def slots(fn):
        out = {}
        for _, _, e in fn.all_events():
            if e.get("k") == "write":
                m = re.match(r"^this->m_sp\[(.+)\]$", P(e["lhs"]))
                if m:
                    out[m.group(1).rsplit("::", 1)[-1]] = T(strip(e["rhs"]))
        return out
    s1, s2 = slots(ini[0]), slots(rbs[0])
    common = {k: v for k, v in s1.items() if k in ("cb_idx", "funp_idx")}
    if common and all(s2.get(k) == v for k, v in common.items()) and len(common) == 2:
        rep.ok("C12.R2", rbs[0], "init() and rebind_stack() write the same frame slots (cb_idx, funp_idx) with the same values")
    else:
        rep.bad("C12.R2", rbs[0], rbs[0].loc, "rebind-stack-slots", "rebind_stack() does not rebuild the start frame like init(): %s vs %s" % (s2, s1))

    # ---- R8: the C++ exception-handling state of a task
    rep.rule("C12.R8", "K8 (what the switch has to carry): the chain of caught exceptions (what std::current_exception() and 'throw;' refer to inside a handler) lives in the "
             "per-OS-thread __cxa_eh_globals of the C++ runtime. A task may yield inside a catch handler and resume on another worker, so whoever switches contexts has to "
             "save and restore that state per task; the only way to reach it is abi::__cxa_get_globals() / __cxa_get_globals_fast(). Structural necessary condition: some "
             "function of the coroutine / threading layers references it (context_base::yield only asserts std::uncaught_exceptions() == 0, in debug builds)")
    from .common import who_references
    refs, cpps8, hdrs8 = who_references(rep, r"__cxa_get_globals(_fast)?$", "__cxa_get_globals")
    refs2, cpps8b, hdrs8b = who_references(rep, r"__cxa_get_globals(_fast)?$", "__cxa_get_globals_fast")
    users8 = [f for Fx in list(refs) + list(refs2) for f in Fx.fns if f.file.startswith(core.LIBS)]
    yl = [f for f in CIF.find(r"context_base::yield$") if f.parent == -1] or [f for f in CIF.find(r"context_base::rebind_base$")]
    if not yl:
        raise AnalysisBroken("context_base::yield not found")
    if users8:
        rep.ok("C12.R8", users8[0], "the exception-handling globals are reached by %s" % users8[0].qname)
    else:
        rep.bad("C12.R8", yl[0], yl[0].loc, "eh-globals-not-switched", "no function of the library references __cxa_get_globals: the caught-exception chain of a task that yields inside a "
                "catch handler stays with the worker it ran on - other tasks on that worker see its exception as std::current_exception(), and the task itself, resumed on "
                "another worker, finds current_exception() empty ('throw;' would terminate or rethrow a foreign exception)")

    # ---- R9: the task's identity is published while anything of the task can still run
    rep.rule("C12.R9", "K2 (a task is itself until its last destructor has run): the trampoline publishes the task's 'self' in the worker's thread-local slot through a scoped "
             "guard (reset_self_on_exit) and clears it when the guard dies. Destroying the thread function (coroutine_impl::reset(): the destructors of everything the "
             "function object owns run here, on the task's stack, and may yield) and the task-local data (reset_tss) happens while that guard is alive - the guard is "
             "constructed before and destroyed after them on every path. Otherwise those destructors find no identity (get_self_id() invalid, this_thread::yield throws, a "
             "pika::mutex records no owner) and a stale self pointer is left behind for the next task")
    tr = [f for f in CIF.find(r"coroutine_impl::operator\(\)$") if f.parent == -1 and not f.pattern]
    if not tr:
        raise AnalysisBroken("coroutine_impl::operator() (the trampoline loop) not found")
    tr = tr[0]
    gvars = [e.get("var") for _, _, e in tr.all_events() if e.get("k") == "ctor" and str(e.get("rec")).endswith("reset_self_on_exit")]
    if not gvars:
        rep.bad("C12.R9", tr, tr.loc, "self-not-published", "the trampoline no longer publishes the task's self through a scoped guard")
    for nm in ("reset", "reset_tss"):
        cs9 = [(b, i, e) for b, i, e in tr.all_events() if e.get("k") == "call" and callee_short(e) == nm and e.get("recv") is not None and P(e["recv"]) == "this"]
        if not cs9:
            raise AnalysisBroken("trampoline: call of %s() not found" % nm)
        for b, i, e in cs9:
            alive = gvars and precedes_on_all_paths(tr, lambda x: x.get("k") == "ctor" and x.get("var") in gvars, (b, i),
                                                    reset_pred=lambda x: x.get("k") == "dtor" and x.get("var") in gvars)
            if alive:
                rep.ok("C12.R9", tr, "%s() runs while the task's self is published" % nm)
            else:
                rep.bad("C12.R9", tr, loc_of(e), "identity-withdrawn-before:" + nm, "the trampoline calls %s() after the guard that publishes the task's self (%s) has been destroyed (or "
                        "before it exists): the destructors of what the thread function owns run - possibly yielding - without an identity, and the self pointer they re-publish "
                        "through the agent is never cleared: later tasks on this worker inherit it" % (nm, ", ".join(gvars) or "reset_self_on_exit"))

    # ---- R7: a context that never ran has no stack yet
    rep.rule("C12.R7", "K8 (lazily allocated stack; the sibling context_generic_context guards the same two members with 'if (ctx_)'): the constructor leaves the stack "
             "pointer null and init() allocates the stack right before the first run, so a thread object that was created (suspended) and released without ever running is "
             "recycled without a stack. Every member that runs on the recycling path (reset_stack, rebind_stack) touches the stack - builds the start frame through m_sp, "
             "hands m_stack to posix::reset_stack - only where m_stack is known to be non-null")
    n7s = 0
    lazy = any(e.get("k") == "return" and any(("m_stack" in a and "nullptr" in a) or a == "this->m_stack" for a, t in
               (FactFlow(ini[0], eh=False).before.get((b, i)) or frozenset())) for b, i, e in ini[0].all_events())
    for short in ("reset_stack", "rebind_stack"):
        fs7 = [f for f in CIF.find(r"x86_linux_context_impl::%s$" % short) if not f.pattern]
        if not fs7:
            raise AnalysisBroken("x86_linux_context_impl::%s not instantiated" % short)
        fn = fs7[0]
        ff7 = FactFlow(fn, eh=False)
        uses = []
        for b, i, e in fn.all_events():
            if e.get("k") == "write" and re.match(r"^this->m_sp(\[|$)", P(e["lhs"])) and derives_from(fn, e.get("rhs"), lambda t: "m_stack" in t):
                uses.append((b, i, e, "computes the frame address from m_stack"))
            elif e.get("k") == "call" and callee_short(e) == "reset_stack" and e.get("args") and "m_stack" in T(e["args"][0]):
                uses.append((b, i, e, "hands m_stack to posix::reset_stack (which reads the watermark through it)"))
        if not uses:
            raise AnalysisBroken("x86_linux_context_impl::%s: no use of the stack found" % short)
        for b, i, e, what in uses:
            n7s += 1
            fb = ff7.before.get((b, i)) or frozenset()
            nonnull = any((re.search(r"m_stack == nullptr$|^nullptr == this->m_stack$", a) and t is False) or (re.search(r"m_stack != nullptr$|^nullptr != this->m_stack$", a) and t is True) or
                          (a == "this->m_stack" and t is True) for a, t in fb)
            if nonnull or not lazy:
                rep.ok("C12.R7", fn, "%s touches the stack only where m_stack is non-null" % short)
            else:
                rep.bad("C12.R7", fn, loc_of(e), "never-run-context:" + short, "%s %s without m_stack being known non-null (a debug-only assertion does not count): a thread object created "
                        "suspended and released without ever running has no stack yet (init() allocates it before the first run); when it is recycled for the next task of its "
                        "stack-size class the write goes through a null-based pointer - the process crashes in thread_data_stackful::rebind" % (short, what))
    if n7s < 2:
        raise AnalysisBroken("C12.R7: only %d uses of the lazily allocated stack examined" % n7s)

    # ---- R3
    PU = facts(rep, lib("coroutines", "src/detail/posix_utility.cpp"), [r"^pika::threads::coroutines::detail::posix::(alloc_stack|free_stack|add_guard_page|stack_size_with_guard_page|to_stack_with(out)?_guard_page)$"])
    al = PU.find(r"posix::alloc_stack$")
    fr = PU.find(r"posix::free_stack$")
    if not al or not fr:
        raise AnalysisBroken("posix::alloc_stack/free_stack not found (non-mmap configuration?)")
    mm = [e for _, _, e in al[0].all_events() if e.get("k") == "call" and callee_short(e) == "mmap"]
    un = [e for _, _, e in fr[0].all_events() if e.get("k") == "call" and callee_short(e) == "munmap"]
    rets = [e for _, _, e in al[0].all_events() if e.get("k") == "return"]
    okm = mm and T(strip(mm[0]["args"][1])) == "stack_size_with_guard_page(size)" and rets and T(strip(rets[0]["e"])) == "to_stack_without_guard_page(real_stack)"
    oku = un and T(strip(un[0]["args"][0])) == "to_stack_with_guard_page(stack)" and T(strip(un[0]["args"][1])) == "stack_size_with_guard_page(size)"
    guard = any(e.get("k") == "call" and callee_short(e) == "add_guard_page" and T(e["args"][0]) == "real_stack" for _, _, e in al[0].all_events())
    if okm and oku and guard:
        rep.ok("C12.R3", al[0], "mmap(size+guard) -> protect first page -> hand out base+guard; munmap(base-guard, size+guard): symmetric")
    else:
        rep.bad("C12.R3", al[0], al[0].loc, "stack-alloc-free", "alloc_stack/free_stack are not symmetric in size / guard-page adjustment (map ok %s, unmap ok %s, guard page %s): stacks overlap or unmap foreign memory" % (bool(okm), bool(oku), guard))
    Q = facts(rep, lib("thread_pools", "src/scheduled_thread_pool.cpp"), [r"^pika::threads::detail::thread_queue::(create_thread_object|recycle_thread)$"])
    co = [f for f in Q.find(r"thread_queue::create_thread_object$") if not f.pattern]
    rc = [f for f in Q.find(r"thread_queue::recycle_thread$") if not f.pattern]
    if not co or not rc:
        raise AnalysisBroken("thread_queue::create_thread_object/recycle_thread not instantiated")

    def heap_table(fn):
        ff = FactFlow(fn)
        out = {}
        for b, i, e in fn.all_events():
            heap = None
            if e.get("k") in ("write", "decl") and (e.get("rhs") if e.get("k") == "write" else e.get("init")) is not None:
                # the address of one of the heaps is taken (whatever the pointer variable is called)
                m = re.match(r"^&\s*\(?this->thread_heap_(\w+)_\)?$", T(strip(e.get("rhs") if e.get("k") == "write" else e.get("init"))))
                heap = m.group(1) if m else None
            if e.get("k") == "call" and callee_short(e) in ("push_back", "push_front"):
                m = re.search(r"this->thread_heap_(\w+)_$", P(e.get("recv")))
                heap = m.group(1) if m else None
            if heap:
                fb = ff.before.get((b, i)) or frozenset()
                conds = sorted(re.sub(r".*parameters_\.(\w+)_stacksize_.*", r"\1", a) for a, t in fb if t and "stacksize" in a and "parameters_" in a)
                out[heap] = conds[-1] if conds else None
        return out
    t1, t2 = heap_table(co[0]), heap_table(rc[0])
    if t1 and t1 == t2 and all(k == v for k, v in t1.items()):
        rep.ok("C12.R3", rc[0], "create_thread_object and recycle_thread map stack sizes to the same heaps: %s" % sorted(t1))
    else:
        rep.bad("C12.R3", rc[0], rc[0].loc, "heap-selection", "a thread object can be recycled into a heap for another stack size than the one it is taken from (create: %s, recycle: %s): a task would run on a stack of the wrong size" % (t1, t2))

    # the second implementation of the same pair (the per-worker holder of the shared-priority scheduler)
    QH = facts(rep, lib("thread_pools", "src/scheduled_thread_pool.cpp"), [r"^pika::threads::detail::queue_holder_thread::(create_thread_object|recycle_thread)$"])
    coh = [f for f in QH.find(r"queue_holder_thread::create_thread_object$") if not f.pattern]
    rch = [f for f in QH.find(r"queue_holder_thread::recycle_thread$") if not f.pattern]
    if not coh or not rch:
        raise AnalysisBroken("queue_holder_thread::create_thread_object/recycle_thread not instantiated")
    h1, h2 = heap_table(coh[0]), heap_table(rch[0])
    if h1 and h1 == h2 and all(k == v for k, v in h1.items()):
        rep.ok("C12.R3", rch[0], "queue_holder_thread: create_thread_object and recycle_thread map stack sizes to the same heaps: %s" % sorted(h1))
    else:
        rep.bad("C12.R3", rch[0], rch[0].loc, "heap-selection:queue_holder_thread", "queue_holder_thread (shared-priority scheduler): a thread object can be recycled into a heap for another "
                "stack size than the one create_thread_object takes it from (create: %s, recycle: %s): a terminated stackless object handed out as a small-stack thread runs its task on "
                "the worker's own stack" % (h1, h2))

    # ---- R6: the size a task's stack is allocated with is the configured one
    rep.rule("C12.R6", "K8 (cache of configuration entries): runtime_configuration keeps the configured stack size of each class in a member that thread_manager, the queues and the "
             "stack allocator read through get_stack_size(); the constructor and reconfigure() re-read all four with the reader of their own class after every merge of "
             "configuration sources (post_initialize_ini), and get_stack_size(class) hands out the member of that class")
    from .common import stack_size_cache_rule
    stack_size_cache_rule(rep, "C12.R6")

    # ---- R5: a recycled object is owned exclusively before the queue lock is let go
    rep.rule("C12.R5", "K1/K2 (exclusive ownership of a reused object and its stack): in thread_queue::create_thread_object a thread object looked at in a recycle heap "
             "(back()) is removed from that heap (pop_back) before the queue lock is released or the function returns - otherwise a second creator or a concurrent "
             "recycle_thread hands the same object (and stack) to two live tasks")
    from engine.core import forward as _fw
    n5 = 0
    for fn in co:
        peek = set((b, i) for b, i, e in fn.all_events() if e.get("k") == "call" and callee_short(e) in ("back", "front") and "heap" in P(e.get("recv") or {}))
        take = set((b, i) for b, i, e in fn.all_events() if e.get("k") == "call" and callee_short(e) in ("pop_back", "pop_front", "erase") and "heap" in P(e.get("recv") or {}))
        if not peek:
            continue
        is_rel = lambda e: (e.get("k") == "ctor" and e.get("rec") == "pika::detail::unlock_guard") or \
            (e.get("k") == "call" and callee_short(e) == "unlock" and e.get("recv") is not None and strip(e["recv"]).get("k") == "var")

        def tr(st, ev, pos):
            if pos in peek:
                return frozenset(["peeked"])
            if pos in take:
                return frozenset()
            return st
        before, bin_, _ = _fw(fn, frozenset(), tr, None, lambda a, b: a | b)
        n5 += 1
        probs = [loc_of(e) for b, i, e in fn.all_events() if is_rel(e) and "peeked" in (before.get((b, i)) or ())]
        if "peeked" in (bin_.get(fn.exit) or ()):
            probs.append("function exit")
        if probs:
            rep.bad("C12.R5", fn, probs[0] if ":" in probs[0] else fn.loc, "reused-object-still-in-heap", "create_thread_object reaches %s with the thread object it is about to "
                    "reuse still sitting in the recycle heap: another creator or recycle_thread running meanwhile gives the same object and stack to a second live task" % probs[0])
        else:
            rep.ok("C12.R5", fn, "the reused thread object is popped from its heap before the queue lock is released")
    if n5 < 1:
        raise AnalysisBroken("C12.R5: no recycle-heap access in create_thread_object")

    # ---- R4: nobody keeps a handle on the thread-local slot across a context switch
    from .common import who_references
    SLOT = "pika::threads::coroutines::detail::coroutine_self::local_self"
    WF, cpps, hdrs = who_references(rep, r"coroutine_self::local_self$", "local_self")
    seen_fn = set()
    nuse = 0

    def has_slot(x):
        return bool(subexprs(x, lambda y: isinstance(y, dict) and y.get("k") == "call" and callee_of(y) == SLOT)) if x is not None else False

    def is_handle(t):
        t = str(t or "").replace("const", "").strip()
        return t.endswith("&") or t.endswith("* *") or t.endswith("**")
    for W in WF:
        for f in W.fns:
            if f.qname == SLOT or (f.qname, f.loc) in seen_fn:
                continue
            seen_fn.add((f.qname, f.loc))
            for b, i, ev in f.all_events():
                k = ev.get("k")
                bad = None
                if k == "init" and has_slot(ev.get("init")) and is_handle(ev.get("ftype")):
                    bad = "member '%s' (%s) is bound to the slot" % (ev.get("field"), ev.get("ftype"))
                elif k == "decl" and has_slot(ev.get("init")) and is_handle(ev.get("type")):
                    bad = "local '%s' (%s) is bound to the slot" % (ev.get("var"), ev.get("type"))
                elif k == "return" and has_slot(ev.get("e")) and str(f.raw.get("ret", "")).rstrip().endswith("&"):
                    bad = "the slot reference is returned (%s)" % f.raw.get("ret")
                elif k in ("init", "decl", "return", "write", "call") and (has_slot(ev.get("init")) or has_slot(ev.get("e")) or has_slot(ev.get("rhs"))
                                                                         or has_slot(ev.get("lhs")) or (k == "call" and callee_of(ev) != SLOT and has_slot(ev.get("args")))):
                    # address-of the slot anywhere
                    for x in (ev.get("init"), ev.get("e"), ev.get("rhs"), ev.get("args")):
                        if x is not None and subexprs(x, lambda y: isinstance(y, dict) and y.get("k") == "un" and y.get("op") == "&" and has_slot(y.get("e"))):
                            bad = "the address of the slot is taken"
                if k in ("init", "decl", "return", "write") and (has_slot(ev.get("init")) or has_slot(ev.get("e")) or has_slot(ev.get("rhs")) or has_slot(ev.get("lhs"))):
                    nuse += 1
                    if bad:
                        rep.bad("C12.R4", f, loc_of(ev), "tls-handle:%s" % f.qname.rsplit("::", 1)[-1], "%s: %s. The slot belongs to the OS thread that executed the "
                                "lookup; after a yield the task may run on another worker, so a stored handle writes the task's identity into the old worker's "
                                "slot and leaves the new worker's slot stale" % (f.qname, bad))
                    else:
                        rep.ok("C12.R4", f, "%s uses the slot transiently (%s at %s)" % (f.qname.rsplit("::", 1)[-1], k, loc_of(ev)))
    if nuse < 2:
        raise AnalysisBroken("C12.R4: fewer than two uses of coroutine_self::local_self found (files spelling it: %s)" % (cpps + hdrs))

    # ---- R3 (continued): the pseudo class 'current' ("the creator's class") is resolved while the creating task is
    # still the running task, i.e. before the task description is staged or the thread object is created - a staged
    # task is converted later by a worker's scheduling loop, where 'current' would mean that loop's default (small)
    from engine.kinds import eval_walk
    QF = facts(rep, lib("thread_pools", "src/scheduled_thread_pool.cpp"), [r"^pika::threads::detail::(thread_queue|thread_queue_mc)::create_thread$"])
    cts = [f for f in QF.fns if f.parent == -1 and (not f.pattern or not any((g.qname == f.qname and not g.pattern) for g in QF.fns))]
    if len(cts) < 2:
        raise AnalysisBroken("thread_queue(_mc)::create_thread not found")
    CUR = "data.stacksize == pika::execution::thread_stacksize::current"
    for f in cts:
        is_res = lambda e: e.get("k") == "write" and P(e["lhs"]) == "data.stacksize" and "get_self_stacksize_enum" in T(e.get("rhs"))
        is_sink = lambda e: (e.get("k") == "call" and callee_short(e) == "create_thread_object") or \
            (e.get("k") == "call" and callee_short(e) == "push" and "new_task" in P(e.get("recv"))) or \
            (e.get("k") == "new" and "data" in T(e))
        leaves = set(cond_atoms(blk.cond)[0] for blk in f.blocks.values() if blk.cond is not None)
        if CUR not in leaves and not any("thread_stacksize::current" in l for l in leaves):
            rep.bad("C12.R3", f, f.loc, "current-unresolved:" + f.qname.rsplit("::", 2)[-2], "%s never tests for thread_stacksize::current" % f.qname)
            continue
        cur_atom = CUR if CUR in leaves else [l for l in leaves if "thread_stacksize::current" in l][0]
        bad = []
        npaths = 0
        for evs, end in eval_walk(f, f.entry, atom_env={cur_atom: True}):
            seq = [e for _, _, e in evs]
            sinks = [k_ for k_, e in enumerate(seq) if is_sink(e)]
            if not sinks:
                continue
            npaths += 1
            res = [k_ for k_, e in enumerate(seq) if is_res(e)]
            if not res or min(res) > min(sinks):
                bad.append(loc_of(seq[min(sinks)]))
        if npaths == 0:
            raise AnalysisBroken("%s: no path to a staging / creation site found" % f.qname)
        if bad:
            rep.bad("C12.R3", f, bad[0], "current-unresolved:" + f.qname.rsplit("::", 2)[-2], "%s stages / creates a task whose stack size class is still 'current' "
                    "(reached %s without data.stacksize = get_self_stacksize_enum()): the class is then resolved by whoever converts the task - a worker's "
                    "scheduling loop - and the task runs on a stack of the wrong (small) size" % (f.qname, sorted(set(bad))))
        else:
            rep.ok("C12.R3", f, "%s resolves 'current' to the creator's class before staging or creating the task (%d paths)" % (f.qname.rsplit("::", 2)[-2], npaths), sites=npaths)
