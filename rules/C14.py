# C14 — stop_token: one winning stop request, each callback exactly once (structural part; DESIGN.md §5 C14)
import re
from engine.core import subexprs, AnalysisBroken, P, T, callee_of, callee_short, cond_atoms, loc_of, strip, forward, block_path, is_moved, walk
from engine.kinds import (LockFlow, FactFlow, check_guarded, precedes_on_all_paths, always_followed_by)
from .common import facts, lib, driver, witness

EXPLANATION = (
    "Static analysis of the current source. Decided: the bit fields of the stop-state word are disjoint and cover 64 "
    "bits (R1); in lock_and_request_stop / lock_if_not_stopped every compare-exchange is reached only after the word "
    "it is based on was tested for the stop bit since its last (re)load, the desired word ORs the right flags and true "
    "is returned only after CAS success (R2); the callback list is touched only with the state lock held and list "
    "helpers are called only under it (R3); request_stop unlinks a callback and releases the lock before running it, "
    "publishes 'finished' with release order afterwards, execute() has no other callers and the destructor path waits "
    "unless it runs on the signalling thread (R4); stop_source's special members keep the source count balanced (R5); "
    "stop_callback is neither copyable nor movable (R6). Not decided: the happens-before argument for the relaxed "
    "read in remove_callback; behaviour when the 31-bit counters overflow.")
ASSUMPTIONS = ["pika::memory::intrusive_ptr copy/move/assign only affect the token reference count (intrusive_ptr_add_ref/release)",
               "std::atomic operations are the only accesses to state_"]
THOROUGH_CONFIGS = [["-UNDEBUG", "-DPIKA_DEBUG"]]
FLOORS = {"C14.R12": 3, "C14.R11": 3, "C14.R10": 5, "C14.R9": 12, "C14.R1": 6, "C14.R2": 6, "C14.R3": 5, "C14.R4": 8, "C14.R5": 6, "C14.R6": 4, "C14.R7": 8, "C14.R8": 3}

SS = "pika::detail::stop_state"
TRY_GUARDS = ("pika::detail::scoped_lock_if_not_stopped", "pika::detail::scoped_lock_and_request_stop")


def ival(v):
    return int(v) if isinstance(v, str) else v


def or_leaves(e, acc):
    e = strip(e)
    if isinstance(e, dict) and e.get("k") == "bin" and e["op"] == "|":
        or_leaves(e["l"], acc)
        or_leaves(e["r"], acc)
    else:
        acc.append(e)
    return acc


def word_vars(fn, tree, depth=3):
    """Local variables a compare-exchange's desired value is computed from.  A const local that is itself computed from another local
    ('auto const desired = old_state | flag') stands for that local; a local initialised from a load of the atomic stays itself."""
    decls, written = {}, set()
    for _, _, e in fn.all_events():
        if e.get("k") == "decl" and e.get("init") is not None:
            decls.setdefault(e["var"], []).append(e["init"])
        elif e.get("k") == "write":
            written.add(P(e["lhs"]))
    isvar = lambda y: isinstance(y, dict) and y.get("k") == "var" and not y.get("global") and "val" not in y
    out = set()
    work = [(x.get("name"), depth) for x in subexprs(tree, isvar)]
    while work:
        n, d = work.pop()
        inner = [x.get("name") for init in decls.get(n, []) for x in subexprs(init, isvar)] if (len(decls.get(n, [])) == 1 and n not in written and d > 0) else []
        if inner:
            work += [(m, d - 1) for m in inner]
        else:
            out.add(n)
    return out


def run(rep, tier):
    from .common import unknown_helpers_are_not_violations
    unknown_helpers_are_not_violations(rep, ("C14.R2", "C14.R3", "C14.R4", "C14.R8", "C14.R9", "C14.R10", "C14.R12"))
    rep.rule("C14.R1", "K8: token_ref_mask, stop_requested_flag, source_ref_mask, locked_flag are disjoint, cover 64 bits; increments are the masks' lowest bits")
    rep.rule("C14.R8", "K4/K8 (generation agreement): in every compare-exchange on the packed word state_ the desired word is computed from the same generation of the word as the "
             "expected one - after a failed attempt or a reload both are recomputed before the next attempt (a stale desired word rolls back other threads' updates of the counts / the stop bit)")
    rep.rule("C14.R9", "K4/K7: (freshness) every turn of a retry / spin loop in lock, lock_and_request_stop, lock_if_not_stopped that tests a local copy of the "
             "state word refreshes that copy from the value the failed compare-exchange observed or from a new load; (results) a successful compare-exchange "
             "is reported as true (the caller's guard unlocks only then), a seen stop request makes lock_if_not_stopped run the callback, publish "
             "finished=true and return false; add_callback links the callback exactly on the paths that return true; remove_callback writes through "
             "is_removed_ only when it is set")
    rep.rule("C14.R10", "K8 (list invariant: a node's prev_ is the address of the link that points at it): whenever add_this_callback, remove_this_callback or "
             "request_stop's dequeue make a forward link (callbacks_ / next_ / *prev_) point at a node N, N->prev_ is set to the address of that link before the "
             "stop-state lock is released or the function returns (N == nullptr excepted); the dequeued callback is marked unlinked (prev_ = nullptr). "
             "Otherwise a later remove_callback unlinks through a stale address - it writes into another (possibly destroyed) callback and leaves the node in "
             "the list: request_stop runs a callback whose destructor has returned")
    rep.rule("C14.R11", "K7 (evaluated on sample words): the predicates over the packed state word read exactly their own field whatever the other fields hold - "
             "stop_requested(w) <=> stop bit, is_locked(w) <=> lock bit, stop_possible(w) <=> stop bit or source count != 0 (not the token count, not the lock bit: "
             "the lock bit is set while any thread registers or removes a callback)")
    rep.rule("C14.R2", "K4: every CAS on state_ in lock_and_request_stop/lock_if_not_stopped sees !stop_requested(word) established since the word's last (re)load; flags ORed as required; true only after CAS success")
    rep.rule("C14.R3", "K1: callbacks_ accessed and list helpers called only with the stop_state lock held")
    rep.rule("C14.R4", "K2/K6: callbacks run unlocked after being unlinked; finished flag published with release; execute() only from the three known sites; remove_callback waits unless on the signalling thread")
    rep.rule("C14.R12", "K6 (who is 'this thread'): remove_callback skips waiting for a running callback only when it runs on the thread that is executing the callbacks (a callback "
             "deregistering itself). Threads that are not pika threads all have the same - invalid - pika thread id, so a test on the pika id alone takes any two plain OS "
             "threads for the same thread: the destructor on OS thread U returns while the callback is still running on OS thread T (and writes through T's is_removed_ "
             "pointer). The test therefore also compares an OS-level identity (std::this_thread::get_id()) that request_stop recorded")
    rep.rule("C14.R5", "K8: stop_source special members keep the source count balanced")
    rep.rule("C14.R6", "K9: stop_callback is pinned; state word lock-free")
    rep.rule("C14.R7", "K5 (who-may-write, whole library): the packed word stop_state::state_ (token count | stop bit | source count | lock bit) is modified only by atomic read-modify-write operations outside the constructor; the lock bit is released with >= release")

    F = facts(rep, lib("synchronization", "src/stop_token.cpp"),
              [r"^pika::detail::stop_state::", r"^pika::detail::stop_callback_base::", r"^pika::stop_source::",
               r"^pika::detail::scoped_lock_", r"^pika::detail::intrusive_ptr_"],
              [r"^pika::detail::stop_state$", r"^pika::stop_source$"])

    # ---- R1
    recs = F.record(SS)
    if not recs:
        raise AnalysisBroken("record %s not found" % SS)
    c = {k: ival(v) for k, v in recs[0]["consts"].items()}
    need = ["token_ref_mask", "stop_requested_flag", "source_ref_mask", "locked_flag", "token_ref_increment", "source_ref_increment"]
    for n in need:
        if n not in c:
            raise AnalysisBroken("constant %s::%s not found" % (SS, n))
    masks = ["token_ref_mask", "stop_requested_flag", "source_ref_mask", "locked_flag"]
    for i, a in enumerate(masks):
        for b in masks[i + 1:]:
            if c[a] & c[b]:
                rep.bad("C14.R1", SS, recs[0]["loc"], "overlap:%s:%s" % (a, b), "bit fields %s (0x%x) and %s (0x%x) overlap" % (a, c[a], b, c[b]))
            else:
                rep.ok("C14.R1", SS, "%s and %s are disjoint" % (a, b))
    tot = 0
    for a in masks:
        tot |= c[a]
    if tot != (1 << 64) - 1:
        rep.bad("C14.R1", SS, recs[0]["loc"], "coverage", "bit fields do not cover the 64-bit word: 0x%x" % tot)
    for inc, m in (("token_ref_increment", "token_ref_mask"), ("source_ref_increment", "source_ref_mask")):
        if c[inc] == (c[m] & -c[m]):
            rep.ok("C14.R1", SS, "%s is the lowest bit of %s" % (inc, m))
        else:
            rep.bad("C14.R1", SS, recs[0]["loc"], "increment:" + inc, "%s (0x%x) is not the lowest bit of %s (0x%x)" % (inc, c[inc], m, c[m]))
    for f, single in (("stop_requested_flag", True), ("locked_flag", True)):
        if c[f] & (c[f] - 1):
            rep.bad("C14.R1", SS, recs[0]["loc"], "single-bit:" + f, "%s must be a single bit" % f)

    def get(q):
        fs = F.find("^" + q + "$")
        if len(fs) != 1:
            raise AnalysisBroken("expected one definition of %s, found %d" % (q, len(fs)))
        return fs[0]

    # ---- R2
    for name, want, forbid in (("lock_and_request_stop", ["stop_requested_flag", "locked_flag"], []),
                               ("lock_if_not_stopped", ["locked_flag"], ["stop_requested_flag"])):
        fn = get(SS + "::" + name)
        ff = FactFlow(fn)
        cas = [(b, i, ev) for b, i, ev in fn.all_events() if ev.get("k") == "call" and
               callee_short(ev).startswith("compare_exchange") and P(ev.get("recv")) == "this->state_"]
        if not cas:
            raise AnalysisBroken("%s: no compare_exchange on state_" % fn.qname)
        for b, i, ev in cas:
            desired = ev["args"][1]
            leaves = or_leaves(desired, [])
            words = [T(x) for x in leaves if strip(x).get("k") == "var" and not strip(x).get("global")]
            vals = [ival(x.get("val")) for x in leaves if isinstance(x, dict) and x.get("val") is not None]
            if len(words) != 1:
                raise AnalysisBroken("%s: cannot identify the state word in the CAS desired value %s" % (fn.qname, T(desired)))
            w = words[0]
            fb = ff.before.get((b, i))
            if fb is None:
                continue
            if ("stop_requested(%s)" % w, False) in fb:
                rep.ok("C14.R2", fn, "CAS at %s is reached only with !stop_requested(%s) established since %s was last (re)loaded" % (loc_of(ev), w, w))
            else:
                rep.bad("C14.R2", fn, loc_of(ev), "cas-without-recheck",
                        "the compare-exchange can be reached with a word (%s) that was reloaded (failed CAS / load) and not "
                        "re-tested for the stop bit: if another thread completed request_stop() in between, this call also "
                        "succeeds (second request_stop returns true / callback registered after stop and never run). facts: %s"
                        % (w, sorted(fb)), path=[{"block": x} for x in block_path(fn, b)])
            allbits = 0
            for v_ in vals:
                if isinstance(v_, int):
                    allbits |= v_              # a named constant may carry several flags
            for flag in want:
                if c[flag] in vals or (allbits & c[flag]) == c[flag]:
                    rep.ok("C14.R2", fn, "CAS desired value sets %s" % flag)
                else:
                    rep.bad("C14.R2", fn, loc_of(ev), "desired-missing:" + flag, "CAS desired value %s does not set %s" % (T(desired), flag))
            for flag in forbid:
                if c[flag] in vals:
                    rep.bad("C14.R2", fn, loc_of(ev), "desired-extra:" + flag, "CAS desired value %s must not set %s" % (T(desired), flag))
            cas_text = T(ev)
        for b, i, ev in fn.all_events():
            if ev.get("k") == "return" and (b, i) in ff.before:
                v = strip(ev["e"])
                if v.get("k") == "lit" and v.get("v") is True:
                    if any(t and a.startswith("this->state_.compare_exchange") for a, t in ff.before[(b, i)]):
                        rep.ok("C14.R2", fn, "returns true only after a successful compare-exchange")
                    else:
                        rep.bad("C14.R2", fn, loc_of(ev), "true-without-cas", "returns true without a successful compare-exchange")

    # ---- R8: the desired word of a compare-exchange is computed from the same generation of the word as the expected one
    from engine.core import forward
    n8 = 0
    for fn in [f for f in F.fns if f.qname.startswith(SS + "::") and f.parent == -1 and not f.pattern]:
        cas = [(b, i, ev) for b, i, ev in fn.all_events() if ev.get("k") == "call" and
               callee_short(ev).startswith("compare_exchange") and P(ev.get("recv")) == "this->state_"]
        for cb, ci, cev in cas:
            E = P(cev["args"][0])
            from engine.kinds import expand_locals as _xl8
            # a desired value kept in a const local ('auto const desired = old | flag; cas(expected, desired)') reads like the expression itself
            dvars = sorted(word_vars(fn, cev["args"][1]))
            if len(dvars) != 1:
                raise AnalysisBroken("%s: cannot identify the word the desired value %s is computed from" % (fn.qname, T(cev["args"][1])))
            W = dvars[0]
            n8 += 1
            if W == E:
                rep.ok("C14.R8", fn, "CAS at %s: expected and desired are computed from the same variable (%s), which a failed attempt refreshes" % (loc_of(cev), W))
                continue
            word = lambda n, t: re.search(r"(^|[^\w.>])%s($|[^\w])" % re.escape(n), t) is not None
            stale = []

            def tr(st, e, pos, E=E, W=W, cev=cev, stale=stale):
                if e is cev:
                    if st != "sync":
                        stale.append(st)
                    return "unsync"         # a failed attempt stores the observed word into E
                k = e.get("k")
                tgt = rhs = None
                if k == "decl" and e.get("init") is not None:
                    tgt, rhs = e.get("var"), T(e["init"])
                elif k == "write":
                    tgt, rhs = P(e["lhs"]), T(e.get("rhs"))
                if tgt == E:
                    return "sync" if (rhs is not None and word(W, rhs) and e.get("op", "=") == "=") else "unsync"
                if tgt == W:
                    return "unsync"
                return st
            forward(fn, "unsync", tr, None, lambda a, b: a if a == b else "unsync")
            if stale:
                rep.bad("C14.R8", fn, loc_of(cev), "cas-desired-stale:" + fn.qname.rsplit("::", 1)[-1],
                        "the compare-exchange at %s installs a word computed from '%s' while it expects '%s', and on some path '%s' is not recomputed from '%s' after '%s' or '%s' changed "
                        "(a failed attempt stores the observed word into '%s'): a retry writes back a stale copy of the packed word and rolls back what other threads changed meanwhile - "
                        "token/source counts (stop_possible wrong, state freed early) or the stop-requested bit (a second request_stop wins)"
                        % (loc_of(cev), W, E, E, W, W, E, E))
            else:
                rep.ok("C14.R8", fn, "CAS at %s: '%s' is recomputed from '%s' after every change of either before the next attempt" % (loc_of(cev), E, W))
    if n8 < 3:
        raise AnalysisBroken("C14.R8 examined only %d compare-exchange sites on state_" % n8)

    # ---- R3
    lockfns = {}
    n_acc = 0
    for fn in F.find("^" + SS + "::"):
        if fn.kind in ("ctor", "dtor"):
            continue
        accs = [(b, i, ev) for b, i, ev in fn.all_events() if ev.get("k") == "read" and ev["e"].get("name") == "callbacks_"
                and ev["e"].get("rec") == SS]
        helper = [(b, i, ev) for b, i, ev in fn.all_events() if ev.get("k") == "call" and
                  callee_of(ev) in ("pika::detail::stop_callback_base::add_this_callback", "pika::detail::stop_callback_base::remove_this_callback")]
        sig_w = [(b, i, ev) for b, i, ev in fn.all_events() if ev.get("k") == "call" and ev.get("op") == "=" and
                 P(ev.get("recv")) == "this->signalling_thread_"]
        if not (accs or helper or sig_w):
            continue
        lf = LockFlow(fn, try_guard_recs=TRY_GUARDS)
        for b, i, ev in accs + helper + sig_w:
            held = lf.held_before((b, i))
            if held is None:
                continue
            n_acc += 1
            what = T(ev["e"]) if ev.get("k") == "read" else T(ev)
            if "*this" in held:
                rep.ok("C14.R3", fn, "%s at %s with the state lock held" % (what, loc_of(ev)))
            else:
                rep.bad("C14.R3", fn, loc_of(ev), "unlocked:" + (what.split("(")[0]), "%s without the stop_state lock" % what,
                        path=[{"block": x} for x in block_path(fn, b)])
    if n_acc < 5:
        raise AnalysisBroken("C14.R3 found only %d accesses" % n_acc)

    # ---- R4
    EXEC = "pika::detail::stop_callback_base::execute"
    sites = []
    for fn in F.fns:
        for b, i, ev in fn.all_events():
            if ev.get("k") == "call" and callee_of(ev) == EXEC:
                sites.append((fn, b, i, ev))
    allowed = {SS + "::request_stop": 1, SS + "::lock_if_not_stopped": None}
    def owner(fn_):
        # a local lambda belongs to the function it is written in (its body is spliced into that function's CFG)
        while fn_.parent is not None and fn_.parent != -1 and fn_.parent in F.by_id:
            fn_ = F.by_id[fn_.parent]
        return fn_
    sites = [(fn, b, i, ev) for fn, b, i, ev in sites if fn.parent in (-1, None) or owner(fn).qname not in allowed]
    for fn, b, i, ev in sites:
        if fn.qname not in allowed:
            rep.bad("C14.R4", fn, loc_of(ev), "execute-caller", "stop_callback_base::execute() called from %s: callbacks may run twice" % fn.qname)
    rs = get(SS + "::request_stop")
    ex = [(b, i, ev) for f, b, i, ev in sites if f is rs]
    if not ex:
        rep.bad("C14.R4", rs, rs.loc, "callbacks-never-run", "request_stop dequeues the registered callbacks but never executes them: a stop_callback registered before "
                "request_stop() never runs")
        raise AnalysisBroken("request_stop: no execute() call (reported as a violation); the ordering rules around it cannot be evaluated")
    if len(ex) != 1:
        raise AnalysisBroken("request_stop: expected exactly one execute() call, found %d" % len(ex))
    eb, ei, eev = ex[0]
    is_ul_ctor = lambda e: e.get("k") == "ctor" and e.get("rec") == "pika::detail::unlock_guard"
    is_ul_dtor = lambda e: e.get("k") == "dtor" and e.get("rec") == "pika::detail::unlock_guard"
    if precedes_on_all_paths(rs, is_ul_ctor, (eb, ei), reset_pred=is_ul_dtor):
        rep.ok("C14.R4", rs, "execute() runs with the state lock released (unlock_guard alive)")
    else:
        rep.bad("C14.R4", rs, loc_of(eev), "execute-locked", "the callback runs while the stop_state lock is held: a callback that "
                "deregisters another stop_callback (or its own) deadlocks in remove_callback")
    CB = P(eev.get("recv"))            # the callback being run (whatever the local is called)
    unlink = lambda e: e.get("k") == "write" and P(e["lhs"]) == CB + "->prev_" and T(strip(e["rhs"])) == "nullptr"
    if precedes_on_all_paths(rs, unlink, (eb, ei), reset_pred=lambda e: e.get("k") == "decl" and e.get("var") == CB):
        rep.ok("C14.R4", rs, "the callback is marked unlinked (prev_ = nullptr) before it runs")
    else:
        rep.bad("C14.R4", rs, loc_of(eev), "execute-linked", "callback executed without being marked removed from the list first")
    deq = lambda e: e.get("k") == "write" and P(e["lhs"]) == "this->callbacks_"
    if precedes_on_all_paths(rs, deq, (eb, ei), reset_pred=lambda e: e.get("k") == "decl" and e.get("var") == CB):
        rep.ok("C14.R4", rs, "the list head is advanced before the callback runs (each callback dequeued once)")
    else:
        rep.bad("C14.R4", rs, loc_of(eev), "no-dequeue", "callbacks_ is not advanced before execute(): the same callback runs again")
    fin = [(b, i, ev) for b, i, ev in rs.all_events() if ev.get("k") == "call" and callee_short(ev) == "store" and
           P(ev.get("recv")).endswith("callback_finished_executing_")]
    if len(fin) != 1:
        rep.bad("C14.R4", rs, rs.loc, "finished-flag", "request_stop must publish callback_finished_executing_ exactly once per callback (found %d stores)" % len(fin))
    else:
        b, i, ev = fin[0]
        mo = (ev.get("mo") or ["memory_order_seq_cst"])[0]
        after = precedes_on_all_paths(rs, lambda e: e.get("k") == "call" and callee_of(e) == EXEC, (b, i),
                                      reset_pred=lambda e: e.get("k") == "decl" and e.get("var") == CB)
        ff = FactFlow(rs)
        extra = ff.before[(b, i)] - (ff.before[(eb, ei)] or frozenset())
        flagvars = set(T(strip(e_["rhs"]))[1:] for _, _, e_ in rs.all_events() if e_.get("k") == "write" and P(e_["lhs"]).endswith("->is_removed_") and
                       T(strip(e_.get("rhs"))).startswith("&"))
        for _ in range(2):      # reference aliases of the flag count as the flag
            flagvars |= set(e_.get("var") for _, _, e_ in rs.all_events() if e_.get("k") == "decl" and str(e_.get("type", "")).rstrip().endswith("&") and
                            e_.get("init") is not None and T(strip(e_["init"])) in flagvars)
        extra = {x for x in extra if not (x[0] in flagvars and x[1] is False)}
        if T(ev["args"][0]) == "true" and mo in ("memory_order_release", "memory_order_seq_cst", "memory_order_acq_rel") and after and not extra:
            rep.ok("C14.R4", rs, "finished flag stored (true, %s) after execute() unless the callback removed itself" % mo)
        else:
            rep.bad("C14.R4", rs, loc_of(ev), "finished-flag", "callback_finished_executing_ must be stored true with >=release after "
                    "execute() whenever the callback object still exists (value %s, order %s, after execute: %s, extra conditions: %s)"
                    % (T(ev["args"][0]), mo, after, sorted(extra)))
    # the 'removed itself' flag that suppresses the publication belongs to one callback: it is (re)initialised to false
    # between two execute() calls, before its address is handed to the callback
    hand = [(b, i, ev) for b, i, ev in rs.all_events() if ev.get("k") == "write" and P(ev["lhs"]).endswith("->is_removed_") and
            T(strip(ev.get("rhs"))).startswith("&")]
    if not hand:
        raise AnalysisBroken("request_stop: hand-over of the is_removed flag not found")
    for b, i, ev in hand:
        var = T(strip(ev["rhs"]))[1:]
        isfalse = lambda x: re.sub(r"^(bool)?[{(]\s*|\s*[})]$", "", T(strip(x))) in ("false", "0", "")
        fresh = lambda e, var=var: (e.get("k") == "decl" and e.get("var") == var and not e.get("static") and e.get("init") is not None and isfalse(e["init"])) or \
            (e.get("k") == "write" and P(e["lhs"]) == var and e.get("op", "=") == "=" and isfalse(e.get("rhs")))
        if precedes_on_all_paths(rs, fresh, (b, i), reset_pred=lambda e: e.get("k") == "call" and callee_of(e) == EXEC):
            rep.ok("C14.R4", rs, "the per-callback flag '%s' is reset to false before every execute()" % var)
        else:
            rep.bad("C14.R4", rs, loc_of(ev), "removed-flag-stale", "the flag '%s' handed to the callback is not reset to false between two execute() calls: after one "
                    "callback removed itself, the finished flag of every later callback is never published and its destructor on "
                    "another thread waits forever" % var)
    # lock_if_not_stopped: immediate execution only when stop was seen; followed by finished flag + return false
    li = get(SS + "::lock_if_not_stopped")
    ff = FactFlow(li)
    lis = [(b, i, ev) for f, b, i, ev in sites if f is li]
    if not lis:
        raise AnalysisBroken("lock_if_not_stopped: no immediate execute() found")
    for b, i, ev in lis:
        fb = ff.before.get((b, i)) or frozenset()
        seen = any(t and a.startswith("stop_requested(") for a, t in fb)
        miss = always_followed_by(li, (b, i), lambda e: e.get("k") == "call" and callee_short(e) == "store" and
                                  P(e.get("recv")).endswith("callback_finished_executing_"))
        # the next return on every path after the execute() is 'return false'
        def next_returns(b0, i0):
            outs, seen_b, work = [], set(), [(b0, i0 + 1)]
            while work:
                bb, ii = work.pop()
                evs_ = li.blocks[bb].events[ii:]
                r_ = [e for e in evs_ if e.get("k") == "return"]
                if r_:
                    outs.append(T(strip(r_[0].get("e"))))
                    continue
                if bb == li.exit:
                    outs.append("<fall-off>")
                    continue
                for _, t_ in li.succs(bb):
                    if t_ not in seen_b:
                        seen_b.add(t_)
                        work.append((t_, 0))
            return outs
        nr = next_returns(b, i)
        ret_false = bool(nr) and all(x == "false" for x in nr)
        if seen and not miss and ret_false:
            rep.ok("C14.R4", li, "immediate execute() at %s only when stop was already requested; publishes finished and returns false" % loc_of(ev))
        else:
            rep.bad("C14.R4", li, loc_of(ev), "immediate-execute", "immediate callback execution must be guarded by stop_requested, "
                    "followed by the finished flag and 'return false' (guarded: %s, flag: %s, return false: %s)" % (seen, not miss, ret_false))
    # remove_callback waits unless on the signalling thread
    rc = get(SS + "::remove_callback")
    ff = FactFlow(rc)
    yw = [(b, i, ev) for b, i, ev in rc.all_events() if ev.get("k") == "call" and callee_short(ev) == "yield_while"]
    okw = False
    for b, i, ev in yw:
        lam = [a for a in ev.get("args", []) if isinstance(a, dict) and a.get("k") == "lambda"]
        body = F.by_id.get(lam[0]["id"]) if lam else None
        reads_flag = body is not None and any(e.get("k") == "call" and callee_short(e) == "load" and
                                              P(e.get("recv")).endswith("callback_finished_executing_") for _, _, e in body.all_events())
        fb = ff.before.get((b, i)) or frozenset()
        not_sig = any((not t) and "signalling_thread_" in a for a, t in fb)
        okw = okw or (reads_flag and not_sig)
    # every path on which remove_this_callback() failed and we are not the signalling thread passes the wait
    if okw:
        rep.ok("C14.R4", rc, "remove_callback waits for callback_finished_executing_ when the callback runs on another thread")
    else:
        rep.bad("C14.R4", rc, rc.loc, "no-wait", "remove_callback does not wait for a callback that is executing on another thread: the "
                "stop_callback destructor can return while its callback is still running")
    rm = [(b, i, ev) for b, i, ev in rc.all_events() if ev.get("k") == "call" and callee_short(ev) == "remove_this_callback"]
    # the unlink attempt is unconditional: request_stop runs the callbacks one at a time with the lock released, so a callback can still be
    # linked although stop has been requested (an earlier callback is running); skipping the attempt lets the stopper invoke a destroyed callback
    from engine.kinds import bypass_path as _bp4
    byp = _bp4(rc, lambda e: e.get("k") == "call" and callee_short(e) == "remove_this_callback")
    if rm and byp is None:
        rep.ok("C14.R4", rc, "remove_callback tries to unlink the callback on every path (whatever the stop state)")
    else:
        rep.bad("C14.R4", rc, rc.loc, "unlink-skipped", "remove_callback can finish without having tried to unlink the callback (path over blocks %s): a callback that is still queued "
                "while an earlier one is executing - stop already requested - stays linked, and request_stop invokes it after its destructor has returned" % (byp,))
    if len(rm) == 1:
        b, i, ev = rm[0]
        blk = rc.blocks[b]
        a, pos = cond_atoms(blk.cond) if blk.cond is not None else ("", True)
        if "remove_this_callback" in a:
            tgt = [t for l, t, _ in blk.succ if l == ("true" if pos else "false")][0]
            from engine.kinds import first_outcome
            if first_outcome(rc, tgt)[0] == "return":
                rep.ok("C14.R4", rc, "a callback that was still linked is simply unlinked (no wait)")
            else:
                rep.bad("C14.R4", rc, loc_of(ev), "unlink-then-wait", "after unlinking a not-yet-run callback the destructor must return at once")

    # ---- R12: the signalling-thread test tells plain OS threads apart
    from engine.kinds import expand_locals as _xl12
    tests12 = [(blk, T(_xl12(rc, blk.cond))) for blk in rc.blocks.values() if blk.cond is not None and "signalling_thread_" in T(_xl12(rc, blk.cond))]
    if not tests12:
        raise AnalysisBroken("remove_callback: the test of signalling_thread_ was not found")
    os_id = lambda f_: [e for _, _, e in f_.all_events() if e.get("k") == "call" and callee_of(e) in ("std::this_thread::get_id", "pthread_self")]
    if os_id(rc) and any("get_id()" in txt or "pthread_self()" in txt for _, txt in tests12):
        rep.ok("C14.R12", rc, "remove_callback compares an OS-level thread identity as well as the pika thread id")
    else:
        rep.bad("C14.R12", rc, loc_of(tests12[0][0].events[-1]) if tests12[0][0].events else rc.loc, "os-threads-indistinguishable", "remove_callback decides 'the callback runs on this thread' by "
                "'%s' alone: get_self_id() is the invalid id on every thread that is not a pika thread, so for two plain OS threads the test is true - ~stop_callback returns while the "
                "callback is still executing on the other thread (and sets *is_removed_ in that thread's frame)" % tests12[0][1][:100])
    # ... and the test is the right function of its three comparisons (evaluated over all 8 valuations): same pika id, and - only when the caller
    # is not a pika thread - the same OS thread.  The OS thread alone does not identify a pika task (another task can run on the worker the
    # stopper entered request_stop on while the callback is suspended)
    from engine.kinds import eval_tree as _ev12, Unknown as _Un12
    from engine.core import subexprs as _sx12
    for blk12, _txt in tests12[:1]:
        tree12 = _xl12(rc, blk12.cond)
        cmps = {}
        for x in _sx12(tree12, lambda y: isinstance(y, dict) and ((y.get("k") == "call" and y.get("op") in ("==", "!=")) or (y.get("k") == "bin" and y.get("op") in ("==", "!=")))):
            tx = T(x)
            role = "A" if "signalling_thread_" in tx else ("C" if ("signalling_os_thread_" in tx or "get_id()" in tx) else ("B" if "invalid_thread_id" in tx else None))
            if role:
                cmps[role] = (tx, (x.get("op") == "!="))
        if set(cmps) != {"A", "B", "C"}:
            raise AnalysisBroken("remove_callback: the three comparisons of the signalling-thread test were not recognised (%s)" % sorted(cmps))
        wrong = []
        for A in (False, True):
            for B in (False, True):
                for C in (False, True):
                    # A: same pika id; B: the caller is a pika thread; C: same OS thread.  The texts may be written with == or !=
                    env = {cmps["A"][0]: (A != cmps["A"][1]), cmps["B"][0]: (B if cmps["B"][1] else not B), cmps["C"][0]: (C != cmps["C"][1])}
                    try:
                        got = bool(_ev12(tree12, env))
                    except _Un12 as ex:
                        raise AnalysisBroken("remove_callback: the signalling-thread test is not evaluable (%s)" % ex)
                    a, pos = cond_atoms(blk12.cond)
                    want = A and (B or C)
                    if got != want:
                        wrong.append("same pika id=%d, caller is a pika thread=%d, same OS thread=%d -> %d (expected %d)" % (A, B, C, got, want))
        if wrong:
            rep.bad("C14.R12", rc, loc_of(blk12.events[-1]) if blk12.events else rc.loc, "signalling-thread-test", "remove_callback's 'the callback runs on this thread' test is not "
                    "'same pika thread id, and for callers that are not pika threads the same OS thread': %s. A destroyer that merely runs on the OS worker the stopper used (while the "
                    "callback is suspended) skips the wait and ~stop_callback returns while the callback is still executing" % "; ".join(wrong[:3]))
        else:
            rep.ok("C14.R12", rc, "the signalling-thread test equals 'same pika id && (pika thread || same OS thread)' on all 8 valuations")
    rq12 = get(SS + "::request_stop")
    if os_id(rq12) and any((e.get("k") == "write" and "get_id()" in T(e.get("rhs"))) or (e.get("k") == "call" and e.get("op") == "=" and "get_id()" in T(e) and P(e.get("recv") or {}).startswith("this->"))
                           for _, _, e in rq12.all_events()):
        rep.ok("C14.R12", rq12, "request_stop records the OS thread it runs the callbacks on")
    else:
        rep.bad("C14.R12", rq12, rq12.loc, "os-thread-not-recorded", "request_stop does not record the OS thread that executes the callbacks")

    # ---- R9: loops poll fresh words, results agree with what was done
    r9_rules(rep, F, get)
    r9b_rules(rep, F, get)
    r9c_rules(rep)

    # ---- R10: the callback list stays a consistent doubly-linked list
    r10_rules(rep, F, get)
    word_predicates(rep, F, c)

    # ---- R5 special members of stop_source
    srec = F.record("pika::stop_source")
    if not srec:
        raise AnalysisBroken("record pika::stop_source not found")
    sp = srec[0]["special"]
    fns = F.find(r"^pika::stop_source::")

    def body(pred):
        out = [f for f in fns if pred(f)]
        return out

    def counts(fn):
        add = [(b, i, ev) for b, i, ev in fn.all_events() if ev.get("k") == "call" and callee_short(ev) == "add_source_count"]
        rem = [(b, i, ev) for b, i, ev in fn.all_events() if ev.get("k") == "call" and callee_short(ev) == "remove_source_count"]
        return add, rem
    # destructor
    d = body(lambda f: f.kind == "dtor")
    if sp.get("dtor") != "user" or not d:
        rep.bad("C14.R5", "pika::stop_source", srec[0]["loc"], "dtor", "stop_source needs a user-provided destructor that drops its source count")
    else:
        add, rem = counts(d[0])
        if len(rem) == 1 and not add:
            rep.ok("C14.R5", d[0], "destructor removes one source count")
        else:
            rep.bad("C14.R5", d[0], d[0].loc, "dtor", "destructor must remove exactly one source count (found +%d/-%d): stop_possible() stays true for ever" % (len(add), len(rem)))
    # constructors
    ctors = body(lambda f: f.kind == "ctor")
    for cfn in ctors:
        ptypes = [p["type"] for p in cfn.params]
        add, rem = counts(cfn)
        if not ptypes:
            good = len(add) == 1 and not rem
            rep.ok("C14.R5", cfn, "default constructor adds one source count") if good else \
                rep.bad("C14.R5", cfn, cfn.loc, "default-ctor", "default constructor must add exactly one source count")
        elif len(ptypes) == 1 and "stop_source" in ptypes[0] and "&&" not in ptypes[0]:
            good = len(add) == 1 and not rem
            rep.ok("C14.R5", cfn, "copy constructor adds one source count on the shared state") if good else \
                rep.bad("C14.R5", cfn, cfn.loc, "copy-ctor", "copy constructor must add exactly one source count")
    if sp.get("copy_ctor") != "user":
        rep.bad("C14.R5", "pika::stop_source", srec[0]["loc"], "copy-ctor-kind", "copy constructor is %s: a copy would not be counted as a source" % sp.get("copy_ctor"))
    # assignments
    ops = body(lambda f: f.qname.endswith("::operator="))
    kinds = {"copy_assign": None, "move_assign": None}
    for f in ops:
        pt = f.params[0]["type"] if f.params else ""
        kinds["move_assign" if "&&" in pt else "copy_assign"] = f
    for which in ("copy_assign", "move_assign"):
        f = kinds[which]
        if sp.get(which) in ("deleted",):
            rep.ok("C14.R5", "pika::stop_source", "%s is deleted" % which)
            continue
        if f is None or sp.get(which) != "user":
            rep.bad("C14.R5", "pika::stop_source::operator=", srec[0]["loc"], which,
                    "%s assignment is %s: it replaces state_ without removing the old state's source count, so after "
                    "'a = %s' the state a referred to keeps a phantom source and stop_possible() on its tokens stays true for ever"
                    % (which.split("_")[0], sp.get(which), "std::move(b)" if which == "move_assign" else "b"))
            continue
        add, rem = counts(f)
        swap_idiom = any(ev.get("k") == "ctor" and ev.get("rec") == "pika::stop_source" for _, _, ev in f.all_events()) and \
            any(ev.get("k") == "call" and callee_short(ev) == "swap" for _, _, ev in f.all_events())
        wr = [(b, i) for b, i, ev in f.all_events() if ev.get("k") == "call" and ev.get("op") == "=" and P(ev.get("recv")) == "this->state_"]
        released = bool(rem) and all(precedes_on_all_paths(f, lambda e: e.get("k") == "call" and callee_short(e) == "remove_source_count", w) for w in wr)
        if swap_idiom or released:
            if which == "copy_assign" and not swap_idiom and len(add) != 1:
                rep.bad("C14.R5", f, f.loc, which + ":add", "copy assignment must count the new state exactly once")
            else:
                rep.ok("C14.R5", f, "%s releases the old state's source count (%s)" % (which, "copy-and-swap" if swap_idiom else "explicit remove before overwrite"))
        else:
            rep.bad("C14.R5", f, f.loc, which,
                    "%s overwrites state_ without first removing the old state's source count (+%d/-%d): the old state keeps a "
                    "phantom source, stop_possible() on its tokens never becomes false" % (which, len(add), len(rem)))
    # token count balance
    ar = F.find(r"^pika::detail::intrusive_ptr_add_ref$")
    rl = F.find(r"^pika::detail::intrusive_ptr_release$")
    if not ar or not rl:
        raise AnalysisBroken("intrusive_ptr_add_ref/release for stop_state not found")
    a_ok = any(e.get("k") == "call" and callee_short(e) == "fetch_add" and "token_ref_increment" in T(e["args"][0]) for _, _, e in ar[0].all_events())
    r_evs = [e for _, _, e in rl[0].all_events() if e.get("k") == "call" and callee_short(e) == "fetch_sub" and "token_ref_increment" in T(e["args"][0])]
    dels = [(b, i, e) for b, i, e in rl[0].all_events() if e.get("k") == "delete"]
    ffr = FactFlow(rl[0])
    del_ok = len(dels) == 1 and any(t and "token_ref_mask" in a and "token_ref_increment" in a for a, t in (ffr.before.get((dels[0][0], dels[0][1])) or []))
    r_mo = r_evs and (r_evs[0].get("mo") or [""])[0] in ("memory_order_acq_rel", "memory_order_seq_cst")
    if a_ok and r_evs and del_ok and r_mo:
        rep.ok("C14.R5", rl[0], "token count: +1/-1 by token_ref_increment, state deleted only when the last reference drops (acq_rel)")
    else:
        rep.bad("C14.R5", rl[0], rl[0].loc, "token-count", "token reference counting is unbalanced or the state is deleted on a wrong condition")

    n, failed = witness(rep, "C14.R6", driver("../witness/C14.cpp"))
    for _ in range(n - failed):
        rep.ok("C14.R6", "witness:C14.cpp", "static_assert holds")

    # ---- R7: every writer of the packed state word, anywhere in the library
    from .common import who_references
    WF, cpps, hdrs = who_references(rep, r"^pika::detail::stop_state::state_$", "state_", subdir="libs/pika/synchronization")
    RMW = ("compare_exchange_weak", "compare_exchange_strong", "fetch_add", "fetch_sub", "fetch_or", "fetch_and", "fetch_xor")
    PLAIN = ("store", "exchange", "operator=", "operator|=", "operator&=", "operator+=", "operator-=", "operator++", "operator--")
    seen = set()
    nmod = 0
    for W in WF:
        for f in W.fns:
            if (f.qname, f.loc) in seen:
                continue
            seen.add((f.qname, f.loc))
            for b, i, ev in f.all_events():
                recv = ev.get("recv") if ev.get("k") == "call" else None
                is_word = False
                if recv is not None:
                    r_ = strip(recv)
                    is_word = isinstance(r_, dict) and r_.get("k") == "mem" and r_.get("name") == "state_" and str(r_.get("rec", "")) == "pika::detail::stop_state"
                if ev.get("k") == "write":
                    l_ = strip(ev["lhs"])
                    if isinstance(l_, dict) and l_.get("k") == "mem" and l_.get("name") == "state_" and str(l_.get("rec", "")) == "pika::detail::stop_state":
                        nmod += 1
                        rep.bad("C14.R7", f, loc_of(ev), "plain-write:" + f.qname.rsplit("::", 1)[-1], "%s assigns the packed stop-state word directly: concurrent reference-count / flag updates of other threads are lost" % f.qname)
                    continue
                if not is_word:
                    continue
                cs = callee_short(ev)
                if cs in RMW:
                    nmod += 1
                    mo = (ev.get("mo") or [""])[0]
                    if cs == "fetch_sub" and "locked_flag" in T(ev["args"][0]) and mo not in ("memory_order_release", "memory_order_acq_rel", "memory_order_seq_cst"):
                        rep.bad("C14.R7", f, loc_of(ev), "unlock-order", "the lock bit is released with %s: writes made under the lock (callback list) are not published to the next owner" % mo)
                    else:
                        rep.ok("C14.R7", f, "%s modifies state_ by %s (%s)" % (f.qname.rsplit("::", 1)[-1], cs, mo))
                elif cs in PLAIN and f.kind != "ctor":
                    nmod += 1
                    rep.bad("C14.R7", f, loc_of(ev), "plain-write:" + f.qname.rsplit("::", 1)[-1], "%s modifies the packed stop-state word with %s (not a read-modify-write): a concurrent "
                            "reference-count change, stop request or lock acquisition of another thread is overwritten" % (f.qname, cs))
    if nmod < 8:
        raise AnalysisBroken("C14.R7: only %d modifications of stop_state::state_ found (files spelling it: %d)" % (nmod, len(cpps) + len(hdrs)))


def r9_rules(rep, F, get):
    from engine.kinds import sccs, guarded_returns, precedes_on_all_paths as ppa
    from engine.core import subexprs
    SSq = "pika::detail::stop_state"

    def state_words(fn):
        """locals holding a copy of the packed word: arguments of stop_requested/is_locked/stop_possible"""
        vs = set()
        for _, _, e in fn.all_events():
            if e.get("k") == "call" and callee_short(e) in ("stop_requested", "is_locked", "stop_possible") and e.get("args"):
                a0 = strip(e["args"][0])
                if a0.get("k") == "var":
                    vs.add(a0.get("name"))
        return vs

    for name in ("lock", "lock_and_request_stop", "lock_if_not_stopped"):
        fn = get(SSq + "::" + name)
        words = state_words(fn)
        cas = [(b, i, e) for b, i, e in fn.all_events() if e.get("k") == "call" and callee_short(e).startswith("compare_exchange") and P(e.get("recv")) == "this->state_"]
        if not cas:
            raise AnalysisBroken("%s: compare-exchange on state_ not found" % fn.qname)
        exp_vars = set(strip(e["args"][0]).get("name") for _, _, e in cas if strip(e["args"][0]).get("k") == "var")
        from engine.kinds import expand_locals as _xl9
        des9 = {id(e): word_vars(fn, e["args"][1]) for _, _, e in cas}
        params9 = set(p_["name"] for p_ in fn.params)
        for _, _, e in cas:
            for nm in des9[id(e)]:
                if nm not in exp_vars and nm not in params9 and re.match(r"^\w+$", str(nm)):
                    words.add(nm)
        words -= exp_vars
        if not words:
            # the function keeps a single local (the exchange's 'expected' operand): a failed exchange refreshes it by itself
            words = set(exp_vars)
        if not words:
            raise AnalysisBroken("%s: local copy of the state word not identified" % fn.qname)

        def fresh_write(e, w):
            if not (e.get("k") == "write" and P(e["lhs"]) == w and e.get("op") == "="):
                return False
            r = strip(e["rhs"])
            if r.get("k") == "var" and r.get("name") in exp_vars:
                return True
            return any(callee_short(c) == "load" and P(c.get("recv")) == "this->state_" for c in subexprs(e["rhs"], lambda y: isinstance(y, dict) and y.get("k") == "call"))
        for comp in sccs(fn):
            if len(comp) == 1 and not any(t in comp for _, t in fn.succs(next(iter(comp)))):
                continue
            for w in sorted(words):
                readers = [b for b in comp if fn.blocks[b].cond is not None and re.search(r"(^|[^\w.>])%s($|[^\w])" % re.escape(w), cond_atoms(fn.blocks[b].cond)[0])]
                # the compare-exchange itself reads the word too (its desired value)
                readers += [b for b, i, e in cas if b in comp and w in des9[id(e)]]
                if not readers:
                    continue
                fresh_blocks = set(b for b in comp if any(fresh_write(e, w) for e in fn.blocks[b].events))
                if w in exp_vars:
                    fresh_blocks |= set(b for b, i, e in cas if b in comp and strip(e["args"][0]).get("name") == w)
                rest = set(comp) - fresh_blocks
                stale = None
                for r0 in sorted(set(readers)):
                    if r0 not in rest:
                        continue      # refreshed in the reader's own block (before or after the test: either way once per turn)
                    # a cycle through r0 inside rest?
                    seen, stack = set(), [t for _, t in fn.succs(r0) if t in rest]
                    while stack:
                        v = stack.pop()
                        if v == r0:
                            stale = r0
                            break
                        if v in seen:
                            continue
                        seen.add(v)
                        stack += [t for _, t in fn.succs(v) if t in rest]
                    if stale is not None:
                        break
                if stale is None:
                    rep.ok("C14.R9", fn, "every turn of the loop over blocks %s refreshes '%s' (failed exchange's observation or a new load)" % (sorted(comp)[:6], w))
                else:
                    blk = fn.blocks[stale]
                    rep.bad("C14.R9", fn, blk.events[-1].get("loc", fn.loc) if blk.events else fn.loc, "stale-word:%s:%s" % (name, w),
                            "%s can go round its retry/spin loop testing '%s' without refreshing it from state_ (neither the word the failed compare-exchange "
                            "observed nor a new load): once another thread changes the word the loop never terminates or acts on an outdated stop/lock bit" % (fn.qname, w))
    # results of the two locking functions
    for name in ("lock_and_request_stop", "lock_if_not_stopped"):
        fn = get(SSq + "::" + name)
        ff = FactFlow(fn)
        n = 0
        for leaf, fb, ev in guarded_returns(fn, ff):
            v = strip(leaf)
            if v.get("k") != "lit":
                continue
            won = any(t and ".compare_exchange" in a and a.startswith("this->state_") for a, t in fb)
            n += 1
            if v.get("v") is False and won:
                rep.bad("C14.R9", fn, loc_of(ev), "false-after-cas:" + name, "%s returns false after its compare-exchange succeeded: the lock bit%s is set but the caller's "
                        "guard only unlocks on true - every later operation on the stop state spins for ever%s" %
                        (fn.qname, " and the stop bit" if name == "lock_and_request_stop" else "", "; no request_stop() ever returns true" if name == "lock_and_request_stop" else ""))
            elif v.get("v") is True and not won:
                rep.bad("C14.R9", fn, loc_of(ev), "true-without-cas:" + name, "%s returns true without a successful compare-exchange" % fn.qname)
            else:
                rep.ok("C14.R9", fn, "return %s at %s agrees with the outcome of the compare-exchange" % (v.get("v"), loc_of(ev)))
        if n < 2:
            raise AnalysisBroken("%s: literal returns not found" % fn.qname)
    # lock_if_not_stopped: stop seen => callback run, finished published (true, release), false returned
    li = get(SSq + "::lock_if_not_stopped")
    ff = FactFlow(li)
    is_exec = lambda e: e.get("k") == "call" and callee_short(e) == "execute"
    is_fin = lambda e: e.get("k") == "call" and callee_short(e) == "store" and P(e.get("recv")).endswith("callback_finished_executing_")
    nn = 0
    for b, i, ev in li.all_events():
        if ev.get("k") != "return":
            continue
        fb = ff.before.get((b, i))
        if fb is None:
            continue
        if any(t and a.startswith("stop_requested(") for a, t in fb):
            nn += 1
            ex_ok = ppa(li, is_exec, (b, i))
            fins = [e for _, _, e in li.all_events() if is_fin(e)]
            fin_ok = ppa(li, is_fin, (b, i)) and all(T(strip(e["args"][0])) == "true" for e in fins)
            if ex_ok and fin_ok:
                rep.ok("C14.R9", li, "stop already requested at %s: the callback was run and finished=true published before returning" % loc_of(ev))
            else:
                rep.bad("C14.R9", li, loc_of(ev), "stopped-without-run", "lock_if_not_stopped returns at %s with stop already requested, but %s: a stop_callback registered after "
                        "request_stop() never runs / its destructor waits for a finished flag that is never true" %
                        (loc_of(ev), "the callback was not executed on every path" if not ex_ok else "callback_finished_executing_ is not set to true on every path"))
    if nn < 1:
        raise AnalysisBroken("lock_if_not_stopped: no return under stop_requested found")
    # add_callback: linked <=> true
    ac = get(SSq + "::add_callback")
    is_link = lambda e: e.get("k") == "call" and callee_short(e) == "add_this_callback"
    link = [(b, i) for b, i, e in ac.all_events() if is_link(e)]
    may, _, _ = forward(ac, frozenset(), lambda st, ev, pos: st | {"l"} if pos in link else st, None, lambda a, b: a | b)
    must, _, _ = forward(ac, frozenset(), lambda st, ev, pos: st | {"l"} if pos in link else st, None, lambda a, b: a & b)
    ffa = FactFlow(ac)
    for b, i, ev in ac.all_events():
        if ev.get("k") != "return" or (b, i) not in may:
            continue
        v = strip(ev.get("e"))
        if v.get("k") != "lit":
            raise AnalysisBroken("stop_state::add_callback returns a non-literal")
        if v.get("v") is True and "l" not in must[(b, i)]:
            rep.bad("C14.R9", ac, loc_of(ev), "true-without-link", "add_callback reports the callback as registered on a path that did not link it into callbacks_ "
                    "(it will never be run by request_stop, and its destructor unlinks a node that is in no list)")
        elif v.get("v") is False and "l" in may[(b, i)]:
            rep.bad("C14.R9", ac, loc_of(ev), "false-after-link", "add_callback links the callback and then reports failure: the owner does not deregister it, request_stop "
                    "later runs a destroyed callback")
        else:
            rep.ok("C14.R9", ac, "return %s at %s agrees with the linking of the callback" % (v.get("v"), loc_of(ev)))
    for b, i in link:
        fb = ffa.before.get((b, i)) or frozenset()
        if not any(t and (re.match(r"^\w+(\.operator bool\(\))?$", a) or "lock_if_not_stopped(" in a) for a, t in fb):
            rep.bad("C14.R9", ac, loc_of(ac.blocks[b].events[i]), "link-without-lock", "callbacks_ is modified although lock_if_not_stopped did not report the lock as taken")
    # remove_callback: the write through is_removed_
    rc = get(SSq + "::remove_callback")
    ffr = FactFlow(rc)
    ws = [(b, i, e) for b, i, e in rc.all_events() if e.get("k") == "write" and "is_removed_" in P(e["lhs"]) and P(e["lhs"]).startswith("*")]
    if not ws:
        rep.bad("C14.R9", rc, rc.loc, "self-removal-not-flagged", "remove_callback no longer tells request_stop (through *is_removed_) that a callback deregistered itself "
                "from inside its own invocation: request_stop touches the destroyed callback afterwards")
    for b, i, e in ws:
        fb = ffr.before.get((b, i)) or frozenset()
        nonnull = any("is_removed_" in a and "nullptr" in a and ((("==" in a) and t is False) or (("!=" in a) and t is True)) for a, t in fb)
        val = T(strip(e["rhs"])) == "true"
        if nonnull and val:
            rep.ok("C14.R9", rc, "*is_removed_ = true only after is_removed_ != nullptr was seen")
        else:
            rep.bad("C14.R9", rc, loc_of(e), "removed-flag-write", "remove_callback writes %s through is_removed_ %s" % (T(strip(e["rhs"])), "without having seen it non-null "
                    "(null dereference when the callback is not executing / flag not set when it is)" if not nonnull else "(must be true)"))


def r9b_rules(rep, F, get):
    """C14.R9, continued: request_stop / remove_this_callback results, the signalling thread, the callback loop"""
    from engine.kinds import guarded_returns, precedes_on_all_paths as ppa, loop_of
    rs = get("pika::detail::stop_state::request_stop")
    ff = FactFlow(rs)
    n = 0
    for leaf, fb, ev in guarded_returns(rs, ff):
        v = strip(leaf)
        if v.get("k") != "lit":
            raise AnalysisBroken("stop_state::request_stop returns a non-literal")
        won = [t for a, t in fb if re.match(r"^\w+(\.operator bool\(\))?$", a)]
        n += 1
        if won and v.get("v") == won[0]:
            rep.ok("C14.R9", rs, "request_stop returns %s exactly when lock_and_request_stop %s" % (v.get("v"), "won" if won[0] else "found stop already requested"))
        else:
            rep.bad("C14.R9", rs, loc_of(ev), "request-stop-result", "request_stop returns %s on a path where its lock_and_request_stop guard reported %s: "
                    "of any number of concurrent request_stop calls exactly one must return true" % (v.get("v"), won[0] if won else "nothing"))
    if n < 2:
        raise AnalysisBroken("request_stop: literal returns not found")
    exs = [(b, i, e) for b, i, e in rs.all_events() if e.get("k") == "call" and callee_short(e) == "execute"]
    if not exs:
        return          # reported by R4
    sig = lambda e: (e.get("k") == "call" and e.get("op") == "=" and P(e.get("recv")) == "this->signalling_thread_" and "get_self_id" in T(e["args"][0])) or \
        (e.get("k") == "write" and P(e["lhs"]) == "this->signalling_thread_" and "get_self_id" in T(e.get("rhs")))
    if all(ppa(rs, sig, (b, i)) for b, i, e in exs):
        rep.ok("C14.R9", rs, "the signalling thread is recorded before the first callback runs")
    else:
        rep.bad("C14.R9", rs, loc_of(exs[0][2]), "signalling-thread-not-recorded", "request_stop runs callbacks without having stored signalling_thread_ = get_self_id(): a stop_callback "
                "destroyed from inside its own callback is not recognised as running on this thread - its destructor waits for the callback it is called from (deadlock)")
    lp = loop_of(rs, exs[0][0])
    hdr = [blk for blk in rs.blocks.values() if lp and blk.id in lp and blk.cond is not None and any(t not in lp for _, t, _ in blk.succ)]
    okl = False
    for blk in hdr:
        a, pos = cond_atoms(blk.cond)
        if a in ("nullptr == this->callbacks_", "this->callbacks_ == nullptr"):
            out = [l for l, t, _ in blk.succ if t not in lp]
            okl = out == ["true" if pos else "false"] or okl
    if lp and okl:
        rep.ok("C14.R9", rs, "callbacks are run in a loop that ends only when callbacks_ is empty")
    else:
        rep.bad("C14.R9", rs, loc_of(exs[0][2]), "callback-loop", "request_stop does not run the callbacks in a loop that continues until callbacks_ == nullptr: callbacks registered "
                "on the state are never run although stop was requested")
    rst = [(b, i, e) for b, i, e in rs.all_events() if e.get("k") == "write" and P(e["lhs"]).endswith("->is_removed_") and T(strip(e["rhs"])) == "nullptr"]
    fin = [(b, i, e) for b, i, e in rs.all_events() if e.get("k") == "call" and callee_short(e) == "store" and P(e.get("recv")).endswith("callback_finished_executing_")]
    if rst and fin and all(ppa(rs, lambda e: e is rst[0][2], (b, i), reset_pred=lambda e: e.get("k") == "call" and callee_short(e) == "execute") for b, i, e in fin):
        rep.ok("C14.R9", rs, "is_removed_ is detached from the stopper's stack flag before the callback is declared finished")
    else:
        rep.bad("C14.R9", rs, loc_of(fin[0][2]) if fin else rs.loc, "removed-flag-dangles", "request_stop declares a callback finished while its is_removed_ still points at the stopper's "
                "local flag: a later destruction of that callback on the signalling thread writes through a dangling pointer")
    # remove_this_callback: true <=> unlinked, unlink only while linked
    rt = get("pika::detail::stop_callback_base::remove_this_callback")
    ffr = FactFlow(rt)
    ul = [(b, i) for b, i, e in rt.all_events() if e.get("k") == "write" and P(e["lhs"]) == "*this->prev_"]
    may, _, _ = forward(rt, frozenset(), lambda st, ev, pos: st | {"u"} if pos in ul else st, None, lambda a, b: a | b)
    must, _, _ = forward(rt, frozenset(), lambda st, ev, pos: st | {"u"} if pos in ul else st, None, lambda a, b: a & b)
    for b, i in ul:
        fb = ffr.before.get((b, i)) or frozenset()
        if ("nullptr == this->prev_", False) in fb or ("this->prev_ == nullptr", False) in fb or ("this->prev_ != nullptr", True) in fb:
            rep.ok("C14.R9", rt, "the node is unlinked only while it is linked (prev_ != nullptr)")
        else:
            rep.bad("C14.R9", rt, loc_of(rt.blocks[b].events[i]), "unlink-unlinked", "remove_this_callback writes through prev_ without having seen it non-null (a callback that "
                    "already ran / is running has prev_ == nullptr)")
    for b, i, e in rt.all_events():
        if e.get("k") != "return" or (b, i) not in may:
            continue
        v = strip(e.get("e"))
        if v.get("k") != "lit":
            raise AnalysisBroken("remove_this_callback returns a non-literal")
        if v.get("v") is True and "u" not in must[(b, i)]:
            rep.bad("C14.R9", rt, loc_of(e), "removed-without-unlink", "remove_this_callback reports the callback as removed on a path that did not unlink it: the destructor returns "
                    "while request_stop can still run (or is running) the callback")
        elif v.get("v") is False and "u" in may[(b, i)]:
            rep.bad("C14.R9", rt, loc_of(e), "unlinked-but-false", "remove_this_callback unlinks the callback and reports 'not removed': the destructor then waits for the callback "
                    "to finish executing - it never runs, the destructor never returns")
        else:
            rep.ok("C14.R9", rt, "return %s agrees with the unlinking" % v.get("v"))


def r9c_rules(rep):
    """C14.R9, continued: the stop_callback object itself.  add_callback refuses (returns false) when stop was already requested (the callback has then
    run inline and is marked finished) and when no stop can ever be requested (no source left: nothing ran, nothing is marked).  The destructor's
    remove_callback waits for 'finished' unless it runs on the signalling thread - so it may only be called for a callback that was registered."""
    from .common import driver as _drv
    D = facts(rep, _drv("c14_stop_token.cpp"), [r"^pika::stop_callback::(stop_callback|~stop_callback)"])
    ctors = [f for f in D.fns if not f.pattern and f.parent == -1 and f.kind == "ctor" and "stop_callback" in f.qname]
    dtors = [f for f in D.fns if not f.pattern and f.parent == -1 and f.kind == "dtor" and "stop_callback" in f.qname]
    if len(ctors) < 2 or not dtors:
        raise AnalysisBroken("stop_callback constructors / destructor not instantiated (%d, %d)" % (len(ctors), len(dtors)))
    for fn in ctors:
        ac = [(b, i, e) for b, i, e in fn.all_events() if e.get("k") == "call" and callee_short(e) == "add_callback"]
        if not ac:
            rep.bad("C14.R9", fn, fn.loc, "callback-not-registered", "the stop_callback constructor does not register the callback with the stop state")
            continue
        ff = FactFlow(fn)
        # on the edge where add_callback failed the state reference is given up (reset / nullptr), or the destructor tests a 'registered' flag
        drops = [(b, i, e) for b, i, e in fn.all_events() if (e.get("k") == "call" and callee_short(e) == "reset" and P(e.get("recv")) == "this->state_") or
                 (e.get("k") == "call" and e.get("op") == "=" and P(e.get("recv")) == "this->state_") or
                 (e.get("k") == "write" and re.match(r"^this->\w*(registered|added)\w*$", P(e["lhs"])))]
        good = False
        for b, i, e in drops:
            fb = ff.before.get((b, i)) or frozenset()
            if any("add_callback(" in a for a, t in fb):
                good = True
        flagged_dtor = any(blk.cond is not None and re.search(r"registered|added", T(blk.cond)) for d_ in dtors for blk in d_.blocks.values())
        if good or flagged_dtor:
            rep.ok("C14.R9", fn, "a refused registration is remembered: the destructor does not wait for a callback that was never registered")
        else:
            rep.bad("C14.R9", fn, loc_of(ac[0][2]), "unregistered-callback-awaited", "the stop_callback constructor ignores the result of add_callback and keeps the state: when the "
                    "registration was refused because no stop_source is left (stop not requested) the callback neither ran nor is it marked finished, and the destructor's "
                    "remove_callback - on any thread but the signalling one - waits for callback_finished_executing_ for ever")


def r10_rules(rep, F, get):
    CBB = "pika::detail::stop_callback_base"

    def backlink(fn, what, fwd, back, null_atoms, barriers=lambda e: False):
        """may-analysis: 'dirty' from a forward-link write `fwd` until the matching back-link write `back` or an edge that
        establishes that the new target is null; reaching a barrier event or the exit while dirty is a violation"""
        ff = FactFlow(fn)
        fpos = [(b, i, e) for b, i, e in fn.all_events() if fwd(e)]
        if not fpos:
            rep.bad("C14.R10", fn, fn.loc, "link-missing:" + what, "%s no longer performs %s: the rest of the callback list is cut off (callbacks registered earlier never run) / "
                    "the node stays reachable after it was removed" % (fn.qname, what))
            return
        fset = set((b, i) for b, i, e in fpos)
        bset = set((b, i) for b, i, e in fn.all_events() if back(e))

        def tr(st, ev, pos):
            if pos in fset:
                return frozenset(["dirty"])
            if pos in bset:
                return frozenset()
            return st

        def ed(st, blk, lab, cond):
            if st and any(t and a in null_atoms for a, t in ff.edge_facts(blk, lab)):
                return frozenset()
            return st
        before, bin_, _ = forward(fn, frozenset(), tr, ed, lambda a, b: a | b)
        probs = []
        for b, i, e in fn.all_events():
            if barriers(e) and "dirty" in (before.get((b, i)) or ()):
                probs.append(loc_of(e))
        if "dirty" in (bin_.get(fn.exit) or ()):
            probs.append("function exit")
        if probs:
            rep.bad("C14.R10", fn, loc_of(fpos[0][2]), "backlink:" + what, "%s: after %s the new target's prev_ is not re-pointed at that link on every path before %s"
                    % (fn.qname, what, probs[0]))
        else:
            rep.ok("C14.R10", fn, "%s: the target's prev_ is re-pointed (or the target is null) before the lock is released / the function returns" % what)

    w = lambda e, lhs, rhs=None: e.get("k") == "write" and e.get("op") == "=" and P(e["lhs"]) == lhs and (rhs is None or T(strip(e["rhs"])) == rhs)
    # add_this_callback(callbacks): next_ = callbacks; next_->prev_ = &next_; prev_ = &callbacks; callbacks = this
    at = get(CBB + "::add_this_callback")
    head = [p_["name"] for p_ in at.params]
    if len(head) != 1:
        raise AnalysisBroken("add_this_callback: expected one parameter (the list head)")
    H = head[0]
    backlink(at, "next_ = <old head>", lambda e: w(e, "this->next_"), lambda e: w(e, "this->next_->prev_", "&this->next_"), {"nullptr == this->next_"})
    linked = [(b, i, e) for b, i, e in at.all_events() if w(e, H, "this")]
    own = [(b, i, e) for b, i, e in at.all_events() if w(e, "this->prev_", "&" + H)]
    if linked and own:
        rep.ok("C14.R10", at, "the new head's prev_ is the address of the list head")
    else:
        rep.bad("C14.R10", at, at.loc, "head-link", "add_this_callback must make the head point at this node and this node's prev_ point at the head (head = this: %s, "
                "prev_ = &head: %s)" % (bool(linked), bool(own)))
    # remove_this_callback: *prev_ = next_; next_->prev_ = prev_
    rt = get(CBB + "::remove_this_callback")
    backlink(rt, "*prev_ = next_", lambda e: w(e, "*this->prev_", "this->next_"), lambda e: w(e, "this->next_->prev_", "this->prev_"), {"nullptr == this->next_"})
    # request_stop: callbacks_ = cb->next_; callbacks_->prev_ = &callbacks_; cb->prev_ = nullptr  - all before unlock_guard / execute
    rs = get("pika::detail::stop_state::request_stop")
    is_bar = lambda e: (e.get("k") == "ctor" and e.get("rec") == "pika::detail::unlock_guard") or (e.get("k") == "call" and callee_short(e) == "execute")
    backlink(rs, "callbacks_ = <next of the dequeued callback>", lambda e: w(e, "this->callbacks_"),
             lambda e: w(e, "this->callbacks_->prev_", "&this->callbacks_"), {"nullptr == this->callbacks_"}, is_bar)
    cbs = [e["var"] for _, _, e in rs.all_events() if e.get("k") == "decl" and e.get("init") is not None and T(strip(e["init"])) == "this->callbacks_"]
    exs = [(b, i, e) for b, i, e in rs.all_events() if e.get("k") == "call" and callee_short(e) == "execute"]
    from engine.kinds import precedes_on_all_paths as ppa
    if cbs and exs and all(ppa(rs, lambda e: w(e, cbs[0] + "->prev_", "nullptr"), (b, i)) for b, i, e in exs):
        rep.ok("C14.R10", rs, "the dequeued callback is marked unlinked (prev_ = nullptr) before it runs")
    else:
        rep.bad("C14.R10", rs, rs.loc, "dequeued-not-marked", "request_stop runs a dequeued callback without marking it unlinked (prev_ = nullptr): its destructor unlinks it a second "
                "time through a stale address instead of waiting for the callback to finish")


def word_predicates(rep, F, c):
    from engine.kinds import eval_tree, Unknown, expand_locals
    SSq = "pika::detail::stop_state"
    M = {"tok": c["token_ref_mask"], "stop": c["stop_requested_flag"], "src": c["source_ref_mask"], "lock": c["locked_flag"],
         "tok1": c["token_ref_increment"], "src1": c["source_ref_increment"]}
    spec = {"stop_requested": lambda w: (w & M["stop"]) != 0, "is_locked": lambda w: (w & M["lock"]) != 0,
            "stop_possible": lambda w: (w & M["stop"]) != 0 or (w & M["src"]) != 0}
    fields = [0, M["tok1"], 3 * M["tok1"], M["tok"]]
    words = []
    for t in fields:
        for st in (0, M["stop"]):
            for sr in (0, M["src1"], 2 * M["src1"], M["src"]):
                for lk in (0, M["lock"]):
                    words.append(t | st | sr | lk)
    preds = {}
    for f in F.fns:
        short = f.qname.rsplit("::", 1)[-1]
        if f.parent == -1 and f.qname.startswith(SSq + "::") and short in spec and len(f.params) == 1 and "int" in str(f.params[0].get("type", "")):
            preds[short] = f
    if set(preds) != set(spec):
        raise AnalysisBroken("stop_state: word predicates not found (%s)" % sorted(preds))

    def value(name, w, depth=0):
        f = preds[name]
        rets = [e for _, _, e in f.all_events() if e.get("k") == "return" and e.get("e") is not None]
        if depth > 3 or not rets:
            raise AnalysisBroken("stop_state::%s: no return expression" % name)

        def h(e, env):
            if e.get("k") == "call" and callee_short(e) in preds and len(e.get("args") or []) == 1:
                return value(callee_short(e), eval_tree(e["args"][0], env), depth + 1)
            raise Unknown(T(e))
        env = {f.params[0]["name"]: w, "$call": h}
        for k_, v_ in c.items():
            env[SSq + "::" + k_] = v_
            env["stop_state::" + k_] = v_
            env[k_] = v_
        if len(rets) == 1:
            return bool(eval_tree(expand_locals(f, rets[0]["e"]), env))
        # several returns (if / return chains): run the function on the word
        from engine.kinds import interp as _in11
        res = _in11(f, env, unknown_both=False)
        outs = set()
        for end, e_, evs, ev in res:
            if end != "return" or ev is None or ev.get("e") is None:
                raise Unknown("%s does not run to a return for the sample word" % name)
            outs.add(bool(eval_tree(ev["e"], e_)))
        if len(outs) != 1:
            raise Unknown("%s: ambiguous" % name)
        return outs.pop()
    for name in sorted(spec):
        wrong = None
        for w in words:
            try:
                got = value(name, w)
            except Unknown as ex:
                raise AnalysisBroken("stop_state::%s not evaluable: %s" % (name, ex))
            if got != spec[name](w) and wrong is None:
                wrong = (w, got)
        if wrong:
            w, got = wrong
            rep.bad("C14.R11", preds[name], preds[name].loc, "word-predicate:" + name, "stop_state::%s(0x%x) is %s (token count %d, stop bit %d, source count %d, lock bit %d; expected %s): "
                    "the predicate reads a field that is not its own - e.g. stop_possible() answers true while another thread merely holds the state's lock" %
                    (name, w, got, (w & M["tok"]) // M["tok1"], int((w & M["stop"]) != 0), (w & M["src"]) // M["src1"], int((w & M["lock"]) != 0), spec[name](w)))
        else:
            rep.ok("C14.R11", preds[name], "stop_state::%s agrees with its field on %d sample words" % (name, len(words)), sites=len(words))
