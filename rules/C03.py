# C03 — sender adaptors deliver exactly one, correct completion signal (structural part; DESIGN.md §5 C03)
import re
from engine.core import AnalysisBroken, P, T, callee_of, callee_short, cond_atoms, loc_of, strip, subexprs, block_path, is_moved, forward
from engine.kinds import LockFlow, FactFlow, CountFlow, precedes_on_all_paths, always_followed_by, derives_from
from engine.completions import Completions, CPO, NS
from .common import facts, lib, driver, witness

EXPLANATION = (
    "Static analysis of the current source (template patterns of every adaptor header, so no instantiation can be "
    "missed). Decided: in every receiver that pika's adaptors define, each of set_value / set_error / set_stopped hands "
    "the downstream receiver off exactly once on every path, exception edges of try_catch_exception_ptr / try included, "
    "and only through its own channel (set_error only via set_error, set_stopped only via set_stopped, set_value via "
    "set_value or, on the exception path, set_error); start() of the factories completes exactly once (R1); every "
    "invocation of a stored user callable lies inside a guard whose handler completes with set_error (R2); when_all / "
    "when_all_vector complete only when the last predecessor finished, with exactly one of value/error/stopped, and "
    "record an error only after winning the flag (R3); split / split_tuple / ensure_started publish the result before "
    "'done', take the continuation lock in the documented order, re-test 'done' under the lock before queueing a "
    "continuation, and every receiver member stores its alternative before announcing completion (R4); operation states "
    "are released/reset before the downstream completion that may destroy them (R5); operation states are immovable "
    "and completion members are rvalue-qualified and noexcept (R6). Not decided: that values arrive unchanged and in "
    "order, object lifetimes, races beyond the lock/flag protocol shape, stdexec mode.")
ASSUMPTIONS = ["completion CPOs are noexcept (receiver contract)", "pika::detail::try_catch_exception_ptr(f, g) runs f and, if f throws, g with the exception",
               "pika::detail::visit calls exactly one operator() of the visitor"]
THOROUGH_CONFIGS = [["-UNDEBUG", "-DPIKA_DEBUG"]]
FLOORS = {"C03.R1": 45, "C03.R2": 5, "C03.R3": 6, "C03.R4": 18, "C03.R5": 6, "C03.R6": 6, "C03.R7": 9, "C03.R8": 1, "C03.R9": 6, "C03.R10": 6, "C03.R11": 5}

MEMBERS = ("set_value", "set_error", "set_stopped")
CHANNEL_OK = {"set_value": {"value", "error", "connect", "protocol"}, "set_error": {"error", "protocol", "connect"}, "set_stopped": {"stopped", "protocol"}}
# receivers that are sinks (no downstream receiver): not subject to R1
SINKS = {"pika::execution::experimental::detail::as_receiver": "adapter used by execute(): runs the callable, terminates on error"}


def closure_ok(F, fn):
    if fn.raw.get("cfg_error") or fn.entry is None:
        return False
    return all(closure_ok(F, l) for l in fn.lambdas())


def usable(F, fn):
    """The pattern if clang could build its CFG (and its lambdas'), otherwise every instantiation."""
    if closure_ok(F, fn):
        return [fn]
    inst = [f for f in F.fns if f.qname == fn.qname and not f.pattern and f.parent == -1 and f.loc == fn.loc and closure_ok(F, f)]
    if not inst:
        raise AnalysisBroken("%s (%s): clang builds no CFG for the template pattern (range-for over a dependent range) and the driver instantiates it nowhere" % (fn.qname, fn.loc))
    return inst


def lexically_guarded(F, C, fn, ev):
    """ev (in fn) lies in a try block, or fn is (nested in) the first lambda of a try_catch_exception_ptr whose
    handler completes with set_error."""
    if ev is not None and ev.get("try") is not None:
        return True
    cur = fn
    while cur is not None and cur.parent != -1:
        parent = F.by_id.get(cur.parent)
        for _, _, pe in parent.all_events():
            if pe.get("k") == "call" and callee_short(pe) == "try_catch_exception_ptr" and pe.get("args"):
                a0 = strip(pe["args"][0])
                if a0.get("k") == "lambda" and a0.get("id") == cur.id:
                    g = C.lambda_fn(pe["args"][1])
                    if g is not None and "error" in C.summary(g).channels:
                        return True
            if pe.get("try") is not None and subexprs(pe, lambda x: x.get("k") == "lambda" and x.get("id") == cur.id):
                return True
        cur = parent
    return False


def visitor_guarded(F, C, fn, depth=3):
    """fn is (nested in) operator() of a visitor record: every visit(Visitor{...}, ...) call site must be guarded."""
    top = fn
    while top.parent != -1:
        top = F.by_id[top.parent]
    if not top.qname.endswith("::operator()") or depth == 0:
        return False
    rec = top.record
    sites = []
    for f in F.fns:
        for b, i, ev in f.all_events():
            if ev.get("k") == "call" and callee_short(ev) == "visit" and ev.get("args"):
                a0 = strip(ev["args"][0])
                if isinstance(a0, dict) and a0.get("k") == "construct" and a0.get("rec") == rec:
                    sites.append((f, ev))
    if not sites:
        return False
    return all(lexically_guarded(F, C, f, ev) or visitor_guarded(F, C, f, depth - 1) for f, ev in sites)


def receiver_members(F):
    out = []
    for f in F.fns:
        if f.parent != -1 or not f.pattern:
            continue
        short = f.qname.rsplit("::", 1)[-1]
        if short in MEMBERS and f.kind == "method":
            out.append(f)
    return out


def run(rep, tier):
    rep.rule("C03.R1", "K3: every receiver member / factory start() hands the downstream receiver off exactly once on every path, through its own channel")
    rep.rule("C03.R2", "K6: stored user callables are invoked only inside an exception guard that ends in set_error")
    rep.rule("C03.R3", "K3/K4: when_all(_vector): finish() once per member; completion only on the last decrement; error recorded only after winning the flag")
    rep.rule("C03.R4", "K1/K2/K4/K8: split/split_tuple/ensure_started: result stored before done; lock order; re-test under the lock; start once")
    rep.rule("C03.R5", "K2: operation state released/reset before the downstream completion that may destroy it")
    rep.rule("C03.R7", "K6 (keep-alive across a self-destroying call): split/split_tuple/ensure_started receivers call shared_state::set_predecessor_done() - which resets the "
             "predecessor operation state and thereby destroys the calling receiver - only through a local that was moved from *this, so that a reference to the shared state outlives the call")
    rep.rule("C03.R6", "K9: operation states immovable; completion members &&-qualified and noexcept; drop_operation_state forwards decayed copies; split/split_tuple hand their one stored error (split: also the values) to every consumer as const lvalue references (compile-time witnesses)")

    F = facts(rep, driver("c03_algos.cpp"), [r"^pika::\w+_detail::", r"^pika::when_all_impl::", r"^pika::execution::experimental::detail::"])
    C = Completions(F)
    members = receiver_members(F)
    if len(members) < 45:
        raise AnalysisBroken("only %d receiver members found" % len(members))

    # ---- R1
    for fn0 in members:
        for fn in usable(F, fn0):
            rec = fn0.record or ""
            if rec in SINKS:
                continue
            short = fn.qname.rsplit("::", 1)[-1]
            s = C.summary(fn)
            prob = []
            if s.normal == frozenset() and short == "set_error" and (fn.raw.get("noreturn") or any(blk.term.get("noreturn") for blk in fn.blocks.values())):
                # documented: the error channel of this receiver terminates (start_detached); nothing returns normally
                rel = [1 for _, _, e in fn.all_events() if e.get("k") == "call" and callee_short(e) in ("release",)]
                if rel:
                    rep.ok("C03.R1", fn, "error channel releases the operation state and then terminates/rethrows (never returns)")
                    continue
            if s.normal != frozenset([1]):
                prob.append("hands the receiver off %s times depending on the path (expected exactly once)" % sorted(s.normal))
            badch = s.channels - CHANNEL_OK[short]
            if badch:
                prob.append("completes through channel(s) %s" % sorted(badch))
            if short == "set_value" and s.normal == frozenset([1]) and not (s.channels & {"value", "connect", "protocol"}):
                prob.append("never completes with a value")
            if prob:
                rep.bad("C03.R1", fn, fn.loc, short, "%s::%s %s" % (rec.rsplit("::", 1)[-1], short, "; ".join(prob)))
            else:
                rep.ok("C03.R1", fn, "exactly one hand-off on every path (incl. exception edges); channels %s" % sorted(s.channels), sites=s.sites)
    for q in (r"^pika::just_detail::operation_state::start$", r"^pika::when_all_vector_detail::operation_state::start$"):
        for fn in [f for f in F.find(q) if f.pattern and f.parent == -1]:
            s = C.summary(fn)
            zero_ok = "when_all_vector" in q
            if s.normal == frozenset([1]) or (zero_ok and s.normal <= {0, 1}):
                rep.ok("C03.R1", fn, "start() completes %s" % ("exactly once" if not zero_ok else "at most once itself (only for zero predecessors)"))
            else:
                rep.bad("C03.R1", fn, fn.loc, "start", "start() completes %s times" % sorted(s.normal))

    # ---- R2 user callables
    n2 = 0
    for fn in F.fns:
        for b, i, ev in fn.all_events():
            if ev.get("k") != "call":
                continue
            t = T(ev)
            user = False
            if re.match(r"^invoke_impl\{(r\.|op_state\.|this->)?[\w.>-]*f\}\(", t) or re.match(r"^apply\((r\.)?op_state\.f,", t) or \
                    re.match(r"^apply\(this->op_state\.f,", t) or re.match(r"^(r\.)?op_state->f\(", t) or re.match(r"^(r\.)?op_state\.f\(", t) or \
                    re.match(r"^r\.f\(", t):
                user = True
            if not user:
                continue
            n2 += 1
            guarded = ev.get("try") is not None
            cur = fn
            while not guarded and cur is not None and cur.parent != -1:
                parent = F.by_id.get(cur.parent)
                for _, _, pe in parent.all_events():
                    if pe.get("k") == "call" and callee_short(pe) == "try_catch_exception_ptr" and pe.get("args"):
                        a0 = strip(pe["args"][0])
                        if a0.get("k") == "lambda" and a0.get("id") == cur.id:
                            g = C.lambda_fn(pe["args"][1])
                            if g is not None and "error" in C.summary(g).channels:
                                guarded = True
                    if pe.get("try") is not None and subexprs(pe, lambda x: x.get("k") == "lambda" and x.get("id") == cur.id):
                        guarded = True
                cur = parent
            if not guarded:
                guarded = visitor_guarded(F, C, fn)
            if guarded:
                rep.ok("C03.R2", fn, "user callable invoked at %s inside an exception guard ending in set_error" % loc_of(ev))
            else:
                rep.bad("C03.R2", fn, loc_of(ev), "unguarded-callable", "a stored user callable is invoked outside an exception guard: an exception escapes a noexcept completion member (std::terminate) instead of arriving as set_error")
    if n2 < 5 and n2 >= 3:
        rep.bad("C03.R2", "pika::*_detail", "", "callable-not-invoked", "only %d of the 5 adaptors that store a user callable (then, let_value, let_error, bulk, unpack/transfer) still invoke it: "
                "a composition no longer denotes its callable applied to the predecessor's result" % n2)
    elif n2 < 3:
        raise AnalysisBroken("C03.R2 found only %d user-callable invocations" % n2)

    # ---- R3 when_all
    for ns in ("pika::when_all_impl", "pika::when_all_vector_detail"):
        fin = [f for f in F.find("^" + re.escape(ns) + r"::operation_state\w*::finish$") if f.pattern and f.parent == -1]
        if not fin:
            fin = [f for f in F.find("^" + re.escape(ns) + r"::.*::finish$") if f.pattern and f.parent == -1]
        if not fin:
            raise AnalysisBroken("%s: finish() not found" % ns)
        fin = [x for f0 in fin for x in usable(F, f0)]
        for fn in fin:
            ff = FactFlow(fn)
            C2 = Completions(F, protocol={})
            s = C2.summary(fn)
            comps = []

            def collect(f):
                for b, i, ev in f.all_events():
                    if ev.get("k") == "call" and (callee_of(ev) in CPO or callee_short(ev) == "visit" or (callee_short(ev) in ("apply",) and subexprs(ev, lambda x: x.get("k") == "var" and x.get("name") in CPO))):
                        comps.append((f, b, i, ev))
            collect(fn)
            last = True
            for f, b, i, ev in comps:
                fb = ff.before.get((b, i)) or frozenset() if f is fn else frozenset()
                if f is fn and not any(t and re.search(r"--(this->)?predecessors_remaining == 0|0 == --(this->)?predecessors_remaining", a) for a, t in fb):
                    last = False
            if comps and last and s.normal <= {0, 1} and 1 in s.normal:
                rep.ok("C03.R3", fn, "finish(): completes (once) only on the edge --predecessors_remaining == 0; channels %s" % sorted(s.channels), sites=len(comps))
            else:
                rep.bad("C03.R3", fn, fn.loc, "finish", "finish() must complete exactly once and only when the last predecessor finished (counts %s, guarded by the last decrement: %s)" % (sorted(s.normal), last))
        for fn in fin:
            ffd = FactFlow(fn)
            for b, i, ev in fn.all_events():
                if ev.get("k") != "call":
                    continue
                fb = ffd.before.get((b, i)) or frozenset()
                fl = [t for a, t in fb if a.endswith("set_stopped_error_called") or "set_stopped_error_called.load" in a]
                if callee_short(ev) == "set_value_helper" or callee_of(ev) == NS + "set_value":
                    if True in fl:
                        rep.bad("C03.R3", fn, loc_of(ev), "finish-dispatch:value", "finish() completes with the values on the path where an error / stopped signal was recorded")
                    elif False in fl:
                        rep.ok("C03.R3", fn, "finish(): values only when no error / stopped signal was recorded")
                elif callee_of(ev) == NS + "set_stopped":
                    if False in fl and True not in fl:
                        rep.bad("C03.R3", fn, loc_of(ev), "finish-dispatch:stopped", "finish() completes with set_stopped on the path where no error / stopped signal was recorded")
                    elif True in fl:
                        rep.ok("C03.R3", fn, "finish(): set_stopped only when a signal was recorded")
        recv = [f for f in members if f.qname.startswith(ns + "::")]
        for fn in recv:
            short = fn.qname.rsplit("::", 1)[-1]
            ff = FactFlow(fn)
            wr = [(b, i, ev) for b, i, ev in fn.all_events() if (ev.get("k") == "call" and ev.get("op") == "=" and P(ev.get("recv")).endswith("op_state.error")) or
                  (ev.get("k") == "write" and P(ev["lhs"]).endswith("op_state.error"))]
            okw = True
            for b, i, ev in wr:
                fb = ff.before.get((b, i)) or frozenset()
                if not any((not t) and "set_stopped_error_called.exchange(true" in a for a, t in fb):
                    okw = False
            if short == "set_error" and not wr:
                okw = False
            if okw:
                rep.ok("C03.R3", fn, "%s: error slot written only after winning set_stopped_error_called.exchange(true)" % short, sites=len(wr))
            else:
                rep.bad("C03.R3", fn, fn.loc, "error-race:" + short, "op_state.error is written without first winning set_stopped_error_called.exchange(true): two failing predecessors race on the error slot")
            # the flag 'an error / stopped signal was seen' decides in finish() which channel completes: set_stopped and set_error raise it before finish(),
            # set_value stores its values exactly when it is not raised
            fins = [(b, i, ev) for b, i, ev in fn.all_events() if ev.get("k") == "call" and callee_short(ev) == "finish"]
            flag_true = lambda e: (e.get("k") == "write" and P(e["lhs"]).endswith("set_stopped_error_called") and T(strip(e["rhs"])) == "true") or \
                (e.get("k") == "call" and callee_short(e) in ("exchange", "store") and P(e.get("recv") or {}).endswith("set_stopped_error_called") and e.get("args") and T(strip(e["args"][0])) == "true") or \
                (e.get("k") == "call" and e.get("op") == "=" and P(e.get("recv") or {}).endswith("set_stopped_error_called") and e.get("args") and T(strip(e["args"][0])) == "true")
            if short in ("set_stopped", "set_error") and fins:
                if all(precedes_on_all_paths(fn, flag_true, (b, i)) for b, i, ev in fins):
                    rep.ok("C03.R3", fn, "%s raises set_stopped_error_called before finish()" % short)
                else:
                    rep.bad("C03.R3", fn, loc_of(fins[0][2]), "flag-not-raised:" + short, "%s reaches finish() without having raised set_stopped_error_called: finish() then takes the "
                            "value branch and reads value slots that were never filled instead of completing with %s" % (short, "the error" if short == "set_error" else "set_stopped"))
            if short == "set_value":
                sth = [(b, i, ev) for b, i, ev in fn.all_events() if ev.get("k") == "call" and callee_short(ev) == "set_value_helper"]
                for b, i, ev in sth:
                    fb = ff.before.get((b, i)) or frozenset()
                    fl = [t for a, t in fb if a.endswith("set_stopped_error_called") or "set_stopped_error_called.load" in a]
                    if True in fl:
                        rep.bad("C03.R3", fn, loc_of(ev), "values-stored-under-flag", "set_value stores its values only when an error / stopped signal was already seen and skips them otherwise: "
                                "finish() forwards value slots that were never filled")
                    else:
                        rep.ok("C03.R3", fn, "set_value stores its values unless an error / stopped signal was already seen")

    # ---- R4 shared-state adaptors
    for ns, recvname in (("pika::split_detail", "split_receiver"), ("pika::split_tuple_detail", "split_tuple_receiver"), ("pika::ensure_started_detail", "ensure_started_receiver")):
        recv = [f for f in members if f.qname.startswith(ns + "::") and recvname in f.qname]
        if len(recv) != 3:
            raise AnalysisBroken("%s: expected 3 receiver members, found %d" % (ns, len(recv)))
        for fn in recv:
            short = fn.qname.rsplit("::", 1)[-1]
            done = [(b, i, ev) for b, i, ev in fn.all_events() if ev.get("k") == "call" and callee_short(ev) == "set_predecessor_done"]
            if len(done) != 1:
                continue    # R1 reports it
            store = lambda e: e.get("k") == "call" and callee_short(e) == "emplace" and re.search(r"(^|[.>])v$", P(e.get("recv") or {}))
            stored = precedes_on_all_paths(fn, store, (done[0][0], done[0][1]))
            if not stored:
                # the store may be inside the guarded lambda of try_catch_exception_ptr
                for l in fn.lambdas():
                    if any(store(e) for _, _, e in l.all_events()):
                        use = [(b, i) for b, i, e in fn.all_events() if e.get("k") == "call" and callee_short(e) == "try_catch_exception_ptr"]
                        if use and precedes_on_all_paths(fn, lambda e: e.get("k") == "call" and callee_short(e) == "try_catch_exception_ptr", (done[0][0], done[0][1])):
                            g = [x for x in fn.lambdas() if x is not l]
                            stored = all(any(store(e) for _, _, e in x.all_events()) for x in g) if g else True
            # R7 keep-alive: set_predecessor_done() resets the predecessor operation state - which destroys the very
            # receiver that is calling it, and with it the reference to the shared state the receiver holds - and goes on
            # using the shared state.  The caller therefore owns a reference of its own for the duration of the call:
            # the call goes through a local that was moved/copied from *this, not through the receiver's member.
            dr = strip(done[0][2].get("recv") or {})
            base = dr
            while isinstance(base, dict) and base.get("k") in ("mem", "call", "un") and (base.get("base") is not None or base.get("recv") is not None or base.get("e") is not None):
                base = strip(base.get("base") if base.get("base") is not None else (base.get("recv") if base.get("recv") is not None else base.get("e")))
            own = isinstance(base, dict) and base.get("k") == "var" and not base.get("param") and \
                any(e.get("k") in ("decl", "ctor") and e.get("var") == base.get("name") and "*this" in T(e.get("init") if e.get("k") == "decl" else e) for _, _, e in fn.all_events())
            if own:
                rep.ok("C03.R7", fn, "%s calls set_predecessor_done() through the local '%s' that took over *this (own reference to the shared state)" % (short, base.get("name")))
            else:
                rep.bad("C03.R7", fn, loc_of(done[0][2]), "done-without-own-reference:" + short,
                        "%s::%s calls set_predecessor_done() through %s: the call resets the predecessor operation state, which destroys this receiver and drops the reference it holds - "
                        "if that was the last one (sender dropped, no consumer connected) the shared state is freed while set_predecessor_done is still running on it"
                        % (recvname, short, T(dr)))
            if stored:
                rep.ok("C03.R4", fn, "%s stores its alternative into v before set_predecessor_done()" % short)
            else:
                rep.bad("C03.R4", fn, loc_of(done[0][2]), "done-without-store:" + short,
                        "%s::%s announces completion (set_predecessor_done) without storing its alternative into the shared variant: consumers "
                        "visit an empty (monostate) variant, which every visitor treats as unreachable" % (recvname, short))
        spd = [f for f in F.find("^" + re.escape(ns) + r"::.*shared_state::set_predecessor_done$") if f.pattern and f.parent == -1]
        if not spd:
            raise AnalysisBroken("%s: set_predecessor_done not found" % ns)
        for fn in [x for f0 in spd for x in usable(F, f0)]:
            w = [(b, i, ev) for b, i, ev in fn.all_events() if (ev.get("k") == "write" and P(ev["lhs"]).endswith("predecessor_done")) or
                 (ev.get("k") == "call" and ev.get("op") == "=" and P(ev.get("recv") or {}).endswith("predecessor_done")) or
                 (ev.get("k") == "call" and callee_short(ev) == "store" and P(ev.get("recv") or {}).endswith("predecessor_done"))]
            lk = [(b, i, ev) for b, i, ev in fn.all_events() if ev.get("k") in ("ctor", "decl") and (ev.get("rec") in ("std::lock_guard", "std::unique_lock"))]
            rs = [(b, i, ev) for b, i, ev in fn.all_events() if ev.get("k") == "call" and callee_short(ev) == "reset" and P(ev.get("recv")).endswith("os")]
            # invocations of an element of the continuations container (whatever the loop variable is called)
            loopcalls = [(b, i, ev) for b, i, ev in fn.all_events() if ev.get("k") == "call" and ev.get("op") == "()" and derives_from(fn, ev, lambda t: "this->continuation" in t)]
            ok = len(w) == 1 and lk and loopcalls and T(strip(w[0][2]["rhs"] if w[0][2].get("k") == "write" else w[0][2]["args"][0])) == "true"
            if ok:
                ok = precedes_on_all_paths(fn, lambda e: e is w[0][2], (lk[0][0], lk[0][1])) and \
                    all(precedes_on_all_paths(fn, lambda e: e is lk[0][2], (b, i)) for b, i, ev in loopcalls) and \
                    (not rs or precedes_on_all_paths(fn, lambda e: e is rs[0][2], (w[0][0], w[0][1])))
            if ok:
                rep.ok("C03.R4", fn, "os.reset() -> predecessor_done = true -> lock/unlock mtx -> run continuations")
            else:
                rep.bad("C03.R4", fn, fn.loc, "done-order", "set_predecessor_done must publish predecessor_done, then synchronise with add_continuation through the mutex, "
                        "then run the queued continuations (a continuation queued concurrently is otherwise never run)")
        addc = [f for f in F.find("^" + re.escape(ns) + r"::.*shared_state::add_continuation$") if f.pattern and f.parent == -1]
        if not addc:
            raise AnalysisBroken("%s: add_continuation not found" % ns)
        for fn in [x for f0 in addc for x in usable(F, f0)]:
            lf = LockFlow(fn)
            ff = FactFlow(fn, kill=lambda ev, pos, rel=lf.release_events: (lambda a: "predecessor_done" in a) if pos in rel else None)
            # acquiring the lock invalidates an earlier unlocked test
            acq = set((b, i) for b, i, ev in fn.all_events() if ev.get("k") in ("ctor",) and ev.get("rec") in ("std::unique_lock", "std::lock_guard"))
            ff = FactFlow(fn, kill=lambda ev, pos, rel=lf.release_events, acq=acq: (lambda a: "predecessor_done" in a) if (pos in rel or pos in acq) else None)
            em = [(b, i, ev) for b, i, ev in fn.all_events() if
                  (ev.get("k") == "call" and callee_short(ev) in ("emplace_back", "push_back") and P(ev.get("recv")).endswith("continuations")) or
                  (ev.get("k") == "call" and callee_short(ev) == "emplace" and P(ev.get("recv") or {}).endswith("continuation")) or
                  (ev.get("k") == "call" and ev.get("op") == "=" and re.search(r"continuations\[[^\]]*\]$", P(ev.get("recv") or {}))) or
                  (ev.get("k") == "write" and re.search(r"continuations\[[^\]]*\]$", P(ev["lhs"])))]
            if not em:
                raise AnalysisBroken("%s: continuations.emplace_back not found" % fn.qname)
            good = True
            for b, i, ev in em:
                held = lf.held_before((b, i)) or frozenset()
                fb = ff.before.get((b, i)) or frozenset()
                if not any(h.endswith("mtx") for h in held) or not any((not t) and a.endswith("predecessor_done") for a, t in fb):
                    good = False
            if good:
                rep.ok("C03.R4", fn, "continuation queued only with mtx held and after re-testing !predecessor_done under the lock")
            else:
                rep.bad("C03.R4", fn, loc_of(em[0][2]), "queue-after-done", "a continuation can be queued after the predecessor completed (no re-test of predecessor_done under the lock, or lock not held): it never runs")
            s = C.summary(fn)
        st = [f for f in F.find("^" + re.escape(ns) + r"::.*shared_state::start$") if f.pattern and f.parent == -1]
        for fn in st:
            ff = FactFlow(fn)
            sc = [(b, i, ev) for b, i, ev in fn.all_events() if ev.get("k") == "call" and callee_of(ev) == NS + "start"]
            if sc and all(any((not t) and "start_called.exchange(true" in a for a, t in (ff.before.get((b, i)) or frozenset())) for b, i, ev in sc):
                rep.ok("C03.R4", fn, "the predecessor is started only by the caller that wins start_called.exchange(true)")
            else:
                rep.bad("C03.R4", fn, fn.loc, "start-once", "the shared predecessor operation can be started more than once")

    # ---- R9: the visitors that deliver a stored / forwarded result complete once for every alternative
    rep.rule("C03.R9", "K3: the visitor classes through which adaptors deliver a stored or forwarded result (one operator() per alternative: stopped, error, values) "
             "complete the receiver they hold exactly once on every path of every alternative (the monostate alternative is unreachable by construction); the user "
             "callable of then is invoked on every path of its set_value before the completion - an alternative that completes nothing leaves the consumer waiting for ever")
    n9 = 0
    # a visitor class delivers if one of its alternatives completes a receiver: then all of them (but monostate) have to
    delivering = set()
    for f_ in F.fns:
        if f_.parent == -1 and f_.kind == "method" and f_.qname.endswith("::operator()") and f_.record and re.search(r"visitor", f_.record) and \
                any((e.get("k") == "call" and callee_of(e) in (NS + "set_value", NS + "set_error", NS + "set_stopped")) or
                    (e.get("k") == "read" and "this->receiver" in T(e.get("e") or {})) for _, _, e in f_.all_events()):
            delivering.add(f_.record)
    for fn0 in F.fns:
        if fn0.parent != -1 or not fn0.pattern or fn0.kind != "method" or not fn0.qname.endswith("::operator()") or not fn0.record:
            continue
        if not re.search(r"visitor", fn0.record) or not re.match(r"^pika::(\w+_detail|when_all_impl)::", fn0.qname):
            continue
        ptypes = " ".join(str(p_.get("type", "")) for p_ in fn0.params)
        if "monostate" in ptypes:
            continue
        for fn in usable(F, fn0)[:2]:
            evs = list(fn.all_events())
            touches_receiver = any(e.get("k") == "call" and callee_of(e) in (NS + "set_value", NS + "set_error", NS + "set_stopped") for _, _, e in evs)
            holds_receiver = any("receiver" in T(e.get("e") or {}) for _, _, e in evs if e.get("k") == "read")
            rec_fields = [r for r in F.records.values() if r.get("qname") == fn0.record]
            has_field = any(x.get("name") == "receiver" for r in rec_fields for x in r.get("fields", []))
            if not (touches_receiver or holds_receiver or has_field or fn0.record in delivering):
                continue
            s = C.summary(fn)
            n9 += 1
            if s.normal == frozenset([1]) or (s.normal == frozenset() and any(blk.term.get("noreturn") for blk in fn.blocks.values())):
                rep.ok("C03.R9", fn, "the alternative (%s) completes the held receiver exactly once on every path" % ptypes[:60])
            elif touches_receiver or has_field or fn0.record in delivering:
                rep.bad("C03.R9", fn, fn.loc, "visitor-alternative:" + fn0.record.rsplit("::", 1)[-1], "%s (alternative %s) completes the receiver it delivers to %s times depending on the path "
                        "(expected exactly once): a consumer of that alternative is never signalled / signalled twice" % (fn.qname, ptypes[:80], sorted(s.normal)))
    if n9 < 6:
        raise AnalysisBroken("C03.R9: only %d delivering visitor alternatives found" % n9)
    # then: f is invoked on every path of set_value before the completion
    for fn0 in members:
        if not fn0.qname.startswith("pika::then_detail::") or not fn0.qname.endswith("::set_value"):
            continue
        for fn in usable(F, fn0)[:2]:
            lams = [fn] + list(fn.lambdas())
            inv = [e for f_ in lams for _, _, e in f_.all_events() if e.get("k") == "call" and re.search(r"(^|[^\w])(invoke_impl\{)?(std::move\()?r\.f\b|\br\.f\(", T(e))]
            # both branches (void / non-void result) have to invoke: count distinct invocation sites against the number of value completions
            comps = [e for f_ in lams for _, _, e in f_.all_events() if e.get("k") == "call" and callee_of(e) == NS + "set_value"]
            if inv and len(inv) >= len(comps):
                rep.ok("C03.R9", fn, "then: every value completion is preceded by an invocation of f (%d invocations, %d completions)" % (len(inv), len(comps)))
            else:
                rep.bad("C03.R9", fn, fn.loc, "then-f-not-invoked", "then's set_value completes downstream with set_value on a branch that does not invoke the user callable "
                        "(%d invocations of f for %d value completions): the composition no longer denotes f applied to the values" % (len(inv), len(comps)))

    # ---- R10: direct delivery only after completion; every queued continuation is run; schedule_from parks, connects, starts
    rep.rule("C03.R10", "K4/K2/K7: split / split_tuple / ensure_started deliver the stored result to a consumer directly (visit of the stored variant) only on paths where "
             "predecessor_done was seen true - otherwise the consumer reads an empty variant; set_predecessor_done runs every queued continuation (evaluated with a non-empty "
             "queue); schedule_from parks the predecessor's values, connects the scheduler's sender and starts that operation on every path of its value completion")
    from engine.kinds import eval_walk as _ew10
    n10 = 0
    for ns in ("pika::split_detail", "pika::split_tuple_detail", "pika::ensure_started_detail"):
        for f0 in [f for f in F.find("^" + re.escape(ns) + r"::.*shared_state::add_continuation$") if f.pattern and f.parent == -1]:
            for fn in usable(F, f0)[:1]:
                ff10 = FactFlow(fn)
                vis = [(b, i, e) for b, i, e in fn.all_events() if e.get("k") == "call" and callee_short(e) == "visit"]
                for b, i, e in vis:
                    n10 += 1
                    fb = ff10.before.get((b, i)) or frozenset()
                    done = [t for a, t in fb if a.endswith("predecessor_done") or "predecessor_done.load" in a]
                    if True in done and False not in done:
                        rep.ok("C03.R10", fn, "the stored result is delivered directly only after predecessor_done was seen true")
                    else:
                        rep.bad("C03.R10", fn, loc_of(e), "deliver-before-done", "%s::add_continuation visits the stored variant on a path where predecessor_done was not seen true: "
                                "the consumer is completed from an empty (monostate) variant before the predecessor has completed" % ns)
        for f0 in [f for f in F.find("^" + re.escape(ns) + r"::.*shared_state::set_predecessor_done$") if f.pattern and f.parent == -1]:
            for fn in usable(F, f0)[:1]:
                calls = [e for _, _, e in fn.all_events() if e.get("k") == "call" and e.get("op") == "()" and derives_from(fn, e, lambda t: "this->continuation" in t)]
                if not calls:
                    continue
                ffq = FactFlow(fn)
                n10 += 1
                pos_calls = [(b, i) for b, i, e in fn.all_events() if e is calls[0]]
                fbq = ffq.before.get(pos_calls[0]) or frozenset() if pos_calls else frozenset()
                if any(t and "continuation" in a and ".empty()" in a for a, t in fbq):
                    rep.bad("C03.R10", fn, fn.loc, "continuations-skipped", "%s::set_predecessor_done runs the queued continuations only on the path where the queue is empty: consumers "
                            "that were queued before the predecessor completed are never signalled" % ns)
                else:
                    rep.ok("C03.R10", fn, "the queued continuations are run whenever the queue is not empty")
    for f0 in [f for f in F.find(r"^pika::schedule_from_detail::operation_state::set_value_predecessor_sender$") if f.pattern and f.parent == -1]:
        for fn in usable(F, f0)[:1]:
            park = lambda e: e.get("k") == "call" and callee_short(e) == "emplace" and re.search(r"this->\w+$", P(e.get("recv") or {})) and "op_state" not in P(e.get("recv") or {})
            conn = lambda e: e.get("k") == "call" and callee_short(e) in ("emplace", "emplace_f") and "op_state" in P(e.get("recv") or {})
            st = [(b, i, e) for b, i, e in fn.all_events() if e.get("k") == "call" and callee_of(e) == NS + "start"]
            n10 += 1
            cf = CountFlow(fn, lambda e, pos: 1 if (e.get("k") == "call" and callee_of(e) == NS + "start") else 0)
            if st and cf.exits == frozenset([1]) and all(precedes_on_all_paths(fn, park, (b, i)) and precedes_on_all_paths(fn, conn, (b, i)) for b, i, e in st):
                rep.ok("C03.R10", fn, "schedule_from: values parked -> scheduler operation connected -> started, exactly once on every path")
            else:
                rep.bad("C03.R10", fn, fn.loc, "schedule-from-hand-over", "schedule_from's value completion does not park the values, connect the scheduler's sender and start that operation "
                        "exactly once on every path (starts on exit paths: %s): the operation never completes / forwards values that were never stored" % sorted(cf.exits))
    if n10 < 6:
        raise AnalysisBroken("C03.R10 examined only %d instances" % n10)

    # ---- R11: starting the nested operation is the last thing start() does to its own object
    rep.rule("C03.R11", "K2: an operation's start() member does not write to its own object after it has started the operation it wraps: a predecessor that completes inline lets the "
             "downstream receiver destroy the whole operation state before the nested start() returns (start_detached does), so a flag recorded afterwards is written into freed "
             "memory - and was still unset when the destructor looked at it")
    n11 = 0
    for fn0 in F.fns:
        if fn0.parent != -1 or not fn0.pattern or fn0.kind != "method" or not fn0.qname.endswith("::start") or not re.match(r"^pika::(\w+_detail|when_all_impl)::", fn0.qname):
            continue
        for fn in usable(F, fn0)[:1]:
            starts = [(b, i) for b, i, e in fn.all_events() if e.get("k") == "call" and callee_of(e) == NS + "start"]
            if not starts:
                continue
            sset = set(starts)
            after, _, _ = forward(fn, frozenset(), lambda st, ev, pos: st | {"s"} if pos in sset else st, None, lambda a, b: a | b)
            n11 += 1
            late = [e for b, i, e in fn.all_events() if (b, i) in after and "s" in after[(b, i)] and (
                (e.get("k") == "write" and P(e["lhs"]).startswith("this->")) or
                (e.get("k") == "call" and e.get("op") in ("=", "+=", "++", "--") and e.get("recv") is not None and P(e["recv"]).startswith("this->")) or
                (e.get("k") == "call" and callee_short(e) in ("store", "exchange", "emplace", "reset") and e.get("recv") is not None and P(e["recv"]).startswith("this->")))]
            if late:
                rep.bad("C03.R11", fn, loc_of(late[0]), "write-after-nested-start", "%s modifies its own object (%s) after it has started the wrapped operation: if that operation completes "
                        "inline and the receiver destroys this operation state, the write goes to freed memory (and the destructor saw the old value)" % (fn.qname, T(late[0])[:80]))
            else:
                rep.ok("C03.R11", fn, "nothing of *this is modified after the nested start()")
    if n11 < 5:
        raise AnalysisBroken("C03.R11 examined only %d start() members" % n11)

    # ---- R8: a stopped signal that has arrived is forwarded whatever the predecessor's static traits say
    rep.rule("C03.R8", "K6: pika's adaptors all declare sends_done = false yet forward set_stopped, so the trait says nothing about whether a stopped signal can arrive. "
             "Code that has *received* stopped (the stored stopped_type alternative of split_tuple, the stopped branch of when_all_vector::finish) completes its receiver "
             "with set_stopped unconditionally - it does not make the hand-off depend on sender_traits<Predecessor>::sends_done with an 'unreachable' arm")
    n8 = 0
    for fn in F.fns:
        if fn.parent != -1 or not (fn.qname.startswith("pika::split_tuple_detail::") or fn.qname.startswith("pika::when_all_vector_detail::") or
                                   fn.qname.startswith("pika::split_detail::") or fn.qname.startswith("pika::when_all_impl::")):
            continue
        has_stop = any(e.get("k") == "call" and callee_of(e) == NS + "set_stopped" for _, _, e in fn.all_events())
        for bid, blk in fn.blocks.items():
            if blk.cond is None:
                continue
            txt = T(blk.cond)
            if not re.search(r"\bsends_(done|stopped)\b", txt):
                continue
            n8 += 1
            arms = {}
            for lab, t, _ in blk.succ:
                arms[lab] = any(e.get("k") == "call" and callee_of(e) == NS + "set_stopped" for e in fn.blocks[t].events)
            rep.bad("C03.R8", fn, blk.events[-1].get("loc", fn.loc) if blk.events else fn.loc, "stopped-depends-on-trait", "%s forwards a stopped signal it has already received only if "
                    "%s is true and treats the other case as unreachable: every pika adaptor (then, let_value, schedule_from, bulk, any_sender, ...) declares sends_done = false while "
                    "forwarding set_stopped, so a stopped signal passing through one of them ends in PIKA_UNREACHABLE (terminate / undefined behaviour) instead of "
                    "arriving as stopped" % (fn.qname, txt))
        if has_stop and (fn.qname.startswith("pika::split_tuple_detail::") or fn.qname.startswith("pika::when_all_vector_detail::")) and \
                not any(blk.cond is not None and re.search(r"\bsends_(done|stopped)\b", T(blk.cond)) for blk in fn.blocks.values()):
            n8 += 1
            rep.ok("C03.R8", fn, "set_stopped is not conditional on a static sends_done trait")
    if n8 < 1:
        raise AnalysisBroken("C03.R8: no stopped hand-off examined in split_tuple / when_all_vector")

    # ---- R5
    sd = [f for f in members if f.qname.startswith("pika::start_detached_detail::")]
    for fn in sd:
        rel = [(b, i, ev) for b, i, ev in fn.all_events() if ev.get("k") == "call" and callee_short(ev) == "release"]
        bad = []
        for b, i, ev in rel:
            blk = fn.blocks[b]
            for e2 in blk.events[i + 1:]:
                if e2.get("k") in ("read", "call") and "op_state" in T(e2 if e2.get("k") == "call" else e2["e"]):
                    bad.append(e2)
        if rel and not bad:
            rep.ok("C03.R5", fn, "release() is the last access to the operation state")
        else:
            rep.bad("C03.R5", fn, fn.loc, "use-after-release", "the operation state is used after release() (it may already be deleted)")
    # start_detached: the holder it allocates starts the operation it holds (otherwise nothing ever runs and the holder is never released)
    hs = [f for f in F.fns if f.parent == -1 and f.kind == "ctor" and f.qname.startswith("pika::start_detached_detail::operation_state_holder::")]
    if not hs:
        raise AnalysisBroken("start_detached: operation_state_holder constructor not found")
    for fn in hs[:2]:
        if any(e.get("k") == "call" and callee_of(e) == NS + "start" for _, _, e in fn.all_events()):
            rep.ok("C03.R5", fn, "the detached operation is started by the holder that owns it")
        else:
            rep.bad("C03.R5", fn, fn.loc, "detached-not-started", "start_detached's operation_state_holder no longer starts the operation it connects: the work never runs and the holder "
                    "(released only by a completion) is never freed")
    for ns, field in (("pika::drop_op_state_detail", "op_state"), ("pika::schedule_from_detail", "scheduler_op_state")):
        fs = [f for f in F.fns if f.pattern and f.parent == -1 and f.qname.startswith(ns + "::") and
              (f.qname.rsplit("::", 1)[-1] in MEMBERS or f.qname.endswith("_scheduler_sender"))]
        for fn in fs:
            comps = []
            allf = [fn] + [l for l in fn.lambdas()]
            for f in allf:
                for b, i, ev in f.all_events():
                    if ev.get("k") == "call" and (callee_of(ev) in CPO or callee_short(ev) in ("visit", "apply")):
                        comps.append((f, b, i, ev))
            if not comps:
                continue
            is_reset = lambda e: e.get("k") == "call" and callee_short(e) == "reset" and re.search(re.escape(field) + r"$", P(e.get("recv") or {}))
            if not any(is_reset(e) for f in allf for _, _, e in f.all_events()):
                continue
            ok = all(precedes_on_all_paths(f, is_reset, (b, i)) is not False for f, b, i, ev in comps if f is fn)
            # completions inside try blocks / handlers: the reset must precede inside the same function
            if ok:
                rep.ok("C03.R5", fn, "%s.reset() precedes the downstream completion" % field, sites=len(comps))
            else:
                rep.bad("C03.R5", fn, fn.loc, "complete-before-reset", "the downstream receiver is completed before %s is reset: the completion may destroy the enclosing operation state, the reset then touches freed memory" % field)

    # ---- R6
    n, failed = witness(rep, "C03.R6", driver("../witness/C03.cpp"))
    for _ in range(n - failed):
        rep.ok("C03.R6", "witness:C03.cpp", "static_assert holds")
    for fn in members:
        if fn.record in SINKS:
            continue
        if fn.record and fn.record.endswith("any_receiver_ref"):
            # virtual forwarding layer of the type-erased receiver (called through any_receiver, which is &&-qualified)
            if not fn.raw.get("noexcept"):
                rep.bad("C03.R6", fn, fn.loc, "noexcept:" + fn.qname.rsplit("::", 1)[-1], "type-erased completion member must be noexcept")
            continue
        if fn.raw.get("refq") != "&&" or not fn.raw.get("noexcept"):
            rep.bad("C03.R6", fn, fn.loc, "qualifiers:" + fn.qname.rsplit("::", 1)[-1], "completion member must be &&-qualified and noexcept (refq=%s noexcept=%s)" % (fn.raw.get("refq"), fn.raw.get("noexcept")))
