# C06 — mutexes give mutual exclusion and always hand the lock on (structural part; DESIGN.md §5 C06)
import re
from engine.core import AnalysisBroken, P, T, callee_of, callee_short, cond_atoms, loc_of, strip, forward, block_path, walk
from engine.kinds import LockFlow, FactFlow, CountFlow, check_guarded, always_followed_by, precedes_on_all_paths
from .common import facts, lib, driver, witness, local_init

EXPLANATION = (
    "Static analysis of the current source (clang CFG of every listed function, all paths). Decided: owner_id_ is "
    "only touched under mtx_ (R1); a mutex is taken only after it was seen free with no lock release in between, "
    "and released only by its owner (R2); unlock clears the owner and then notifies exactly once (R3); try_lock* "
    "return true exactly on paths that took ownership (R4); both spinlocks acquire by an atomic exchange with "
    ">=acquire and release by a store with >=release, and lock() returns only after a successful acquisition (R5); "
    "recursive_mutex_impl takes/drops the inner mutex only at recursion depth 0->1 / 1->0 and enters the fast path "
    "only for the owning context (R6); lock types are neither copyable nor movable (R7, compile-time witnesses). "
    "Not decided: hand-off liveness under all schedules, fairness, visibility beyond the memory orders checked.")
ASSUMPTIONS = ["clang's CFG (with implicit destructors) is a faithful over-approximation of the control flow",
               "the lock idioms in engine/kinds.py are the only ways these functions acquire or release mtx_",
               "detail::condition_variable::wait*/notify_one behave as decided under C02/C07"]
THOROUGH_CONFIGS = [["-UNDEBUG", "-DPIKA_DEBUG"]]
FLOORS = {"C06.R1": 8, "C06.R2": 4, "C06.R3": 2, "C06.R4": 4, "C06.R5": 6, "C06.R6": 6, "C06.R7": 5, "C06.R8": 6, "C06.R9": 6, "C06.R10": 2}

INVALID = "pika::threads::detail::invalid_thread_id"
OWNER = "this->owner_id_"
FREE_ATOM = "%s == %s" % tuple(sorted([INVALID, OWNER]))
ACQ = {"memory_order_acquire", "memory_order_acq_rel", "memory_order_seq_cst"}
REL = {"memory_order_release", "memory_order_acq_rel", "memory_order_seq_cst"}


def owner_writes(fn):
    """(b, i, ev, rhs_text) for assignments to owner_id_."""
    out = []
    for b, i, ev in fn.all_events():
        if ev.get("k") == "call" and ev.get("op") == "=" and ev.get("recv") is not None and P(ev["recv"]) == OWNER:
            out.append((b, i, ev, P(ev["args"][0])))
        elif ev.get("k") == "write" and P(ev["lhs"]) == OWNER:
            out.append((b, i, ev, P(ev["rhs"])))
        elif ev.get("k") == "call" and callee_of(ev) in ("std::exchange", "std::swap") and ev.get("args") and P(ev["args"][0]) == OWNER:
            # std::exchange(owner_id_, v) writes v; std::swap writes the other operand
            out.append((b, i, ev, P(ev["args"][1]) if len(ev["args"]) > 1 else "?"))
        elif ev.get("k") == "call" and callee_short(ev) in ("swap", "reset") and ev.get("recv") is not None and P(ev["recv"]) == OWNER:
            out.append((b, i, ev, INVALID if callee_short(ev) == "reset" else "?"))
    return out


def mo_of(ev, default="memory_order_seq_cst"):
    mos = ev.get("mo") or []
    return mos[0] if mos else default


def run(rep, tier):
    rep.rule("C06.R1", "K1: mutex::owner_id_ is read/written only while mtx_ is held")
    rep.rule("C06.R2", "K4: owner_id_ = self only after owner_id_ == invalid was observed with no release of mtx_ in "
                       "between; owner_id_ = invalid only after owner_id_ == self was observed")
    rep.rule("C06.R3", "K2/K3: unlock: after clearing the owner exactly one cond_.notify_one(std::move(l)) on every path")
    rep.rule("C06.R4", "K7: try_lock/try_lock_until return true iff the path wrote owner_id_")
    rep.rule("C06.R5", "K5: spinlocks acquire by exchange(true, >=acquire), release by store(false, >=release); "
                       "lock() returns only through a successful acquisition")
    rep.rule("C06.R6", "K4: recursive_mutex_impl: inner mutex taken before owner/recursion are set, released only at depth 0")
    rep.rule("C06.R7", "K9: lock types are neither copyable nor movable")
    rep.rule("C06.R10", "K2 (the hand-off survives an exceptional exit): unlock() spends its single notify_one on the first waiter. The wait inside lock() / try_lock_until() can be "
             "left by an exception (interruption is delivered when the waiter is resumed), after the waiter has already been taken off the queue: every wait of the two functions "
             "sits in a try block, and its handler reaches the rethrow only after notify_one or on the branch where the mutex was seen owned - otherwise the notification dies with "
             "the interrupted waiter and the next task blocked in lock() sleeps on a free mutex")
    rep.rule("C06.R9", "K2/K3 (shared with C02.R1/R2, C07.R5): the internal condition variable behind lock()/try_lock_until()/unlock(): a locker is queued while the "
                       "internal lock is held, before it is released, before the task suspends; the timeout/signaled result is read with the lock re-acquired; "
                       "notify_one resumes the dequeued waiter exactly once - otherwise an unlock's single wake-up is swallowed or lost")
    rep.rule("C06.R8", "K4/K7: mutex::lock refuses exactly when the caller already owns the mutex (no wait, no acquisition on that "
                       "edge; every other give-up is an error reported by the wait); every turn of its owner loop parks in "
                       "cond_.wait; timed_mutex::try_lock_until gives up after its wait only on timeout, error or a mutex "
                       "re-observed as owned - a wake-up that found the mutex free is never swallowed")

    F = facts(rep, lib("synchronization", "src/mutex.cpp"), [r"^pika::(mutex|timed_mutex)::"], [r"^pika::mutex$"])
    names = ["pika::mutex::lock", "pika::mutex::try_lock", "pika::mutex::unlock", "pika::timed_mutex::try_lock_until"]
    fns = {}
    for n in names:
        cands = [f for f in F.find("^" + n + "$") if f.file.endswith("mutex.cpp")]
        if len(cands) != 1:
            raise AnalysisBroken("expected exactly one definition of %s in mutex.cpp, found %d" % (n, len(cands)))
        fns[n] = cands[0]

    # any other function of the TU that touches owner_id_ must be in the table
    # (a helper or local lambda that pikafacts spliced into a table function is read there, in place)
    spliced = set(str(x.get("callee")) for n in names for x in (fns[n].raw.get("inlined") or []))
    for f in F.fns:
        if f.qname not in names and f.qname not in spliced and f.kind not in ("ctor", "dtor"):
            if any(ev.get("k") == "read" and ev["e"].get("name") == "owner_id_" for _, _, ev in f.all_events()):
                raise AnalysisBroken("function %s accesses owner_id_ but is not in the C06 table" % f.qname)

    for n, fn in fns.items():
        lf = LockFlow(fn)
        # R1
        got = check_guarded(rep, "C06.R1", fn, "pika::mutex", "owner_id_", lockfield="mtx_", flow=lf)
        if got == 0:
            raise AnalysisBroken("%s does not access owner_id_" % n)
        # R2
        rel = lf.release_events

        def kill(ev, pos, rel=rel):
            if pos in rel:
                return lambda atom: "owner_id_" in atom
            return None
        ff = FactFlow(fn, kill=kill)
        for b, i, ev, rhs in owner_writes(fn):
            fb = ff.facts_before((b, i))
            if fb is None:
                continue
            if rhs == INVALID:
                selfvars = [a for a, t in fb if t and a.startswith(OWNER + " == ") or a.endswith(" == " + OWNER)]
                need = [(a, t) for a, t in fb if t and "owner_id_" in a and a != FREE_ATOM and "==" in a]
                if need:
                    rep.ok("C06.R2", fn, "owner cleared at %s only after %s" % (loc_of(ev), need[0][0]))
                else:
                    rep.bad("C06.R2", fn, loc_of(ev), "clear-owner", "owner_id_ is cleared on a path where the caller was "
                            "not established to be the owner (facts: %s)" % sorted(fb),
                            path=[{"block": x} for x in block_path(fn, b)])
            else:
                if (FREE_ATOM, True) in fb:
                    rep.ok("C06.R2", fn, "ownership taken at %s only after the mutex was seen free under the same "
                           "critical section" % loc_of(ev))
                else:
                    rep.bad("C06.R2", fn, loc_of(ev), "take-owner",
                            "owner_id_ = %s is reachable without a preceding test owner_id_ == invalid_thread_id that is "
                            "still valid (lock released or never tested); facts here: %s" % (rhs, sorted(fb)),
                            path=[{"block": x} for x in block_path(fn, b)])

    # R3: unlock
    fn = fns["pika::mutex::unlock"]
    clears = [(b, i) for b, i, ev, rhs in owner_writes(fn) if rhs == INVALID]
    if not clears:
        rep.bad("C06.R3", fn, fn.loc, "owner-not-cleared", "mutex::unlock() never clears owner_id_: the mutex stays owned, every later lock() blocks")
        clears = None
    elif len(clears) != 1:
        raise AnalysisBroken("mutex::unlock: expected one owner_id_ = invalid, found %d" % len(clears))

    def is_notify(ev):
        return ev.get("k") == "call" and callee_short(ev) == "notify_one" and ev.get("recv") is not None and \
            P(ev["recv"]) == "this->cond_"
    missing = always_followed_by(fn, clears[0], is_notify) if clears else None
    if clears is None:
        pass
    elif missing:
        rep.bad("C06.R3", fn, fn.loc, "notify-missing", "a path from owner_id_ = invalid reaches the end of unlock() without "
                "cond_.notify_one: a blocked lock() is never woken (unlock lost)", path=[{"pos": list(p)} for p in missing])
    else:
        rep.ok("C06.R3", fn, "every path after clearing the owner passes cond_.notify_one")
    cf = CountFlow(fn, lambda ev, pos: 1 if is_notify(ev) else 0)
    if not cf.exits <= {0, 1}:
        rep.bad("C06.R3", fn, fn.loc, "notify-twice", "cond_.notify_one may run more than once in unlock(): %s" % sorted(cf.exits))
    else:
        rep.ok("C06.R3", fn, "notify_one runs at most once (exit counts %s)" % sorted(cf.exits))
    for b, i, ev in fn.all_events():
        if is_notify(ev):
            from engine.core import is_moved
            if not (ev.get("args") and is_moved(ev["args"][0])):
                rep.bad("C06.R3", fn, loc_of(ev), "notify-lock-not-moved", "notify_one must consume the held lock (std::move(l))")

    # R4: return values of try_lock*
    for n in ("pika::mutex::try_lock", "pika::timed_mutex::try_lock_until"):
        fn = fns[n]
        wr = set((b, i) for b, i, ev, rhs in owner_writes(fn) if rhs != INVALID)

        def tr(st, ev, pos, wr=wr):
            return st | {"w"} if pos in wr else st
        before, _, _ = forward(fn, frozenset(), tr, None, lambda a, b: a | b | ({"mixed"} if a != b else set()))
        must_before, _, _ = forward(fn, frozenset(), tr, None, lambda a, b: a & b)
        rets = [(b, i, ev) for b, i, ev in fn.all_events() if ev.get("k") == "return"]
        if not rets:
            raise AnalysisBroken("%s has no return" % n)
        for b, i, ev in rets:
            if (b, i) not in before:
                continue
            val = strip(ev.get("e"))
            v = val.get("v") if isinstance(val, dict) and val.get("k") == "lit" else None
            if v is True:
                if "w" in must_before[(b, i)]:
                    rep.ok("C06.R4", fn, "return true at %s only after owner_id_ was taken" % loc_of(ev))
                else:
                    rep.bad("C06.R4", fn, loc_of(ev), "true-without-acquire", "returns true on a path that did not take ownership")
            elif v is False:
                if "w" in before[(b, i)]:
                    rep.bad("C06.R4", fn, loc_of(ev), "false-after-acquire", "returns false on a path that took ownership")
                else:
                    rep.ok("C06.R4", fn, "return false at %s leaves owner_id_ untouched" % loc_of(ev))
            else:
                raise AnalysisBroken("%s returns a non-literal (%s): rule C06.R4 needs updating" % (n, T(val)))

    misuse_and_wait_rules(rep, fns)

    # R9: the internal condition variable the mutexes block on (anchor file of C06; the same rules decide C02.R1/R2 and C07.R5)
    from . import cvdetail
    CVF = cvdetail.load(rep)
    cvdetail.wait_rules(rep, "C06.R9", CVF)
    cvdetail.notify_rules(rep, "C06.R9", CVF)

    # R5/R6: header-only lock types through the driver
    D = facts(rep, driver("c06_mutex.cpp"),
              [r"^pika::concurrency::detail::spinlock::", r"^pika::detail::spinlock::", r"^pika::detail::recursive_mutex_impl::"])
    spin_rules(rep, D)
    recursive_rules(rep, D)

    n, failed = witness(rep, "C06.R7", driver("../witness/C06.cpp"))
    for _ in range(n - failed):
        rep.ok("C06.R7", "witness:C06.cpp", "static_assert holds")


def misuse_and_wait_rules(rep, fns):
    """C06.R8 - see the rule text."""
    from engine.kinds import loop_of, on_every_cycle
    lk = fns["pika::mutex::lock"]
    tlu = fns["pika::timed_mutex::try_lock_until"]

    def self_vars(fn):
        """locals holding the caller's id: initialised from get_self_id(), or copies / references of such a local"""
        vs = set()
        changed = True
        while changed:
            changed = False
            for _, _, ev in fn.all_events():
                if ev.get("k") != "decl" or ev.get("init") is None or ev["var"] in vs:
                    continue
                i0 = strip(ev["init"])
                if (i0.get("k") == "call" and callee_short(i0) == "get_self_id") or (i0.get("k") == "var" and i0.get("name") in vs):
                    vs.add(ev["var"])
                    changed = True
        if not vs:
            raise AnalysisBroken("%s: the local holding get_self_id() not found" % fn.qname)
        return vs

    def is_wait(ev):
        return ev.get("k") == "call" and ev.get("recv") is not None and P(ev["recv"]) == "this->cond_" and \
            callee_short(ev) in ("wait", "wait_until", "wait_for")

    # --- lock(): refusal <=> owner == self.  "owner == self" cannot change while the caller is inside lock() (only the
    # caller itself ever writes its own id), so the fact is not killed by the wait's release of mtx_.
    svs = self_vars(lk)
    own_atoms = set("%s == %s" % tuple(sorted([sv, OWNER])) for sv in svs)

    def own(fb, truth):
        return any((a, truth) in fb for a in own_atoms)
    ff = FactFlow(lk)
    writes = set((b, i) for b, i, ev, rhs in owner_writes(lk) if rhs != INVALID)
    n = 0
    for b, i, ev in lk.all_events():
        fb = ff.before.get((b, i))
        if fb is None:
            continue
        refusal = ev.get("k") == "call" and callee_short(ev) in ("throws_if", "throw_exception") or (ev.get("k") == "throw" and ev.get("e") is not None)      # 'throw;' re-raises somebody else's exception
        if refusal:
            n += 1
            if own(fb, True):
                rep.ok("C06.R8", lk, "the deadlock refusal at %s is raised only when owner_id_ == caller" % loc_of(ev))
            else:
                rep.bad("C06.R8", lk, loc_of(ev), "refusal-not-owner", "lock() reports an error on a path where the caller was not "
                        "established to be the owner (facts: %s): ordinary lockers are refused / a re-lock is not detected" % sorted(fb))
        if is_wait(ev) or (b, i) in writes:
            n += 1
            if own(fb, False):
                rep.ok("C06.R8", lk, "%s at %s only after owner_id_ != caller was established" % ("wait" if is_wait(ev) else "acquisition", loc_of(ev)))
            else:
                rep.bad("C06.R8", lk, loc_of(ev), "relock-not-refused:" + ("wait" if is_wait(ev) else "acquire"),
                        "lock() %s without having excluded that the caller already owns the mutex (re-locking is not "
                        "reported; the caller waits for itself)" % ("waits" if is_wait(ev) else "takes ownership"))
    if n < 2:
        raise AnalysisBroken("mutex::lock: refusal / acquisition sites not found (%d)" % n)
    # every normal return without acquisition: owner == self (refused) or the wait reported an error
    must_w, _, must_w_out = forward(lk, frozenset(), lambda st, ev, pos: st | {"w"} if pos in writes else st, None, lambda a, b: a & b)
    exits = [(b, i, ev, ff.before.get((b, i)), must_w.get((b, i))) for b, i, ev in lk.all_events() if ev.get("k") == "return"]
    # falling off the end of the function is an exit as well
    for bid, blk in lk.blocks.items():
        if any(t == lk.exit for _, t in lk.succs(bid)) and not any(e.get("k") in ("return", "throw") for e in blk.events) and not blk.term.get("noreturn") and bid in ff.block_out:
            exits.append((bid, len(blk.events), {"loc": blk.events[-1].get("loc") if blk.events else lk.loc}, ff.block_out[bid], must_w_out.get(bid)))
    for b, i, ev, fb, mw in exits:
        if fb is None or "w" in (mw or ()):
            continue
        if own(fb, True) or any(t and a.split(".")[0] in ("ec",) or (t and re.match(r"^\w+$", a) and a not in svs and "owner" not in a) for a, t in fb):
            rep.ok("C06.R8", lk, "lock() returns without the mutex at %s only after a refusal or an error of the wait" % loc_of(ev))
        else:
            rep.bad("C06.R8", lk, loc_of(ev), "return-without-lock", "lock() returns normally without owning the mutex and without an error "
                    "(facts: %s)" % sorted(fb))
    # every turn of the owner loop parks
    hdr = [bid for bid, blk in lk.blocks.items() if blk.cond is not None and FREE_ATOM in [a for a, _ in
           __import__("engine.kinds", fromlist=["implied_facts"]).implied_facts(blk.cond, True) |
           __import__("engine.kinds", fromlist=["implied_facts"]).implied_facts(blk.cond, False)] and loop_of(lk, bid)]
    if not hdr:
        rep.bad("C06.R8", lk, lk.loc, "no-owner-loop", "lock() has no loop that re-tests owner_id_ == invalid after a wake-up")
    for h in hdr:
        loop = loop_of(lk, h)
        wb = [bid for bid in loop if any(is_wait(e) for e in lk.blocks[bid].events)]
        rest = set(loop) - set(wb)
        # a cycle through the header that avoids every waiting block?
        ok = True
        if not wb:
            ok = False
        else:
            seen, stack = set(), [t for _, t in lk.succs(h) if t in rest]
            while stack:
                v = stack.pop()
                if v == h:
                    ok = False
                    break
                if v in seen:
                    continue
                seen.add(v)
                stack += [t for _, t in lk.succs(v) if t in rest or t == h]
        if ok:
            rep.ok("C06.R8", lk, "every turn of the owner loop passes cond_.wait (the internal lock is released while waiting)")
        else:
            rep.bad("C06.R8", lk, lk.blocks[h].events[-1].get("loc", lk.loc) if lk.blocks[h].events else lk.loc, "spin-holding-lock",
                    "the loop that waits for owner_id_ == invalid can turn without cond_.wait: it spins while holding the "
                    "internal spinlock, which unlock() needs")

    # ---- R10: exceptional exit from the wait
    for fn10 in (lk, tlu):
        short10 = fn10.qname.rsplit("::", 1)[-1]
        ws10 = [(b, i, e) for b, i, e in fn10.all_events() if e.get("k") == "call" and callee_short(e) in ("wait", "wait_until") and e.get("recv") is not None and P(e["recv"]) == "this->cond_"]
        if not ws10:
            raise AnalysisBroken("%s: wait on cond_ not found" % short10)
        rethrows = [(b, i, e) for b, i, e in fn10.all_events() if e.get("k") == "throw" and e.get("e") is None]
        for b, i, e in ws10:
            if "try" not in e or not rethrows:
                rep.bad("C06.R10", fn10, loc_of(e), "exception-drops-handoff:" + short10, "%s waits on cond_ outside a try block: when the wait is left by an exception after unlock() has already "
                        "notified this waiter (thread::interrupt() between the notification and the waiter's resumption), the hand-off is not passed on - the next task blocked in "
                        "lock() stays blocked although the mutex is free" % short10)
                continue

            def seen_owned(blk, raw, fn10=fn10):
                if blk.cond is None:
                    return False
                from engine.kinds import expand_locals as _xl10
                a, pos = cond_atoms(_xl10(fn10, blk.cond))       # 'bool const free = owner_id_ == invalid; if (free)' reads like the direct test
                if "owner_id_" not in a or "invalid_thread_id" not in a:
                    return False
                eq = "==" in a
                # the branch on which owner_id_ != invalid (the mutex is owned: its owner's unlock will notify)
                return raw.get("label") == (("false" if pos else "true") if eq else ("true" if pos else "false"))
            is_wait10 = lambda x: x.get("k") == "call" and callee_short(x) in ("wait", "wait_until") and x.get("recv") is not None and P(x["recv"]) == "this->cond_"
            is_ntf10 = lambda x: x.get("k") == "call" and callee_short(x) == "notify_one" and x.get("recv") is not None and P(x["recv"]) == "this->cond_"

            def tr10(st, x, pos):
                if is_wait10(x):
                    return False              # what was known about the owner before the wait is stale: the wait released the internal lock
                return True if is_ntf10(x) else st
            from engine.core import forward as _fw10
            bef10, _, _ = _fw10(fn10, False, tr10, None, lambda a_, b_: a_ and b_, eh=True, edge_raw=lambda st, blk, raw: True if seen_owned(blk, raw) else st,
                                handler_entry=lambda st, x: False if is_wait10(x) else st)
            okh = all(bef10.get((tb, ti)) for tb, ti, _ in rethrows)
            if okh:
                rep.ok("C06.R10", fn10, "%s: the handler around the wait passes the hand-off on (notify_one when the mutex is free) before it rethrows" % short10)
            else:
                rep.bad("C06.R10", fn10, loc_of(rethrows[0][2]), "exception-drops-handoff:" + short10, "%s rethrows from the handler around its wait on a path where the mutex was not seen owned and "
                        "notify_one was not called: the hand-off of an unlock() that had already notified this waiter is lost" % short10)

    # --- try_lock_until: a 'false' after the wait needs a reason.  Evaluated: from the wait on, with "no timeout, no error,
    # mutex seen free" every path ends in 'return true' (any shape of the tests: separate ifs, one merged condition,
    # bool locals); with "timeout" or "still owned" no path takes ownership without having seen the mutex free (R2/R4).
    from engine.kinds import eval_walk, cond_leaves, expand_locals, eval_tree, Unknown
    from engine.core import subexprs
    waits = [(b, i) for b, i, ev in tlu.all_events() if is_wait(ev)]
    if len(waits) != 1:
        raise AnalysisBroken("timed_mutex::try_lock_until: expected one timed wait, found %d" % len(waits))
    env = {}
    kinds_seen = set()

    def classify(atom):
        if atom == FREE_ATOM:
            return "free", True
        if "timeout" in atom and "==" in atom:
            return "timeout", False
        if re.match(r"^\w+(\.operator bool\(\))?$", atom):
            return "flag", False       # error_code / plain flags: no error
        return None, None
    bools = {}
    for _, _, ev in tlu.all_events():
        if ev.get("k") == "decl" and ev.get("init") is not None and "bool" in str(ev.get("type", "")):
            bools[ev["var"]] = cond_atoms(expand_locals(tlu, ev["init"]))
    for bid, blk in tlu.blocks.items():
        if blk.cond is None:
            continue
        atom, pos = cond_atoms(blk.cond)
        if atom in bools:
            k, v = classify(bools[atom][0])
            if k:
                kinds_seen.add(k)
                env[atom] = (v == bools[atom][1])
                continue
        k, v = classify(atom)
        if k:
            kinds_seen.add(k)
            env[atom] = v
    if not {"free", "timeout"} <= kinds_seen:
        raise AnalysisBroken("timed_mutex::try_lock_until: tests of the wait result / the owner after the wait not found (%s)" % sorted(env))
    res = eval_walk(tlu, waits[0][0], atom_env=env)
    for evs, end in res:
        if not any((b, i) == waits[0] for b, i, _ in evs):
            continue
        last = evs[-1][2] if evs else None
        if end == "return" and last is not None and last.get("e") is not None:
            v = strip(last["e"])
            val = None
            if v.get("k") == "lit":
                val = v.get("v")
            else:
                try:
                    val = bool(eval_tree(expand_locals(tlu, last["e"]), {}))
                except Unknown:
                    at, pos = cond_atoms(expand_locals(tlu, last["e"]))
                    val = (env[at] == pos) if at in env else None
            if val is True:
                rep.ok("C06.R8", tlu, "a wake-up before the deadline that finds the mutex free ends in 'return true' (%s)" % loc_of(last))
            elif val is False:
                rep.bad("C06.R8", tlu, loc_of(last), "wakeup-swallowed", "try_lock_until returns false after its wait although the wait did not "
                        "time out, reported no error and the mutex is free: the unlock that woke this waiter is lost for the other "
                        "blocked lockers", path=[{"block": b} for b, _, _ in evs][:40])
            else:
                raise AnalysisBroken("timed_mutex::try_lock_until: returned expression %s not decided" % T(last["e"]))
        elif end in ("loop", "limit"):
            rep.ok("C06.R8", tlu, "re-waits (loop) when woken without the mutex")
        elif end == "exit":
            raise AnalysisBroken("timed_mutex::try_lock_until: path without a return value")


def exchange_calls(fn, field):
    return [(b, i, ev) for b, i, ev in fn.all_events()
            if ev.get("k") == "call" and callee_short(ev) == "exchange" and ev.get("recv") is not None and P(ev["recv"]) == field]


def store_calls(fn, field):
    return [(b, i, ev) for b, i, ev in fn.all_events()
            if ev.get("k") == "call" and callee_short(ev) in ("store", "operator=") and ev.get("recv") is not None
            and P(ev["recv"]) == field]


def conjuncts(e):
    e = strip(e)
    if isinstance(e, dict) and e.get("k") == "bin" and e["op"] == "&&":
        return conjuncts(e["l"]) + conjuncts(e["r"])
    return [e]


def spin_rules(rep, D):
    one = lambda q: D.one("^" + q + "$", pattern=False)[0]
    from engine.kinds import guarded_returns, expand_locals
    # --- pika::concurrency::detail::spinlock, read with its private helpers (acquire_lock / relinquish_lock / is_locked)
    # in place: the rules are about the entry points lock / try_lock / unlock and hold whether or not the helpers exist
    SP = "pika::concurrency::detail::spinlock"
    DF = facts(rep, driver("c06_mutex.cpp"), [r"^pika::concurrency::detail::spinlock::", r"^pika::detail::spinlock::", r"^pika::detail::recursive_mutex_impl::"],
               flatten=[r"^pika::concurrency::detail::spinlock::(acquire_lock|relinquish_lock)$"])
    onef = lambda q: DF.one("^" + q + "$", pattern=False)[0]
    lk, tl, unl = onef(SP + "::lock"), onef(SP + "::try_lock"), onef(SP + "::unlock")
    for f in (lk, tl, unl):
        if f.calls(r"::(acquire_lock|relinquish_lock)$"):
            raise AnalysisBroken("%s: helper could not be flattened" % f.qname)
    acq_atom = lambda a: a.startswith("this->v_.exchange(true")
    # acquisition: v_.exchange(true, >=acquire), success iff it returned false
    for f in (lk, tl):
        xs = exchange_calls(f, "this->v_")
        if len(xs) != 1:
            raise AnalysisBroken("%s: expected one v_.exchange, found %d" % (f.qname, len(xs)))
        ev = xs[0][2]
        if T(ev["args"][0]) == "true" and mo_of(ev) in ACQ:
            rep.ok("C06.R5", f, "acquisition attempt is v_.exchange(true, %s)" % mo_of(ev))
        else:
            rep.bad("C06.R5", f, loc_of(ev), "acquire", "acquisition must be v_.exchange(true, >=acquire) (found value %s, order %s)" % (T(ev["args"][0]), mo_of(ev)))
    ss = store_calls(unl, "this->v_")
    if len(ss) != 1:
        if not ss:
            rep.bad("C06.R5", unl, unl.loc, "unlock-no-release", "unlock() does not release")
        else:
            raise AnalysisBroken("spinlock::unlock: expected one v_.store")
    else:
        ev = ss[0][2]
        cf = CountFlow(unl, lambda e, pos: 1 if e is ev else 0)
        if T(ev["args"][0]) == "false" and mo_of(ev) in REL and cf.exits == frozenset([1]):
            rep.ok("C06.R5", unl, "unlock() releases with v_.store(false, %s) on every path" % mo_of(ev))
        else:
            rep.bad("C06.R5", unl, loc_of(ev), "release", "release must be v_.store(false, >=release) on every path of unlock(); found %s, %s, count %s" % (T(ev["args"][0]), mo_of(ev), sorted(cf.exits)))
    for f in DF.find(r"^pika::concurrency::detail::spinlock::", pattern=False):
        if f in (lk, tl, unl) or f.kind in ("ctor", "dtor"):
            continue
        for b, i, ev in f.all_events():
            if ev.get("k") == "call" and ev.get("recv") is not None and P(ev["recv"]) == "this->v_" and \
                    callee_short(ev) not in ("load",):
                rep.bad("C06.R5", f, loc_of(ev), "v_-modified:" + callee_short(ev), "v_ modified outside lock/try_lock/unlock")
    ff = FactFlow(lk)
    st = ff.block_in.get(lk.exit)
    if st is None:
        raise AnalysisBroken("spinlock::lock has no reachable exit")
    if any(acq_atom(a) and not t for a, t in st):
        rep.ok("C06.R5", lk, "lock() leaves only through the edge on which v_.exchange(true) returned false (lock was free)")
    else:
        rep.bad("C06.R5", lk, lk.loc, "lock-exit", "lock() can return without a successful acquisition")
    ff = FactFlow(tl)
    for b, i, ev in tl.all_events():
        if ev.get("k") != "return" or (b, i) not in ff.before:
            continue
        for leaf, fb, _ in [g for g in guarded_returns(tl, ff) if g[2] is ev]:
            v = strip(leaf)
            if v.get("k") == "lit" and v.get("v") is True:
                if any(acq_atom(a) and not t for a, t in fb):
                    rep.ok("C06.R5", tl, "try_lock returns true only when the exchange found the lock free")
                else:
                    rep.bad("C06.R5", tl, loc_of(ev), "try-true", "try_lock returns true without a successful acquisition")
            elif v.get("k") == "lit" and v.get("v") is False:
                pass
            else:
                a, pos = cond_atoms(expand_locals(tl, leaf))
                if acq_atom(a) and not pos:
                    rep.ok("C06.R5", tl, "try_lock returns !v_.exchange(true)")
                else:
                    rep.bad("C06.R5", tl, loc_of(ev), "try-value", "try_lock returns %s, which is not the outcome of the acquisition" % T(leaf))

    # --- pika::detail::spinlock (thread_support)
    tl = one("pika::detail::spinlock::try_lock")
    rets = [e for _, _, e in tl.all_events() if e.get("k") == "return"]
    if len(rets) != 1:
        raise AnalysisBroken("pika::detail::spinlock::try_lock: expected a single return")
    cj = conjuncts(rets[0]["e"])
    good = False
    for c in cj:
        a, pos = cond_atoms(c)
        c0 = strip(c)
        xs = []
        walk(c, lambda x: xs.append(x) if x.get("k") == "call" and callee_short(x) == "exchange" else None)
        if xs and not pos and a == T(xs[0]) and P(xs[0].get("recv")) == "this->m" and T(xs[0]["args"][0]) == "true" \
                and mo_of(xs[0]) in ACQ:
            good = True
    if good:
        rep.ok("C06.R5", tl, "try_lock is true only if !m.exchange(true, >=acquire)")
    else:
        rep.bad("C06.R5", tl, loc_of(rets[0]), "try-lock", "try_lock's result is not implied by a successful atomic exchange(true, >=acquire): %s" % T(rets[0]["e"]))
    lk = one("pika::detail::spinlock::lock")
    ff = FactFlow(lk)
    st = ff.block_in.get(lk.exit)
    if st is None:
        raise AnalysisBroken("pika::detail::spinlock::lock has no reachable exit")
    if ("this->try_lock()", True) in st:
        rep.ok("C06.R5", lk, "lock() leaves only after try_lock() returned true")
    else:
        rep.bad("C06.R5", lk, lk.loc, "lock-exit", "lock() can return without try_lock() having succeeded")
    unl = one("pika::detail::spinlock::unlock")
    ss = store_calls(unl, "this->m")
    if len(ss) == 1 and T(ss[0][2]["args"][0]) == "false" and mo_of(ss[0][2]) in REL:
        rep.ok("C06.R5", unl, "unlock is m.store(false, %s)" % mo_of(ss[0][2]))
    else:
        rep.bad("C06.R5", unl, unl.loc, "release", "unlock must be m.store(false, >=release)")


def recursive_rules(rep, D):
    one = lambda q: D.one("^pika::detail::recursive_mutex_impl::" + q + "$", pattern=False)[0]

    def is_set_owner(ev):
        return ev.get("k") == "call" and ev.get("recv") is not None and (
            (P(ev["recv"]) == "this->locking_context" and callee_short(ev) in ("exchange", "store")) or
            (P(ev["recv"]) == "this->recursion_count" and callee_short(ev) in ("store", "exchange")))
    # lock
    lk = one("lock")
    ff = FactFlow(lk)
    sets = [(b, i, ev) for b, i, ev in lk.all_events() if is_set_owner(ev)]
    inner = [(b, i) for b, i, ev in lk.all_events() if ev.get("k") == "call" and callee_short(ev) == "lock" and
             ev.get("recv") is not None and P(ev["recv"]) == "this->mtx"]
    if not inner and not sets:
        raise AnalysisBroken("recursive_mutex_impl::lock: neither mtx.lock() nor the owner updates found")
    from engine.kinds import always_followed_by as afb
    for fld in ("this->locking_context", "this->recursion_count"):
        for pos in inner:
            miss = afb(lk, pos, lambda e, fld=fld: is_set_owner(e) and P(e["recv"]) == fld)
            if miss:
                rep.bad("C06.R6", lk, lk.loc, "lock:missing:" + fld, "after taking the inner mutex lock() can return without setting %s: the "
                        "owner is not recorded (the next lock() of the owner blocks on itself / unlock() never reaches depth 0)" % fld)
            else:
                rep.ok("C06.R6", lk, "%s is set on every path after mtx.lock()" % fld)
    from engine.kinds import precedes_on_all_paths
    for b, i, ev in sets:
        fb = ff.before.get((b, i))
        if fb is None:
            continue
        slow = any(a.startswith("this->try_recursive_lock(") and t is False for a, t in fb)
        locked = precedes_on_all_paths(lk, lambda e: e.get("k") == "call" and callee_short(e) == "lock" and
                                       e.get("recv") is not None and P(e["recv"]) == "this->mtx", (b, i))
        if slow and locked:
            rep.ok("C06.R6", lk, "%s at %s only after mtx.lock() on the non-recursive path" % (T(ev), loc_of(ev)))
        else:
            rep.bad("C06.R6", lk, loc_of(ev), "lock:" + P(ev["recv"]), "%s is reachable without mtx.lock() having been "
                    "taken on the slow path (slow=%s, locked=%s)" % (T(ev), slow, locked))
    # try_basic_lock
    tb = one("try_basic_lock")
    ff = FactFlow(tb)
    for b, i, ev in tb.all_events():
        fb = ff.before.get((b, i))
        if fb is None:
            continue
        got = ("this->mtx.try_lock()", True) in fb
        if is_set_owner(ev):
            if got:
                rep.ok("C06.R6", tb, "%s only after mtx.try_lock() succeeded" % T(ev))
            else:
                rep.bad("C06.R6", tb, loc_of(ev), "try_basic:" + P(ev["recv"]), "%s without a successful mtx.try_lock()" % T(ev))
        if ev.get("k") == "return":
            v = strip(ev["e"])
            if v.get("k") == "lit" and v.get("v") is True and not got:
                rep.bad("C06.R6", tb, loc_of(ev), "try_basic:true", "returns true without holding the inner mutex")
            elif v.get("k") == "lit" and v.get("v") is True:
                rep.ok("C06.R6", tb, "returns true only with the inner mutex held")
            elif v.get("k") == "lit" and v.get("v") is False and got:
                rep.bad("C06.R6", tb, loc_of(ev), "try_basic:false", "returns false while holding the inner mutex")
    # try_recursive_lock
    tr = one("try_recursive_lock")
    ff = FactFlow(tr)
    if len(tr.params) != 1:
        raise AnalysisBroken("try_recursive_lock: expected one parameter (the caller's context)")
    CTX = tr.params[0]["name"]          # the caller's context (the parameter's name is free)
    for b, i, ev in tr.all_events():
        fb = ff.before.get((b, i))
        if fb is None:
            continue
        own = any(t and "this->locking_context.load(" in a and re.search(r"(^|[^\w.>])%s($|[^\w])" % re.escape(CTX), a) and "==" in a for a, t in fb)
        if ev.get("k") == "return":
            v = strip(ev["e"])
            if v.get("k") == "lit" and v.get("v") is True:
                if own:
                    rep.ok("C06.R6", tr, "fast path only when locking_context == current context")
                else:
                    rep.bad("C06.R6", tr, loc_of(ev), "recursive:true", "recursive fast path taken without the owner test")
        if ev.get("k") == "call" and ev.get("op") in ("++",) and P(ev.get("recv")) == "this->recursion_count" and not own:
            rep.bad("C06.R6", tr, loc_of(ev), "recursive:count", "recursion_count incremented by a non-owner")
    # try_recursive_lock: the depth is raised exactly on the paths that report success
    incs = [(b, i) for b, i, ev in tr.all_events() if ev.get("k") == "call" and ev.get("op") in ("++", "+=") and
            P(ev.get("recv")) == "this->recursion_count" or ev.get("k") == "call" and callee_short(ev) in ("fetch_add",) and
            P(ev.get("recv")) == "this->recursion_count"]
    may_inc, _, _ = forward(tr, frozenset(), lambda st, ev, pos: st | {"inc"} if pos in incs else st, None, lambda a, b: a | b)
    must_inc, _, _ = forward(tr, frozenset(), lambda st, ev, pos: st | {"inc"} if pos in incs else st, None, lambda a, b: a & b)
    for b, i, ev in tr.all_events():
        if ev.get("k") != "return" or (b, i) not in may_inc:
            continue
        v = strip(ev["e"])
        if v.get("k") == "lit" and v.get("v") is False and "inc" in may_inc[(b, i)]:
            rep.bad("C06.R6", tr, loc_of(ev), "recursive:false-after-count", "try_recursive_lock reports failure after raising the "
                    "recursion depth: the caller goes on to the inner mutex (blocks on itself / fails) and the depth never returns to 0")
        elif v.get("k") == "lit" and v.get("v") is True and "inc" not in must_inc[(b, i)]:
            rep.bad("C06.R6", tr, loc_of(ev), "recursive:true-without-count", "try_recursive_lock reports success without raising the "
                    "recursion depth: the matching unlock() releases the mutex one level early")
        elif v.get("k") == "lit":
            rep.ok("C06.R6", tr, "return %s at %s agrees with the recursion depth update" % (v.get("v"), loc_of(ev)))
    # try_lock: succeeds iff the fast path or the inner try_lock succeeded
    from engine.kinds import eval_walk, eval_tree, Unknown, expand_locals
    from engine.core import subexprs
    tlk = one("try_lock")
    calls = {}
    for _, _, ev in tlk.all_events():
        if ev.get("k") == "call" and callee_short(ev) in ("try_recursive_lock", "try_basic_lock"):
            calls[callee_short(ev)] = T(ev)
    if set(calls) != {"try_recursive_lock", "try_basic_lock"}:
        raise AnalysisBroken("recursive_mutex_impl::try_lock: the two acquisition attempts not found (%s)" % sorted(calls))
    for r_ in (False, True):
        for b_ in (False, True):
            env = {calls["try_recursive_lock"]: r_, calls["try_basic_lock"]: b_}
            vals = set()
            for evs, end in eval_walk(tlk, tlk.entry, atom_env=env, tree_env=env):
                if end != "return" or evs[-1][2].get("e") is None:
                    continue
                if r_ and any(e.get("k") == "call" and callee_short(e) == "try_basic_lock" for _, _, e in evs) and False:
                    pass
                try:
                    vals.add(bool(eval_tree(evs[-1][2]["e"], env)))
                except Unknown:
                    try:
                        env2 = dict(env)
                        for c_ in subexprs(expand_locals(tlk, evs[-1][2]["e"]), lambda y: isinstance(y, dict) and y.get("k") == "call"):
                            if callee_short(c_) == "try_recursive_lock":
                                env2[T(c_)] = r_
                            elif callee_short(c_) == "try_basic_lock":
                                env2[T(c_)] = b_
                        vals.add(bool(eval_tree(expand_locals(tlk, evs[-1][2]["e"]), env2)))
                    except Unknown:
                        vals.add(None)
            if vals == {r_ or b_}:
                rep.ok("C06.R6", tlk, "try_lock() is %s when fast path=%s, inner try_lock=%s" % (r_ or b_, r_, b_))
            elif None in vals or not vals:
                raise AnalysisBroken("recursive_mutex_impl::try_lock: result not decided for fast path=%s inner=%s" % (r_, b_))
            else:
                rep.bad("C06.R6", tlk, tlk.loc, "try_lock:%s/%s" % (r_, b_), "try_lock() returns %s although the recursive fast path %s and "
                        "the inner try_lock %s" % (sorted(vals), "succeeded" if r_ else "failed", "succeeded" if b_ else "failed"))
    # unlock
    ul = one("unlock")
    ff = FactFlow(ul)
    unl = [(b, i, ev) for b, i, ev in ul.all_events()
           if ev.get("k") == "call" and callee_short(ev) == "unlock" and P(ev.get("recv")) == "this->mtx"]
    if not unl:
        rep.bad("C06.R6", ul, ul.loc, "unlock:never", "recursive_mutex_impl::unlock() never releases the inner mutex")
        return
    if len(unl) != 1:
        raise AnalysisBroken("recursive_mutex_impl::unlock: expected one mtx.unlock()")
    b, i, ev = unl[0]
    fb = ff.before[(b, i)]
    zero = ("--this->recursion_count == 0", True) in fb
    cleared = precedes_on_all_paths(ul, lambda e: e.get("k") == "call" and P(e.get("recv")) == "this->locking_context"
                                    and callee_short(e) in ("exchange", "store"), (b, i))
    if zero and cleared:
        rep.ok("C06.R6", ul, "mtx.unlock() only when --recursion_count == 0 and after clearing locking_context")
    else:
        rep.bad("C06.R6", ul, loc_of(ev), "unlock", "inner mutex released while recursion depth may be > 0 or before the "
                "owner context is cleared (depth-zero fact: %s, context cleared first: %s)" % (zero, cleared))
