# C15 — workers are pinned to distinct PUs inside the process mask (four structural clauses; DESIGN.md §5 C15)
import re
from engine import core
from engine.core import AnalysisBroken, P, T, callee_of, callee_short, cond_atoms, loc_of, strip, block_path
from engine.kinds import LockFlow, FactFlow, precedes_on_all_paths, always_followed_by, origin
from .common import facts, lib

EXPLANATION = (
    "Static analysis of the current source; the mapping topology x mask x mode x thread count -> PU is arithmetic over "
    "run-time topologies, so that two workers never share a PU is NOT decided. Decided: every distribution decoder "
    "checks the thread count against the process mask / the hardware before it assigns any affinity, and the check "
    "raises an error exactly when more threads than PUs are requested (R1); in every decoder the PU number recorded for "
    "a worker is computed from the same (core, pu) expressions as the affinity mask the worker is bound to, and the "
    "process mask is consulted (R2); a worker binds itself to the mask stored for its global thread number (the machine "
    "mask when that is empty = binding none), and workers are numbered thread_offset + index (R3); unless "
    "oversubscription is explicitly allowed, a PU is handed to a pool only if no pool holds it, and its occupancy count "
    "is incremented with the assignment (R4).")
ASSUMPTIONS = ["hwloc-based topology queries return consistent numbers", "pika::detail::throws_if throws unless the caller supplied an error_code"]
THOROUGH_CONFIGS = [["-UNDEBUG", "-DPIKA_DEBUG"]]
FLOORS = {"C15.R1": 6, "C15.R2": 4, "C15.R3": 8, "C15.R4": 4, "C15.R5": 8, "C15.R6": 4, "C15.R7": 2, "C15.R8": 3, "C15.R9": 3}

DEC = ["decode_compact_distribution", "decode_scatter_distribution", "decode_balanced_distribution", "decode_numabalanced_distribution"]


def _lin(e):
    """e as (storage text, constant offset): S, S + c, S - c; None for anything else."""
    e = strip(e)
    if not isinstance(e, dict):
        return None
    if e.get("k") == "bin" and e.get("op") in ("+", "-"):
        r = strip(e.get("r"))
        if isinstance(r, dict) and r.get("k") == "lit" and isinstance(r.get("v"), int):
            b = _lin(e.get("l"))
            if b:
                return (b[0], b[1] + (r["v"] if e["op"] == "+" else -r["v"]))
        return None
    if e.get("k") in ("var", "member") or (e.get("k") == "call" and e.get("op") == "[]"):
        return (P(e), 0)
    return None


def _base_var(e):
    e = strip(e)
    while isinstance(e, dict) and e.get("k") == "call" and e.get("op") == "[]":
        e = strip(e.get("recv"))
    return e.get("name") if isinstance(e, dict) and e.get("k") == "var" else None


def tested_index_rule(rep, f, d):
    """Value flow of 'the index that pu_in_process_mask just accepted' (see rule text C15.R5).
    State: set of (storage, offset): storage currently equals tested index + offset; ('?test', v): v holds
    the result of the last test.  Join = intersection."""
    from engine.core import forward
    PIM = "pika::detail::pu_in_process_mask"

    def is_pim(e):
        e = strip(e)
        return isinstance(e, dict) and e.get("k") == "call" and callee_of(e) == PIM and len(e.get("args", [])) == 4

    def kill(st, name):
        rx = re.compile(r"(?<![\w.>])%s(?![\w(])" % re.escape(name))
        return frozenset(x for x in st if x[0] == "?test" and x[1] != name or (x[0] != "?test" and not rx.search(x[0])))

    def is_false(e):
        e = strip(e)
        return isinstance(e, dict) and e.get("k") == "lit" and e.get("v") is False

    def tr(st, ev, pos):
        k = ev.get("k")
        if k not in ("write", "decl"):
            return st
        lhs = P(ev["lhs"]) if k == "write" else ev.get("var")
        rhs = ev.get("rhs") if k == "write" else ev.get("init")
        op = ev.get("op", "=") if k == "write" else "="
        # the test result travels: 'r = true' on a path where the current test variable is known true (a helper returning
        # its verdict), and plain copies 'u = r'
        if op == "=" and rhs is not None and not isinstance(st, tuple):
            tv_ = [v for tag, v in st if tag == "?test"]
            r0 = strip(rhs)
            if tv_ and isinstance(r0, dict) and r0.get("k") == "lit" and r0.get("v") is True and (tv_[0], True) in (ff.before.get(pos) or frozenset()):
                return frozenset(x for x in st if x[0] != "?test") | frozenset([("?test", lhs)])
            if tv_ and isinstance(r0, dict) and r0.get("k") == "var" and r0.get("name") == tv_[0]:
                return frozenset(x for x in st if x[0] != "?test") | frozenset([("?test", lhs)])
        if isinstance(st, tuple) and op == "=" and rhs is not None and isinstance(strip(rhs), dict) and strip(rhs).get("k") == "var" and strip(rhs).get("name") == st[1]:
            return ("TOP", lhs)
        if op == "=" and rhs is not None and is_false(rhs):
            # 'use = false': the invariant "use => storage == accepted index + offset" holds vacuously
            return ("TOP", lhs)
        if isinstance(st, tuple):
            if op == "=" and rhs is not None and is_pim(rhs):
                st = frozenset()
            elif lhs == st[1]:
                return frozenset()
            else:
                return st
        if op in ("++", "--"):
            dlt = 1 if op == "++" else -1
            moved = frozenset((x[0], x[1] + dlt) if x[0] == lhs else x for x in kill(st, lhs) | frozenset(x for x in st if x[0] == lhs))
            return moved
        if op != "=" or rhs is None:
            return kill(st, lhs)
        if is_pim(rhs):
            x = _lin(strip(rhs)["args"][3])
            if x and x[1] == 0:
                return frozenset([(x[0], 0), ("?test", lhs)])
            return frozenset()
        r = _lin(rhs)
        st2 = kill(st, lhs)
        if r:
            for s_, o in st:
                if s_ == r[0] and s_ != "?test":
                    st2 = st2 | frozenset([(lhs, o + r[1])])
        return st2

    def join(a, b):
        if isinstance(a, tuple) and isinstance(b, tuple):
            return a if a == b else frozenset()
        if isinstance(a, tuple):
            a, b = b, a
        if isinstance(b, tuple):
            return a if ("?test", b[1]) in a else frozenset()
        return a & b
    ff = FactFlow(f, eh=False)
    before, _, _ = forward(f, frozenset(), tr, None, join, eh=False)

    def accepted(e, pos):
        """Is expression e, evaluated at pos, an individually tested index?  Returns a reason or None."""
        fb = ff.before.get(pos) or frozenset()
        x = _lin(e)
        if x and x[1] == 0:
            for a, t in fb:
                if t and a.startswith("pu_in_process_mask(") and a.endswith("," + x[0] + ")"):
                    return "tested directly on this path"
        st = before.get(pos) or frozenset()
        if isinstance(st, tuple):
            st = frozenset()
        tv = [v for tag, v in st if tag == "?test"]
        if x and tv and (tv[0], True) in fb and any(s_ == x[0] and o + x[1] == 0 for s_, o in st if s_ != "?test"):
            return "equals the index accepted by the last test (%s true)" % tv[0]
        return None

    # containers that only ever receive accepted indices
    fills = {}
    for b, i, ev in f.all_events():
        if ev.get("k") == "call" and callee_short(ev) in ("push_back", "emplace_back") and ev.get("args"):
            c = _base_var(ev.get("recv"))
            if c:
                fills.setdefault(c, []).append((b, i, ev))
    good_cont = {}
    for c, fl in fills.items():
        why = [accepted(ev["args"][0], (b, i)) for b, i, ev in fl]
        good_cont[c] = all(why)
    sinks = []
    for b, i, ev in f.all_events():
        if ev.get("k") == "call" and callee_short(ev) in ("init_thread_affinity_mask", "get_pu_number") and len(ev.get("args", [])) >= 2 and \
                "topology" in callee_of(ev):
            sinks.append((b, i, ev))
    if not sinks:
        raise AnalysisBroken("%s: no binding site found" % d)
    for b, i, ev in sinks:
        e = ev["args"][1]
        why = accepted(e, (b, i))
        if not why:
            x = _lin(e)
            c = _base_var(e)
            if x and x[1] == 0 and c in good_cont and strip(e).get("op") == "[]":
                why = ("read unmodified from '%s', which is filled only with accepted indices (%d fill site(s))" % (c, len(fills[c]))) if good_cont[c] else None
        if why:
            rep.ok("C15.R5", f, "%s(.., %s): %s" % (callee_short(ev), T(e), why))
        else:
            # the value-flow argument is intraprocedural: a decoder that hands the mask test to a helper this analysis has never
            # seen (extracted after the rules were written) is not decided here - analysis broken, not a violation
            try:
                known = set(l.strip() for l in open(core.KNOWN))
            except OSError:
                known = set()
            fresh = sorted(set(callee_of(x) for _, _, x in f.all_events() if x.get("k") == "call" and (callee_of(x) or "").startswith("pika::detail::")
                               and callee_of(x) not in known))
            fresh += sorted(set(str(x.get("callee")) for x in (f.raw.get("inlined") or []) if not x.get("lambda")))
            if fresh:
                raise AnalysisBroken("%s: PU index '%s' is not accepted on this path and the decoder calls helper(s) unknown to the analysis (%s): the mask test may "
                                     "have moved there; C15.R5 does not follow values through new helpers" % (d, T(e), ", ".join(fresh)[:160]))
            rep.bad("C15.R5", f, loc_of(ev), "untested-pu:%s:%s" % (d, callee_short(ev)), "%s binds/reports PU index '%s', which is not an index that pu_in_process_mask "
                    "accepted (neither tested on this path, nor equal to the accepted index, nor read unmodified from a container of accepted "
                    "indices): with a process mask that has holes inside a core the worker is bound outside the mask" % (d, T(e)))


def run(rep, tier):
    rep.rule("C15.R1", "K2/K7: check_num_threads dominates every affinity assignment; it refuses iff num_threads > available PUs")
    rep.rule("C15.R2", "K8: num_pus[i] = get_pu_number(a, b) and affinities[i] = init_thread_affinity_mask(a, b) use identical (a, b); the process mask is consulted")
    rep.rule("C15.R3", "K8: thread_func binds to affinity_data_.get_pu_mask(topo, global_thread_num) (machine mask if empty); workers numbered thread_offset_ + i")
    rep.rule("C15.R5", "K4 (value flow): every PU index a worker is bound to (init_thread_affinity_mask / get_pu_number) individually passed pu_in_process_mask: tested directly, equal to the tested index by linear bookkeeping, or read unmodified from a container filled only with such indices")
    rep.rule("C15.R9", "K8 (the core that is tested is the core that is bound): in each decoder the core index handed to pu_in_process_mask and the core index handed to "
             "init_thread_affinity_mask / get_pu_number for the same placement are the same sum of terms, up to the used_cores shift that only the binding side applies "
             "(loop index, per-socket core offset, ...). Asking the mask question about another core - socket 0's core with the same local index - binds workers of later "
             "sockets to PUs outside the process mask, or never finds a usable PU")
    rep.rule("C15.R6", "K8 (index spaces; sibling conversions in topology.cpp): OS cpusets and the user's process mask are numbered by OS CPU index, pika's masks by hwloc logical index. Every conversion loop sets the logical bit get_index(pu) exactly under the test of bit pu->os_index of the source (hwloc_bitmap_isset / test) for the same PU object")
    rep.rule("C15.R4", "K4/K8: add_resource assigns a PU only when unoccupied (unless oversubscription is allowed) and increments the occupancy with it")

    A = facts(rep, lib("affinity", "src/parse_affinity_options.cpp"), [r"^pika::detail::(decode_\w+_distribution|check_num_threads|pu_in_process_mask)$"])

    def fn(name):
        fs = [f for f in A.find(r"^pika::detail::%s$" % name) if f.parent == -1]
        if len(fs) != 1:
            raise AnalysisBroken("parse_affinity_options.cpp: expected one definition of %s, found %d" % (name, len(fs)))
        return fs[0]
    for d in DEC:
        f = fn(d)
        chk = [(b, i, ev) for b, i, ev in f.all_events() if ev.get("k") == "call" and callee_short(ev) == "check_num_threads"]
        asg = [(b, i, ev) for b, i, ev in f.all_events() if ev.get("k") == "call" and ev.get("op") == "=" and re.match(r"^affinities\[", P(ev.get("recv") or {}))]
        if not asg:
            asg = [(b, i, ev) for b, i, ev in f.all_events() if ev.get("k") == "write" and re.match(r"^affinities\[", P(ev["lhs"]))]
        if not asg:
            raise AnalysisBroken("%s: no assignment to affinities[...] found" % d)
        if len(chk) == 1 and all(precedes_on_all_paths(f, lambda e: e is chk[0][2], (b, i)) for b, i, ev in asg) and \
                P(chk[0][2]["args"][0]) == "use_process_mask" and origin(f, chk[0][2]["args"][2]) in ("affinities.size()", "num_threads"):
            rep.ok("C15.R1", f, "check_num_threads(use_process_mask, t, #threads) precedes every affinity assignment")
        else:
            rep.bad("C15.R1", f, f.loc, "no-check:" + d, "%s assigns affinities without first checking the thread count against the available PUs: an oversubscribed request is accepted silently" % d)
        # R2 pairing
        pairs_ok = True
        detail = []
        for b, i, ev in asg:
            rhs = strip(ev["args"][0] if ev.get("k") == "call" else ev["rhs"])
            if not (isinstance(rhs, dict) and rhs.get("k") == "call" and callee_short(rhs) == "init_thread_affinity_mask"):
                pairs_ok = False
                detail.append("affinity not computed by init_thread_affinity_mask at %s" % loc_of(ev))
                continue
            idx = re.match(r"^affinities\[(.*)\]$", P(ev.get("recv") if ev.get("k") == "call" else ev["lhs"])).group(1)
            margs = [T(strip(a)) for a in rhs["args"]]
            blk = f.blocks[b]
            pu = [e for e in blk.events if e.get("k") == "write" and P(e["lhs"]) == "num_pus[%s]" % idx]
            pu += [e for e in blk.events if e.get("k") == "call" and e.get("op") == "=" and P(e.get("recv") or {}) == "num_pus[%s]" % idx]
            if len(pu) != 1:
                pairs_ok = False
                detail.append("no matching num_pus[%s] assignment next to the affinity assignment at %s" % (idx, loc_of(ev)))
                continue
            prhs = strip(pu[0]["rhs"] if pu[0].get("k") == "write" else pu[0]["args"][0])
            if not (isinstance(prhs, dict) and prhs.get("k") == "call" and callee_short(prhs) == "get_pu_number"):
                pairs_ok = False
                detail.append("num_pus[%s] is not computed by get_pu_number" % idx)
                continue
            pargs = [T(strip(a)) for a in prhs["args"]]
            n_ = min(len(pargs), len(margs), 2)          # (core, pu); get_pu_number has a defaulted error_code
            pargs, margs = pargs[:n_], margs[:n_]
            if pargs != margs or n_ < 2:
                pairs_ok = False
                detail.append("num_pus[%s] = get_pu_number(%s) but the worker is bound to init_thread_affinity_mask(%s) (%s)" % (idx, ", ".join(pargs), ", ".join(margs), loc_of(ev)))
        pm = [e for _, _, e in f.all_events() if e.get("k") == "call" and callee_short(e) == "pu_in_process_mask" and P(e["args"][0]) == "use_process_mask"]
        if not pm:
            pairs_ok = False
            detail.append("the process mask is never consulted (pu_in_process_mask)")
        if pairs_ok:
            rep.ok("C15.R2", f, "%d assignment(s): reported PU number and bound mask are computed from identical (core, pu) expressions; process mask consulted" % len(asg), sites=len(asg))
        else:
            rep.bad("C15.R2", f, loc_of(asg[0][2]), "pu-mismatch:" + d, "; ".join(detail) + ": the processing-unit number pika reports for the worker is not the one it is bound to")
    cn = fn("check_num_threads")
    ff = FactFlow(cn)
    th = [(b, i, ev) for b, i, ev in cn.all_events() if ev.get("k") == "call" and callee_of(ev) == "pika::detail::throws_if"]
    good = len(th) == 2
    for b, i, ev in th:
        fb = ff.before.get((b, i)) or frozenset()
        if not any(t and re.match(r"^\w+ < num_threads$", a) for a, t in fb):
            good = False
    masks = [e for _, _, e in cn.all_events() if e.get("k") == "call" and callee_short(e) in ("count", "hardware_concurrency")]
    if good and len(masks) >= 2:
        rep.ok("C15.R1", cn, "check_num_threads refuses exactly when num_threads > count(process mask) resp. > hardware_concurrency()")
    else:
        rep.bad("C15.R1", cn, cn.loc, "check-cond", "check_num_threads must raise an error iff more threads than available PUs are requested")
    pim = fn("pu_in_process_mask")
    names = [callee_short(e) for _, _, e in pim.all_events() if e.get("k") == "call"]
    if "bit_and" in names and "get_cpubind_mask_main_thread" in names and "init_thread_affinity_mask" in names:
        rep.ok("C15.R1", pim, "pu_in_process_mask tests the PU's mask against the main thread's cpubind mask")
    else:
        rep.bad("C15.R1", pim, pim.loc, "mask-test", "pu_in_process_mask no longer intersects the PU mask with the process mask")

    # ---- R5: the bound PU index is an individually tested one
    for d in DEC:
        tested_index_rule(rep, fn(d), d)

    # ---- R7: a request the cores cannot take ends in an error, not in a loop
    rep.rule("C15.R7", "K4 (progress): the round-robin decoders place threads in rounds over the cores and keep a per-core cursor across rounds (scatter, balanced); once every "
             "usable PU of the cores is taken a round places nothing - --pika:cores / --pika:ignore-process-mask allow more threads than those cores have PUs, and "
             "check_num_threads only compares with the machine or the mask.  Every turn of the outer 'while threads remain' loop therefore either places a thread or "
             "leaves through the no-progress test that reports the error: the request is rejected instead of start-up hanging")
    from engine.kinds import loop_of as _lo7, sccs as _scc7
    n7 = 0
    for d in DEC:
        f = fn(d)
        # the thread counter: the local stepped by ++ that the outer loop tests against the number of threads
        cursors = [e for _, _, e in f.all_events() if (e.get("k") == "write" and re.match(r"^\w+\[num_core\]$|^\w+\[\w+\]$", P(e["lhs"])) and
                                                       not P(e["lhs"]).startswith(("affinities", "num_pus[", "pu_indexes")) and e.get("op") == "=")]
        if not cursors:
            continue          # no per-core cursor: every round starts from the first PU again (compact), rounds cannot run dry
        hdrs = [blk for blk in f.blocks.values() if blk.cond is not None and re.search(r"\bnum_thread < num_threads\b|\bnum_threads > num_thread\b", cond_atoms(blk.cond)[0]) and _lo7(f, blk.id)]
        if not hdrs:
            continue          # not a 'rounds until all threads are placed' decoder (numa-balanced distributes fixed per-socket shares)
        for h in hdrs[:1]:
            n7 += 1
            lp = _lo7(f, h.id)
            inc_blocks = set(b for b in lp if any(e.get("k") == "write" and e.get("op") in ("++", "+=") and P(e["lhs"]) == "num_thread" for e in f.blocks[b].events))
            # blocks whose condition compares the counter with a snapshot taken at the start of the round; leaving over the 'equal' edge ends the loop
            snap = [e["var"] for _, _, e in f.all_events() if e.get("k") == "decl" and e.get("init") is not None and T(strip(e["init"])) == "num_thread"]
            test_blocks = set()
            for b in lp:
                blk = f.blocks[b]
                if blk.cond is None:
                    continue
                a, pos = cond_atoms(blk.cond)
                if any(re.search(r"\b%s\b" % re.escape(sv), a) for sv in snap) and "num_thread" in a and "==" in a:
                    # on the 'equal' edge the loop must be left
                    eq_lab = "true" if pos else "false"
                    tgt = [t for l, t, _ in blk.succ if l == eq_lab]
                    if tgt:
                        # does the equal edge stay in the loop?
                        seen, stack, back = set(), [tgt[0]], False
                        while stack:
                            v = stack.pop()
                            if v in seen:
                                continue
                            seen.add(v)
                            if v == h.id:
                                back = True
                                break
                            stack += [t for _, t in f.succs(v) if t in lp]
                        if not back:
                            test_blocks.add(b)
            rest = set(lp) - inc_blocks
            # a cycle through the header inside rest that does not pass a no-progress test (on its non-equal edge the counter did change - but that edge is
            # only reachable after an increment; so: remove test blocks as well)
            rest -= test_blocks
            seen, stack, stuck = set(), [t for _, t in f.succs(h.id) if t in rest], False
            while stack:
                v = stack.pop()
                if v == h.id:
                    stuck = True
                    break
                if v in seen:
                    continue
                seen.add(v)
                stack += [t for _, t in f.succs(v) if t in rest or t == h.id]
            if stuck:
                rep.bad("C15.R7", f, h.events[-1].get("loc", f.loc) if h.events else f.loc, "round-without-progress:" + d, "%s can go round its outer loop over the threads without placing one "
                        "and without noticing it (no test 'the round placed nothing' that leaves with an error): with more threads than the cores to use have processing units "
                        "(--pika:ignore-process-mask --pika:cores=2 --pika:threads=4) start-up never returns instead of rejecting the request" % d)
            else:
                rep.ok("C15.R7", f, "%s: every round either places a thread or leaves with the error" % d)
    if n7 < 2:
        raise AnalysisBroken("C15.R7: round-robin decoders with a per-core cursor not found (%d)" % n7)

    # ---- R9: tested core == bound core
    def terms9(tree):
        t = T(strip(tree)).replace("(", "").replace(")", "")
        return frozenset(x.strip() for x in t.split("+") if x.strip())
    n9 = 0
    for d in DEC:
        f = fn(d)
        tests = [terms9(e["args"][2]) for _, _, e in f.all_events() if e.get("k") == "call" and callee_short(e) == "pu_in_process_mask" and len(e.get("args", [])) >= 4]
        binds = [(e, terms9(e["args"][0])) for _, _, e in f.all_events() if e.get("k") == "call" and callee_short(e) in ("init_thread_affinity_mask", "get_pu_number") and len(e.get("args", [])) >= 2]
        if not tests or not binds:
            continue
        n9 += 1
        bad9 = [(e, tb) for e, tb in binds if (tb - {"used_cores"}) not in tests and tb not in tests]
        bound_sets = set(tb - {"used_cores"} for _, tb in binds) | set(tb for _, tb in binds)
        # ... and in the other direction: no mask question about a core expression that is never bound
        stray = [t_ for t_ in set(tests) if t_ not in bound_sets]
        if stray and not bad9:
            bad9 = [(binds[0][0], binds[0][1])]
            tests = stray
        if bad9:
            e, tb = bad9[0]
            rep.bad("C15.R9", f, loc_of(e), "tested-core-differs:" + d, "%s binds / reports core '%s' but asks pu_in_process_mask about core %s: the mask question is answered for another core "
                    "than the one the worker is bound to (on machines with several sockets: socket 0's core with the same local index)" % (
                        d, " + ".join(sorted(tb)), " / ".join(sorted(" + ".join(sorted(t_)) for t_ in set(tests)))))
        else:
            rep.ok("C15.R9", f, "%s: the core index tested against the process mask is the bound core index (up to used_cores)" % d)
    if n9 < 3:
        raise AnalysisBroken("C15.R9: only %d decoders with a mask test and a binding found" % n9)

    # ---- R6: physical -> logical conversions
    from engine.kinds import reaching_init
    TP = facts(rep, lib("topology", "src/topology.cpp"), [r"^pika::threads::detail::topology::"])
    n6 = 0
    for f in TP.fns:
        if f.parent != -1:
            continue
        ff6 = None
        # a conversion reads a source mask / cpuset: functions without any bit test build masks from topology objects
        if not any(e.get("k") == "call" and callee_short(e) in ("test", "hwloc_bitmap_isset") for _, _, e in f.all_events()):
            continue
        for b, i, ev in f.all_events():
            if not (ev.get("k") == "call" and callee_short(ev) == "set" and len(ev.get("args", [])) == 2):
                continue
            m = re.match(r"^get_index\((\w+)\)$", T(strip(ev["args"][1])))
            if not m:
                continue
            obj = m.group(1)
            n6 += 1
            ff6 = ff6 or FactFlow(f, eh=False)
            fb = ff6.before.get((b, i)) or frozenset()
            good = False
            seen_tests = []
            # a test result kept in a bool local counts as the test (selected = test(mask, idx); if (selected) ...)
            fb2 = set(fb)
            for a, t in fb:
                if re.match(r"^\w+$", a):
                    ini_b = reaching_init(f, a, (b, i))
                    if ini_b is not None:
                        fb2.add((T(strip(ini_b)), t))
            for a, t in fb2:
                mm = re.match(r"^(?:0 == |)(hwloc_bitmap_isset|test)\((.+),(\w+)\)(?: == 0| != 0|)$", a)
                if not mm:
                    continue
                # normalised atoms: 'hwloc_bitmap_isset(cpuset,idx) == 0' False  or  'test(mask,idx)' True
                positive = (t and not a.endswith("== 0") and not a.startswith("0 == ")) or ((not t) and (a.endswith("== 0") or a.startswith("0 == ")))
                idxv = mm.group(3)
                seen_tests.append((a, t))
                ini = reaching_init(f, idxv, (b, i))
                if positive and ini is not None and re.search(r"\b%s->os_index\b" % re.escape(obj), T(ini)):
                    good = True
            if good:
                rep.ok("C15.R6", f, "%s: logical bit get_index(%s) set under the test of bit %s->os_index of the source" % (f.qname.rsplit("::", 1)[-1], obj, obj))
            else:
                rep.bad("C15.R6", f, loc_of(ev), "index-space:" + f.qname.rsplit("::", 1)[-1], "%s sets logical bit get_index(%s) without testing bit %s->os_index of the "
                        "OS-numbered source (tests seen: %s): on machines whose OS CPU numbers differ from hwloc's logical order (SMT, multi-socket) the mask selects "
                        "other PUs than the ones given - workers are bound outside the requested process mask" % (f.qname.rsplit("::", 1)[-1], obj, obj, seen_tests[:2]))
    if n6 < 4:
        raise AnalysisBroken("C15.R6: only %d physical->logical conversions found in topology.cpp" % n6)

    # ---- R8: logical -> physical conversions (what the worker is actually bound to)
    rep.rule("C15.R8", "K8 (index spaces, the other direction): where a pika mask is turned into an OS cpuset (set_thread_affinity_mask, which binds the worker, and mask_to_bitmap), "
             "bit i of the mask selects the PU object with logical index i (hwloc_get_obj_by_depth(.., i)) and sets the cpuset bit of that object's os_index - hwloc cpusets "
             "are numbered by OS CPU index. Setting the logical index instead binds the worker to another CPU on every machine whose OS numbering differs from the "
             "logical order (SMT siblings numbered #cores + c): the PU pika reports is not the one the worker runs on, and workers leave the process mask")
    n8 = 0
    for f in TP.fns:
        if f.parent != -1:
            continue
        sets = [(b, i, e) for b, i, e in f.all_events() if e.get("k") == "call" and callee_short(e) == "hwloc_bitmap_set" and len(e.get("args", [])) == 2]
        if not sets:
            continue
        ff8 = FactFlow(f, eh=False)
        short = f.qname.rsplit("::", 1)[-1]
        for b, i, e in sets:
            n8 += 1
            at = T(strip(e["args"][1]))
            m = re.match(r"^(\w+)->os_index$", at)
            why = None
            if not m:
                why = "sets cpuset bit '%s', which is not the os_index of a PU object" % at
            else:
                obj = m.group(1)
                ini = reaching_init(f, obj, (b, i))
                mi = re.match(r"^hwloc_get_obj_by_depth\(.*,\s*(\w+)\)$", T(strip(ini))) if ini is not None else None
                if not mi:
                    why = "takes os_index from '%s', which is not the object hwloc_get_obj_by_depth(.., i) of the tested bit" % obj
                else:
                    iv = mi.group(1)
                    fb = ff8.before.get((b, i)) or frozenset()
                    if not any(t and re.match(r"^test\(\w+,%s\)$" % re.escape(iv), a) for a, t in fb):
                        why = "sets the bit of PU %s without bit %s of the mask having tested true" % (iv, iv)
            if why is None:
                rep.ok("C15.R8", f, "%s: mask bit i -> PU object with logical index i -> cpuset bit os_index" % short)
            else:
                rep.bad("C15.R8", f, loc_of(e), "os-index:" + short, "%s %s: the OS cpuset handed to hwloc is numbered by OS CPU index; the worker is bound to a different "
                        "CPU than the PU pika reports for it wherever the two numberings differ" % (short, why))
    if n8 < 2:
        raise AnalysisBroken("C15.R8: only %d logical->physical conversions found in topology.cpp" % n8)
    stm = [f for f in TP.fns if f.parent == -1 and f.qname.endswith("topology::set_thread_affinity_mask")]
    if not stm or not any(e.get("k") == "call" and callee_short(e) == "hwloc_bitmap_set" for _, _, e in stm[0].all_events()):
        rep.bad("C15.R8", stm[0] if stm else TP.fns[0], (stm[0].loc if stm else ""), "os-index:no-conversion", "set_thread_affinity_mask no longer converts the mask bit by bit into an OS cpuset")
    else:
        cb = [(b, i, e) for b, i, e in stm[0].all_events() if e.get("k") == "call" and callee_short(e) == "hwloc_set_cpubind"]
        cs = set(P(e["args"][0]) for _, _, e in stm[0].all_events() if e.get("k") == "call" and callee_short(e) == "hwloc_bitmap_set")
        if cb and all(P(strip(e["args"][1])) in cs for _, _, e in cb):
            rep.ok("C15.R8", stm[0], "set_thread_affinity_mask binds with the cpuset it converted (%d hwloc_set_cpubind calls)" % len(cb))
        else:
            rep.bad("C15.R8", stm[0], stm[0].loc, "os-index:bind-other-set", "set_thread_affinity_mask calls hwloc_set_cpubind with a set other than the converted cpuset")

    # ---- R3
    PL = facts(rep, lib("thread_pools", "src/scheduled_thread_pool.cpp"), [r"^pika::threads::detail::scheduled_thread_pool::(thread_func|run)$"])
    tfs = PL.find(r"scheduled_thread_pool::thread_func$", pattern=False)
    if not tfs:
        raise AnalysisBroken("scheduled_thread_pool::thread_func not instantiated")
    for f in tfs:
        st = [e for _, _, e in f.all_events() if e.get("k") == "call" and callee_short(e) == "set_thread_affinity_mask"]
        # the mask variable is the local initialised from get_pu_mask(..), whatever it is called
        md = [e for _, _, e in f.all_events() if e.get("k") == "decl" and e.get("init") is not None and "affinity_data_.get_pu_mask(" in T(e["init"])]
        mv = md[0]["var"] if md else "mask"
        wr = [e for _, _, e in f.all_events() if (e.get("k") == "call" and e.get("op") == "=" and P(e.get("recv")) == mv) or (e.get("k") == "write" and P(e["lhs"]) == mv)]
        ff = FactFlow(f)
        okm = len(st) == 1 and P(st[0]["args"][0]) == mv and md and T(strip(md[0]["init"])) == "this->affinity_data_.get_pu_mask(topo,global_thread_num)"
        okw = True
        for e in wr:
            pos = [(b, i) for b, i, x in f.all_events() if x is e][0]
            fb = ff.before.get(pos) or frozenset()
            rhs = T(strip(e["args"][0] if e.get("k") == "call" else e["rhs"]))
            empty_seen = any((not t) and a == "any(%s)" % mv for a, t in fb)
            for a, t in fb:                     # the test may be kept in a bool local: 'bool const none = !any(m); if (none) m = ..'
                if re.match(r"^\w+$", a):
                    ini = reaching_init(f, a, pos)
                    if ini is not None:
                        ti = T(strip(ini))
                        if (ti == "!any(%s)" % mv and t) or (ti == "any(%s)" % mv and not t):
                            empty_seen = True
            if not ("get_machine_affinity_mask" in rhs and empty_seen):
                okw = False
        from engine.kinds import bypass_path as _bp3
        skipped = _bp3(f, lambda e: e.get("k") == "call" and callee_short(e) == "set_thread_affinity_mask")
        if okm and okw and (skipped is not None or not wr):
            rep.bad("C15.R3", f, loc_of(st[0]), "unbound-inherits-launcher-mask", "thread_func %s: a worker without a binding (--pika:bind=none: empty mask) has to be given the full "
                    "machine mask explicitly, because a new OS thread inherits the affinity of the thread that started the runtime - under taskset / srun / mpirun --bind-to the "
                    "'unbound' workers otherwise all stay confined to the launcher's PUs (and share them) while pika reports them unbound" % (
                        "can skip set_thread_affinity_mask" if skipped is not None else "never replaces an empty mask by get_machine_affinity_mask()"))
        elif okm and okw:
            rep.ok("C15.R3", f, "worker binds to get_pu_mask(topo, global_thread_num); only an empty mask is replaced by the machine mask")
        else:
            rep.bad("C15.R3", f, f.loc, "bind-mask", "the worker does not bind itself to the mask computed for its global thread number")
    for f in PL.find(r"scheduled_thread_pool::run$", pattern=False):
        ap = [e for _, _, e in f.all_events() if e.get("k") == "call" and callee_short(e) == "add_processing_unit_internal"]
        from .common import local_init

        def src(a):
            ini = local_init(f, P(a))
            return T(strip(ini)) if ini is not None else T(strip(a))
        if ap and any(re.search(r"this->thread_offset_ \+ \w+|\w+ \+ this->thread_offset_", src(a)) for a in ap[0]["args"]):
            rep.ok("C15.R3", f, "workers are numbered thread_offset_ + index")
        else:
            rep.bad("C15.R3", f, f.loc, "numbering", "run() must number the pool's workers thread_offset_ + index (global thread numbers index the affinity masks)")

    # ---- R4
    RP = facts(rep, lib("resource_partitioner", "src/detail_partitioner.cpp"), [r"^pika::resource::detail::partitioner::add_resource$"])
    ar = [f for f in RP.find(r"partitioner::add_resource$") if f.parent == -1 and len(f.params) == 4 and f.params[0]["type"].startswith("const pika::resource::pu")]
    if len(ar) != 1:
        raise AnalysisBroken("partitioner::add_resource(pu const&, ...) not found")
    f = ar[0]
    ff = FactFlow(f)
    adds = [(b, i, ev) for b, i, ev in f.all_events() if ev.get("k") == "call" and callee_short(ev) == "add_resource" and "get_pool_data" in T(ev.get("recv") or {})]
    if len(adds) < 1:
        raise AnalysisBroken("add_resource: pool assignment not found")
    allok = True
    for b, i, ev in adds:
        fb = ff.before.get((b, i)) or frozenset()
        over = any(t and "mode_allow_oversubscription" in a for a, t in fb)
        free = any(t and re.search(r"p\.thread_occupancy_count_ == 0|0 == p\.thread_occupancy_count_", a) for a, t in fb)
        inc = not always_followed_by(f, (b, i), lambda e: (e.get("k") == "write" and e.get("op") == "++" and P(e["lhs"]) == "p.thread_occupancy_count_"))
        if not ((over or free) and inc and P(ev["args"][0]) == "p.id_"):
            allok = False
            rep.bad("C15.R4", f, loc_of(ev), "occupancy", "a PU is handed to a pool although it may already be occupied (oversubscription allowed: %s, seen free: %s) or without counting the assignment (%s): "
                    "two pools would share a processing unit" % (over, free, inc))
    if allok:
        rep.ok("C15.R4", f, "%d assignment site(s): only under mode_allow_oversubscription or thread_occupancy_count_ == 0, each with ++thread_occupancy_count_" % len(adds), sites=len(adds))
    # one worker per PU: every call of add_resource(pu, ...) inside the partitioner itself (the default pool's share in
    # setup_pools, the vector / core / socket overloads) adds exactly one thread for the PU - a count taken from the
    # affinity occupancy would put several workers on one PU without over-subscription having been allowed
    RPA = facts(rep, lib("resource_partitioner", "src/detail_partitioner.cpp"), [r"^pika::resource::detail::partitioner::(add_resource|setup_pools)$"])
    inner = []
    for g in RPA.fns:
        if g.parent != -1:
            continue
        for _, _, ev in g.all_events():
            if ev.get("k") == "call" and callee_short(ev) == "add_resource" and callee_of(ev).endswith("partitioner::add_resource") and \
                    (ev.get("ptypes") or [""])[0].startswith("const pika::resource::pu"):
                inner.append((g, ev))
    if len(inner) < 2:
        raise AnalysisBroken("partitioner: internal add_resource(pu, ...) call sites not found (%d)" % len(inner))
    for g, ev in inner:
        a3 = strip(ev["args"][3]) if len(ev.get("args") or []) > 3 else None
        one = a3 is None or (a3.get("k") == "lit" and a3.get("v") == 1) or a3.get("k") == "defaultarg" or T(a3) in ("1", "")
        if a3 is not None and a3.get("k") == "var" and a3.get("param"):
            rep.ok("C15.R4", g, "%s forwards its caller's thread count (public overload, %s)" % (g.qname.rsplit("::", 1)[-1], loc_of(ev)))
        elif one:
            rep.ok("C15.R4", g, "%s adds one thread for the PU (%s)" % (g.qname.rsplit("::", 1)[-1], loc_of(ev)))
        else:
            rep.bad("C15.R4", g, loc_of(ev), "threads-per-pu:" + g.qname.rsplit("::", 1)[-1],
                    "%s hands a PU to a pool with %s threads: without over-subscription being allowed several workers of the pool are bound to the same processing unit "
                    "(and a thread count that does not fit the PUs is accepted instead of being refused)" % (g.qname.rsplit("::", 1)[-1], T(a3)))
    lf = LockFlow(f)
    if all("this->mtx_" in (lf.held_before((b, i)) or frozenset()) for b, i, ev in adds):
        rep.ok("C15.R4", f, "occupancy is tested and updated under the partitioner mutex")
    else:
        rep.bad("C15.R4", f, f.loc, "occupancy-lock", "the occupancy test/update is not done under the partitioner mutex")
