# C01 — every submitted task runs exactly once, on one worker at a time (structural part; DESIGN.md §5 C01)
import re
from engine.core import AnalysisBroken, P, T, callee_of, callee_short, cond_atoms, loc_of, strip, forward, block_path, is_moved
from engine.kinds import (LockFlow, FactFlow, CountFlow, check_guarded, precedes_on_all_paths, always_followed_by, eval_walk,
                          edge_obligations, first_outcome, Unknown)
from .common import facts, lib, local_init

EXPLANATION = (
    "Static analysis of the current source (all 8 scheduler policies instantiated in scheduled_thread_pool.cpp). "
    "Decided: a worker enters a task body only on the edge where the tagged compare-exchange pending->active "
    "succeeded (R1); the task state word is modified only by compare-exchange outside construction/rebinding, "
    "switch_status acquires through set_state_tagged and publishes through restore_state (R2); a worker that lost the "
    "exchange neither publishes a state nor re-queues (R3); after the body returned, a pending task is re-queued "
    "exactly once, a pending_boost task is re-queued or kept as next task exactly once, a task found active is "
    "re-queued exactly once, suspended/terminated tasks are not re-queued (R4); in thread_queue every push is "
    "preceded by its counter increment and every successful pop followed by its decrement (R5); the thread map and "
    "the recycle heaps are only touched under the queue mutex (R6); every scheduler entry point enqueues exactly "
    "once on every non-throwing path (R7); a new thread is in the map before it is scheduled and staged-to-pending "
    "conversion updates map count, staged count, queue in this order (R8); a recycled thread object is always "
    "rebound before use (R9). Not decided: that the lock-free containers deliver each element once (C17), fairness, "
    "the ABA argument for the tag width, victim selection when stealing.")
ASSUMPTIONS = ["std::atomic<thread_state>::compare_exchange_strong is atomic", "work_items_/new_tasks_/terminated_items_ deliver each pushed element to one pop (C17)",
               "on_start_thread runs on the owning worker before the pool's start-up barrier releases any work (reserve() calls exempt from R6)"]
THOROUGH_CONFIGS = [["-UNDEBUG", "-DPIKA_DEBUG"], ["-DPIKA_HAVE_THREAD_QUEUE_WAITTIME"]]
FLOORS = {"C01.R1": 8, "C01.R2": 6, "C01.R3": 8, "C01.R4": 24, "C01.R5": 12, "C01.R6": 10, "C01.R7": 9, "C01.R8": 2, "C01.R9": 1, "C01.R10": 6, "C01.R11": 4, "C01.R12": 20, "C01.R13": 4, "C01.R14": 3, "C01.R15": 5, "C01.R16": 6, "C01.R17": 3, "C01.R18": 2, "C01.R19": 1}

TSS = "pika::threads::detail::thread_schedule_state"
TD = "pika::threads::detail::thread_data"
TQ = "pika::threads::detail::thread_queue"


def requeue_kind(ev):
    """classify an event as a re-queue of `thrd`"""
    if ev.get("k") != "call":
        return None
    n = callee_short(ev)
    if n in ("schedule_thread_last", "schedule_thread") and P(ev.get("recv")) == "scheduler" and ev.get("args") and P(ev["args"][0]) == "thrd":
        return n
    if ev.get("op") == "=" and P(ev.get("recv")) == "next_thrd" and ev.get("args") and P(ev["args"][0]) == "thrd":
        return "next_thrd"
    return None


def main_loop_heads(fn):
    """Head block(s) of the function's outermost (largest) loop: 'while (true)' has a condition block, 'for (;;)' has none - in both
    cases the head is the block of the loop's strongly connected component that is entered from outside it."""
    from engine.kinds import sccs
    heads = {b for b, blk in fn.blocks.items() if blk.cond is not None and T(blk.cond) == "true"}
    comps = [c for c in sccs(fn) if len(c) > 1]
    if comps:
        big = max(comps, key=len)
        preds = fn.preds()
        for b in big:
            if any(p_ not in big for p_, _ in preds.get(b, [])):
                heads.add(b)
    return heads


def run(rep, tier):
    from .common import unknown_helpers_are_not_violations
    unknown_helpers_are_not_violations(rep, ("C01.R1", "C01.R2", "C01.R3", "C01.R4", "C01.R15"))
    rep.rule("C01.R1", "K4: thread_data::operator() only on the edge is_valid() && get_previous()==pending of the tagged CAS")
    rep.rule("C01.R2", "K5: current_state_ modified only by compare_exchange outside ctor/rebind; switch_status uses set_state_tagged / restore_state")
    rep.rule("C01.R3", "K4: the worker that lost the CAS disables restore and continues without store_state / re-queue")
    rep.rule("C01.R4", "K3/K7: re-queue exactly once per returned state (pending, pending_boost, active-on-entry), never for suspended/terminated")
    rep.rule("C01.R5", "K8: container push preceded by counter increment; successful pop followed by counter decrement")
    rep.rule("C01.R6", "K1: thread_map_ and thread_heap_* only under mtx_")
    rep.rule("C01.R7", "K3: scheduler create_thread/schedule_thread/schedule_thread_last enqueue exactly once on every non-throwing path")
    rep.rule("C01.R18", "K3 (a popped description is a task): in the conversion loops of both queue implementations (thread_queue::add_new, thread_queue_mc::add_new - the latter "
             "behind the shared-priority scheduler) a task description that was popped from the staged queue is turned into a thread object and queued before the loop "
             "pops again or the function returns: on the edge where new_task_items_.pop(..) succeeded an obligation starts that only create_thread_object followed by "
             "schedule_thread / schedule_work ends. A description popped and then dropped (batch budget tested after the pop) is a task whose body is never entered while "
             "the counters still count it - pika::wait() hangs")
    rep.rule("C01.R19", "K6 (who may touch the owner's recycle lists; shared-priority scheduler): queue_holder_thread keeps its recycled thread objects in plain, unsynchronised "
             "lists (thread_heap_*) that only the owning worker touches - create_thread_object pops from them without a lock. destroy_thread can be called by another "
             "worker (a stolen task ends there: xthread == true); it may push the terminated thread onto the concurrent terminated_items_ queue, but it runs "
             "cleanup_terminated - which moves objects onto the owner's lists - only on the path where the caller is the owner (the cross-thread flag is false). Otherwise "
             "one thread object is handed to two tasks: a body is never entered, or entered on a stack another task is using")
    rep.rule("C01.R8", "K2: map insert before schedule (run_now); ++thread_map_count_ -> --new_tasks_count_ -> schedule_thread in add_new")
    rep.rule("C01.R9", "K4: a recycled thread object is rebound before use")

    F = facts(rep, lib("thread_pools", "src/scheduled_thread_pool.cpp"),
              [r"^pika::threads::detail::scheduling_loop$", r"^pika::threads::detail::switch_status::", r"^pika::threads::detail::thread_queue::",
               r"scheduler::(create_thread|schedule_thread|schedule_thread_last|schedule_work)$"])
    G = facts(rep, lib("threading_base", "src/thread_data.cpp"), [r"^pika::threads::detail::thread_data::"])
    enum = F.enums.get(TSS)
    if not enum:
        raise AnalysisBroken("enum %s not found" % TSS)
    loops = F.find(r"^pika::threads::detail::scheduling_loop$", pattern=False)
    if len(loops) < 5:
        raise AnalysisBroken("expected the scheduler instantiations of scheduling_loop, found %d" % len(loops))

    for fn in loops:
        ff = FactFlow(fn, eh=False)
        run_ = [(b, i, ev) for b, i, ev in fn.all_events() if ev.get("k") == "call" and callee_of(ev) == TD + "::operator()"]
        if len(run_) != 1:
            raise AnalysisBroken("%s: expected one call of thread_data::operator(), found %d" % (fn.full, len(run_)))
        rb, ri, rev = run_[0]
        fb = ff.before.get((rb, ri)) or frozenset()
        # the guard object is identified by its type (switch_status), not by its name
        gv = [ev.get("var") for _, _, ev in fn.all_events() if ev.get("k") == "ctor" and ev.get("rec") == "pika::threads::detail::switch_status" and ev.get("var")]
        if len(set(gv)) != 1:
            raise AnalysisBroken("%s: expected one switch_status guard object, found %s" % (fn.full, sorted(set(gv))))
        SS = gv[0]
        valid = ("%s.is_valid()" % SS, True) in fb
        prev = any(t and a in ("%s::pending == %s.get_previous()" % (TSS, SS), "%s.get_previous() == %s::pending" % (SS, TSS)) for a, t in fb)
        ss = [(b, i, ev) for b, i, ev in fn.all_events() if ev.get("k") == "ctor" and ev.get("rec") == "pika::threads::detail::switch_status" and ev.get("var") == SS]
        if valid and prev and ss and precedes_on_all_paths(fn, lambda e: e is ss[0][2], (rb, ri)):
            rep.ok("C01.R1", fn, "task body entered only after switch_status succeeded (is_valid && previous == pending)")
        else:
            rep.bad("C01.R1", fn, loc_of(rev), "run-without-cas", "the task body can be entered without the worker having won the tagged compare-exchange pending->active "
                    "(is_valid established: %s, previous==pending established: %s): two workers can run the same task" % (valid, prev),
                    path=[{"block": x} for x in block_path(fn, rb)])
        # R3: the losing edges - every CFG edge on which the outcome of the exchange is known to be a loss
        # (is_valid() false, or previous != pending), however the test is written (if/else, guard clause, inverted)
        # the blocks that evaluate the outcome form the gate; an edge that leaves the gate is a losing edge iff the
        # branch condition, evaluated for a win (is_valid() true, previous == pending), would have taken the other edge
        from engine.kinds import eval_tree as _ev, Unknown as _Unk
        is_gate = lambda blk: blk.cond is not None and ((SS + ".is_valid()") in T(blk.cond) or (SS + ".get_previous()") in T(blk.cond))
        win_env = {"%s.is_valid()" % SS: True, "%s.get_previous()" % SS: enum["pending"]}
        lose_targets = []
        gate = None
        for b, blk in fn.blocks.items():
            if not is_gate(blk):
                continue
            try:
                win = bool(_ev(blk.cond, win_env))
            except _Unk:
                continue
            for l, t, _ in blk.succ:
                if l in ("true", "false") and (l == "true") != win and not is_gate(fn.blocks[t]):
                    lose_targets.append(t)
                    gate = blk
        if gate is None:
            rep.bad("C01.R3", fn, loc_of(rev), "no-gate", "no branch on the outcome of the state exchange")
        else:
            bad = []
            dis = True
            for lose in sorted(set(lose_targets)):
                paths = eval_walk(fn, lose, stop=main_loop_heads(fn))
                for evs, end in paths:
                    # a path that re-enters the test of the exchange's outcome has not left the gate yet (a && b: the
                    # false edge of a goes to the else branch, not through b)
                    names = [callee_short(e) for _, _, e in evs if e.get("k") == "call"]
                    if "disable_restore" not in names:
                        dis = False
                    for n in names:
                        if n in ("store_state", "schedule_thread", "schedule_thread_last") or n == "operator()":
                            bad.append(n)
            if dis and not bad:
                rep.ok("C01.R3", fn, "losing worker: disable_restore() and continue; no store_state / re-queue")
            else:
                rep.bad("C01.R3", fn, gate.term.get("loc", fn.loc), "loser-touches-state", "a worker that lost the exchange must not publish a state or re-queue the task "
                        "(disable_restore on every path: %s, forbidden calls: %s)" % (dis, sorted(set(bad))))
        # R4: re-queue counts per resulting state
        after = [(b, i) for b, i, ev in fn.all_events() if ev.get("k") == "write" and P(ev["lhs"]) == "state_val"]
        top = [(b, i) for b, i, ev in fn.all_events() if ev.get("k") == "decl" and ev.get("var") == "state_val"]
        if len(after) != 1 or len(top) != 1:
            raise AnalysisBroken("%s: state_val definitions not found" % fn.full)
        head = main_loop_heads(fn)
        stored = any(t and re.match(r"^%s\.store_state\(\w+\)$" % re.escape(SS), a) for a, t in (ff.before.get(after[0]) or frozenset()))
        if not stored:
            rep.bad("C01.R4", fn, fn.loc, "requeue-without-store", "the returned state is acted upon although store_state (the publishing compare-exchange) did not succeed")
        for name, val in sorted(enum.items()):
            env = {"state_val": val}
            for same in (False, True):
                try:
                    paths = eval_walk(fn, after[0][0], atom_env={"next_thrd == thrd": same}, tree_env=env, stop=head)
                except Unknown as e:
                    raise AnalysisBroken("%s: cannot evaluate re-queue logic: %s" % (fn.full, e))
                seen_kinds = set()
                allok = True
                for evs, end in paths:
                    kinds = [requeue_kind(e) for _, _, e in evs if requeue_kind(e)]
                    passed_same = any(fn.blocks[b].cond is not None and cond_atoms(fn.blocks[b].cond)[0] == "next_thrd == thrd" for b, _, _ in evs)
                    if name == "pending":
                        want_ok = kinds == ["schedule_thread_last"]
                    elif name == "pending_boost":
                        want_ok = len(kinds) == 1 and kinds[0] in ("schedule_thread", "next_thrd") or (kinds == [] and passed_same and same)
                    else:
                        want_ok = kinds == []
                    if name == "pending_boost" and kinds:
                        # pending_boost is not a runnable state: whoever gets the task next (a queue or this worker
                        # through next_thrd) only runs it from 'pending', so the state is reset before the hand-off
                        seq = [e for _, _, e in evs]
                        first_q = min(k_ for k_, e in enumerate(seq) if requeue_kind(e))
                        reset = [k_ for k_, e in enumerate(seq) if e.get("k") == "call" and callee_short(e) == "set_state" and
                                 e.get("args") and T(e["args"][0]).endswith("::pending")]
                        if not reset or min(reset) > first_q:
                            allok = False
                            rep.bad("C01.R4", fn, loc_of(seq[first_q]), "boost-not-reset:%s" % kinds[0],
                                    "after a boosted yield the task is handed on (%s) while still in state pending_boost: the next "
                                    "worker finds a non-runnable state and drops it - the body never completes" % kinds[0])
                    seen_kinds.add(tuple(kinds))
                    if not want_ok:
                        allok = False
                        rep.bad("C01.R4", fn, fn.loc, "requeue:%s" % name, "after the body returned state '%s' the task is re-queued %s (expected %s)"
                                % (name, kinds or "not at all", {"pending": "exactly one schedule_thread_last", "pending_boost": "exactly one of schedule_thread / next_thrd"}.get(name, "no re-queue")))
                if allok:
                    rep.ok("C01.R4", fn, "returned state %s (next_thrd==thrd: %s): %d paths, re-queue events %s" % (name, same, len(paths), sorted(seen_kinds)), sites=len(paths))
        # entry: task found active / other non-pending
        for name, val in sorted(enum.items()):
            if name == "pending":
                continue
            paths = eval_walk(fn, top[0][0], tree_env={"state_val": val}, stop=head)
            allok = True
            for evs, end in paths:
                kinds = [requeue_kind(e) for _, _, e in evs if requeue_kind(e)]
                ran = any(e is rev for _, _, e in evs)
                want = ["schedule_thread"] if name == "active" else []
                if not (kinds == want and not ran):
                    allok = False
                    rep.bad("C01.R4", fn, fn.loc, "entry:%s" % name, "a task popped in state '%s' is handled wrongly (re-queued %s, body entered: %s)" % (name, kinds, ran))
            if allok:
                rep.ok("C01.R4", fn, "task popped in state %s: %s, body not entered (%d paths)" % (name, "re-queued once" if name == "active" else "dropped from the queue", len(paths)), sites=len(paths))

    # ---- R2
    bad2 = []
    n2 = 0
    for f in G.find("^" + TD + "::"):
        name = f.qname.rsplit("::", 1)[-1]
        for b, i, ev in f.all_events():
            if ev.get("k") == "call" and ev.get("recv") is not None and P(ev["recv"]) == "this->current_state_":
                n = callee_short(ev)
                if n == "load":
                    continue
                n2 += 1
                if n.startswith("compare_exchange"):
                    rep.ok("C01.R2", f, "current_state_ changed by %s" % n)
                elif f.kind in ("ctor",) or name == "rebind_base":
                    rep.ok("C01.R2", f, "current_state_.%s during construction/rebinding (object not shared)" % n)
                else:
                    rep.bad("C01.R2", f, loc_of(ev), "plain-%s" % n, "current_state_ is modified by %s() in %s: a concurrent state change (wake-up, other worker) is overwritten" % (n, f.qname))
    if n2 < 5:
        raise AnalysisBroken("C01.R2 found only %d modifications of current_state_" % n2)
    sst = F.find(r"^pika::threads::detail::switch_status::switch_status$")
    sss = F.find(r"^pika::threads::detail::switch_status::store_state$")
    if not sst or not sss:
        raise AnalysisBroken("switch_status members not found")
    if any(callee_short(e) == "set_state_tagged" for _, _, e in sst[0].all_events() if e.get("k") == "call"):
        rep.ok("C01.R2", sst[0], "switch_status acquires the task through set_state_tagged (tagged CAS)")
    else:
        rep.bad("C01.R2", sst[0], sst[0].loc, "switch-ctor", "switch_status no longer acquires the task through set_state_tagged")
    if any(callee_short(e) == "restore_state" for _, _, e in sss[0].all_events() if e.get("k") == "call"):
        rep.ok("C01.R2", sss[0], "store_state publishes through restore_state (CAS against the state it set)")
    else:
        rep.bad("C01.R2", sss[0], sss[0].loc, "store-state", "store_state no longer publishes through restore_state")
    # switch_status in detail (R15)
    rep.rule("C01.R15", "K7/K8: switch_status hands the worker's claim on: operator= builds the state to publish from the state the body returned, the unchanged state_ex and "
             "the claimed tag + 1 (a new generation per phase - the retry helper and the publishing compare-exchange tell phases apart by it) and keeps the 'next thread' "
             "the body handed back; store_state reports exactly the outcome of restore_state (true = published: the loop re-queues; false = lost: it must not) and hands "
             "the published state out; the destructor publishes only while no explicit store_state happened")
    from engine.kinds import guarded_returns as _gr, eval_tree as _et, Unknown as _Unk
    sop = [f for f in F.find(r"^pika::threads::detail::switch_status::operator=$") if f.parent == -1]
    if len(sop) != 1:
        raise AnalysisBroken("switch_status::operator= not found")
    sop = sop[0]
    ctor = [e for _, _, e in sop.all_events() if e.get("k") == "ctor" and "combined_tagged_state" in str(e.get("rec")) and len(e.get("args") or []) == 3]
    asg = [e for _, _, e in sop.all_events() if e.get("k") == "call" and e.get("op") == "=" and str(e.get("callee", "")).endswith("combined_tagged_state::operator=") and
           P(e.get("recv")).startswith("this->")]
    if len(ctor) != 1 or not asg:
        raise AnalysisBroken("switch_status::operator=: construction of the state to publish not found")
    par = sop.params[0]["name"] if sop.params else "new_state"
    a0, a1, a2 = ctor[0]["args"]
    PS = P(asg[0]["recv"])          # the member holding the state to publish (whatever it is called)
    okv = True
    try:
        okv = _et(a2, {PS + ".tag()": 41}) == 42
    except _Unk:
        okv = False
    if T(strip(a0)) == par + ".first" and T(strip(a1)) == PS + ".state_ex()" and okv:
        rep.ok("C01.R15", sop, "the state to publish is (returned state, state_ex, tag + 1)")
    else:
        rep.bad("C01.R15", sop, loc_of(ctor[0]), "publish-state", "switch_status::operator= builds the state to publish as (%s, %s, %s): it must be (returned state, "
                "prev_state_.state_ex(), prev_state_.tag() + 1) - without a new tag per phase a wake-up that raced with an earlier phase is taken for the current one "
                "(set_active_state cannot tell that the task was suspended and resumed in between)" % (T(a0), T(a1), T(a2)))
    nx = [e for _, _, e in sop.all_events() if e.get("k") == "call" and e.get("op") == "=" and P(e.get("recv")).startswith("this->") and (par + ".second") in T(e["args"][0])]
    if nx:
        rep.ok("C01.R15", sop, "the thread the body handed back as 'next' is kept")
    else:
        rep.bad("C01.R15", sop, sop.loc, "next-thread-dropped", "switch_status::operator= drops the 'next thread' reference the body returned: that thread is in no queue and never runs")
    stf = sss[0]
    nret = 0
    for leaf, fb, ev in _gr(stf):
        v = strip(leaf)
        if v.get("k") != "lit":
            raise AnalysisBroken("switch_status::store_state returns a non-literal")
        won = [t for a, t in fb if "restore_state(" in a]
        nret += 1
        if won and v.get("v") == won[0]:
            rep.ok("C01.R15", stf, "store_state returns %s exactly when restore_state %s" % (v.get("v"), "succeeded" if won[0] else "failed"))
        else:
            rep.bad("C01.R15", stf, loc_of(ev), "store-result", "store_state returns %s on a path where restore_state %s: the scheduling loop re-queues a task it lost / drops a "
                    "task it still owns (a pending task is never queued again)" % (v.get("v"), ("succeeded" if won[0] else "failed") if won else "was not consulted"))
    if nret < 2:
        raise AnalysisBroken("switch_status::store_state: returns not found")
    outw = [e for _, _, e in stf.all_events() if e.get("k") == "call" and e.get("op") == "=" and stf.params and P(e.get("recv")) == stf.params[0]["name"] and T(strip(e["args"][0])) == PS]
    if outw:
        rep.ok("C01.R15", stf, "the published state is handed to the caller")
    else:
        rep.bad("C01.R15", stf, stf.loc, "published-state-not-returned", "store_state does not hand the published state to the scheduling loop: the loop dispatches on a stale state")
    dts = [f for f in F.find(r"^pika::threads::detail::switch_status::~switch_status$") if f.parent == -1]
    flags = [cond_atoms(blk.cond)[0] for f_ in dts for blk in f_.blocks.values() if blk.cond is not None and re.match(r"^this->\w+$", cond_atoms(blk.cond)[0])]
    if not flags:
        raise AnalysisBroken("switch_status: the flag the destructor tests before publishing was not found")
    RF = flags[0]
    # every private helper store_state calls that writes the flag (disable_restore, whatever it is called) counts
    helpers = [f_ for f_ in F.fns if f_.parent == -1 and f_.qname.startswith("pika::threads::detail::switch_status::") and
               any(e.get("k") == "call" and callee_of(e) == f_.qname for _, _, e in stf.all_events())]
    dis_direct = [e for _, _, e in stf.all_events() if e.get("k") == "write" and P(e["lhs"]) == RF]
    dvals = [T(strip(e["rhs"])) for e in dis_direct] + [T(strip(e["rhs"])) for f_ in helpers for _, _, e in f_.all_events() if e.get("k") == "write" and P(e["lhs"]) == RF]
    if dvals and all(v == "false" for v in dvals):
        rep.ok("C01.R15", stf, "an explicit store_state switches the destructor's publication off")
    else:
        rep.bad("C01.R15", stf, stf.loc, "restore-not-disabled", "after an explicit store_state the destructor still publishes (need_restore_state_ not cleared): the state is "
                "published a second time after the loop already re-queued the task")

    st = G.find("^" + TD + "::set_state_tagged$")
    if st:
        f = st[0]
        ce = [e for _, _, e in f.all_events() if e.get("k") == "call" and callee_short(e) == "compare_exchange_strong"]
        ini = [e for _, _, e in f.all_events() if (e.get("k") == "call" and e.get("op") == "=" and P(e.get("recv")) == "new_tagged_state") or
               (e.get("k") == "write" and P(e["lhs"]) == "new_tagged_state")]
        tagged = ini and re.search(r"prev_state\.tag\(\) \+ 1", T(ini[0]))
        rets = [e for _, _, e in f.all_events() if e.get("k") == "return"]
        if ce and tagged and rets and strip(rets[0]["e"]).get("sid") == ce[0].get("sid"):
            rep.ok("C01.R2", f, "set_state_tagged: CAS(prev -> new state with tag + 1), returns the CAS result")
        else:
            rep.bad("C01.R2", f, f.loc, "set-state-tagged", "set_state_tagged must install tag+1 by compare-exchange and return its result")

    # ---- R5 / R6 / R8 / R9 on thread_queue
    tqs = [f for f in F.find("^" + TQ + "::") if not f.pattern and f.parent == -1]
    if len(tqs) < 20:
        raise AnalysisBroken("thread_queue members not instantiated (%d)" % len(tqs))
    pairs = [("work_items_", "work_items_count_.data_"), ("new_tasks_", "new_tasks_count_.data_"), ("terminated_items_", "terminated_items_count_")]

    def inc_of(ev, path, op):
        if ev.get("k") == "write" and ev["op"] == op and P(ev["lhs"]) == path:
            return True
        if ev.get("k") == "call" and ev.get("op") == op and ev.get("recv") is not None and P(ev["recv"]) == path:
            return True
        return False
    for fn in tqs:
        for cont, cnt in pairs:
            for b, i, ev in fn.all_events():
                if ev.get("k") != "call" or callee_short(ev) != "push" or not P(ev.get("recv")).endswith(cont):
                    continue
                base = P(ev["recv"])[: -len(cont)]
                cpath = base + cnt
                pre = precedes_on_all_paths(fn, lambda e: inc_of(e, cpath, "++"), (b, i))
                post = not always_followed_by(fn, (b, i), lambda e: inc_of(e, cpath, "++"))
                if cont == "terminated_items_":
                    ok = pre or post
                else:
                    ok = pre
                if ok:
                    rep.ok("C01.R5", fn, "%spush at %s is paired with ++%s" % (P(ev["recv"]) + ".", loc_of(ev), cpath))
                else:
                    rep.bad("C01.R5", fn, loc_of(ev), "push:" + cont, "%s.push without a preceding ++%s: the element is invisible to the length-based idle/steal logic and is never popped" % (P(ev["recv"]), cpath))
            # pops

            def arm(blk, label, cont=cont):
                if blk.cond is None or label not in ("true", "false"):
                    return None
                a, pos = cond_atoms(blk.cond)
                m = re.match(r"^(.*)" + re.escape(cont) + r"\.pop\(", a)
                if m and ((label == "true") == pos):
                    return m.group(1)
                return None

            def discharge(ev, cont=cont, cnt=cnt):
                for base in bases:
                    if inc_of(ev, base + cnt, "--"):
                        return base
                return None
            bases = set()
            for b, blk in fn.blocks.items():
                for lab in ("true", "false"):
                    t = arm(blk, lab)
                    if t is not None:
                        bases.add(t)
            if not bases:
                continue
            probs = edge_obligations(fn, arm, discharge)
            if probs:
                rep.bad("C01.R5", fn, fn.loc, "pop:" + cont, "a successful %s.pop is not followed by --%s on every path (%s): the counter drifts and the queue is believed non-empty/empty wrongly"
                        % (cont, cnt, probs[:2]))
            else:
                rep.ok("C01.R5", fn, "every successful %s pop is followed by --%s" % (cont, cnt))
    # R6
    entry_held = {"create_thread_object": "@lk", "add_new": "@lk", "add_new_always": "@lk", "cleanup_terminated_locked": None, "recycle_thread": None}
    guarded_fields = ["thread_map_", "thread_heap_small_", "thread_heap_medium_", "thread_heap_large_", "thread_heap_huge_", "thread_heap_nostack_"]
    n6 = 0
    for fn in tqs:
        name = fn.qname.rsplit("::", 1)[-1]
        if fn.kind in ("ctor", "dtor"):
            continue
        acc = [ev for _, _, ev in fn.all_events() if ev.get("k") == "read" and ev["e"].get("name") in guarded_fields and ev["e"].get("rec") == TQ]
        if not acc:
            continue
        if name in ("cleanup_terminated_locked", "recycle_thread"):
            # requires_lock: call sites are checked below
            rep.ok("C01.R6", fn, "%s requires mtx_ (its call sites are checked)" % name)
            n6 += 1
            continue
        if name == "on_start_thread":
            # exempt: reserve() on the owning worker before the start-up barrier; the emplace loop takes the lock
            pass
        lf = LockFlow(fn)
        for fld in guarded_fields:
            skip = set()
            if name == "on_start_thread":
                # named exemption (see ASSUMPTIONS): the reserve() calls at the top of on_start_thread
                for b, i, ev in fn.all_events():
                    if ev.get("k") == "read" and ev["e"].get("name") == fld:
                        for nxt in fn.blocks[b].events[i + 1:]:
                            if nxt.get("k") == "call" and callee_short(nxt) == "reserve" and P(nxt.get("recv")) == P(ev["e"]):
                                skip.add((b, i))
                            if nxt.get("k") == "call" and nxt.get("recv") is not None and P(nxt["recv"]) == P(ev["e"]):
                                break
            held_ids = None
            for b, i, ev in fn.all_events():
                if ev.get("k") != "read" or ev["e"].get("name") != fld or ev["e"].get("rec") != TQ or (b, i) in skip:
                    continue
                held = lf.held_before((b, i))
                if held is None:
                    continue
                n6 += 1
                path = P(ev["e"])
                base = path[: -len(fld)]
                if (base + "mtx_") in held or (name in entry_held and any(h.startswith("@") for h in held)):
                    rep.ok("C01.R6", fn, "%s accessed at %s under the queue mutex" % (path, loc_of(ev)))
                else:
                    rep.bad("C01.R6", fn, loc_of(ev), "%s:%s" % (fld, "w" if ev.get("written") else "r"), "%s accessed without the queue mutex (held: %s)" % (path, sorted(held)))
        for b, i, ev in fn.all_events():
            if ev.get("k") == "call" and callee_short(ev) in ("cleanup_terminated_locked", "recycle_thread") and callee_of(ev).startswith(TQ):
                held = lf.held_before((b, i)) or frozenset()
                if "this->mtx_" in held or any(h.startswith("@") for h in held):
                    rep.ok("C01.R6", fn, "%s called with the queue mutex held" % callee_short(ev))
                else:
                    rep.bad("C01.R6", fn, loc_of(ev), "locked-call:" + callee_short(ev), "%s requires the queue mutex" % callee_short(ev))
    if n6 < 8:
        raise AnalysisBroken("C01.R6 examined only %d accesses" % n6)
    # R8
    for fn in [f for f in tqs if f.qname.endswith("::create_thread")]:
        sch = [(b, i, ev) for b, i, ev in fn.all_events() if ev.get("k") == "call" and callee_short(ev) == "schedule_thread"]
        ins = lambda e: e.get("k") == "call" and callee_short(e) == "insert" and P(e.get("recv")) == "this->thread_map_"
        if sch and all(precedes_on_all_paths(fn, ins, (b, i)) for b, i, ev in sch):
            rep.ok("C01.R8", fn, "run_now path: thread_map_.insert precedes schedule_thread")
        else:
            rep.bad("C01.R8", fn, fn.loc, "map-before-schedule", "a new thread is scheduled before it is in the thread map (it can terminate and be erased before the insert)")
    for fn in [f for f in tqs if f.qname.endswith("::add_new")]:
        sch = [(b, i, ev) for b, i, ev in fn.all_events() if ev.get("k") == "call" and callee_short(ev) == "schedule_thread"]
        incm = lambda e: inc_of(e, "this->thread_map_count_", "++")
        # the source queue is the function's queue-pointer parameter, whatever it is called
        src = [q["name"] for q in fn.params if "thread_queue" in (q.get("type") or "") and "*" in (q.get("type") or "")]
        if len(src) != 1:
            raise AnalysisBroken("add_new: source-queue parameter not found (%s)" % [q.get("type") for q in fn.params])
        decn = lambda e, src=src[0]: inc_of(e, src + "->new_tasks_count_.data_", "--")
        loop_reset = lambda e: e.get("k") == "call" and callee_short(e) == "pop" and "new_tasks_" in P(e.get("recv"))
        if len(sch) == 1:
            b, i, ev = sch[0]
            decs = [(bb, ii) for bb, ii, e in fn.all_events() if decn(e) and precedes_on_all_paths(fn, incm, (bb, ii), reset_pred=loop_reset)]
            ok = precedes_on_all_paths(fn, incm, (b, i), reset_pred=loop_reset) and precedes_on_all_paths(fn, decn, (b, i), reset_pred=loop_reset) and decs
            if ok:
                rep.ok("C01.R8", fn, "++thread_map_count_ -> --new_tasks_count_ -> schedule_thread for every converted task")
            else:
                rep.bad("C01.R8", fn, loc_of(ev), "add-new-order", "staged->pending conversion must update thread_map_count_, then new_tasks_count_, then the work queue (idle detection relies on this order)")
    # R9
    for fn in [f for f in tqs if f.qname.endswith("::create_thread_object")]:
        pops = [(b, i, ev) for b, i, ev in fn.all_events() if ev.get("k") == "call" and callee_short(ev) == "pop_back"]
        if not pops:
            continue
        miss = [p for b, i, ev in pops for p in always_followed_by(fn, (b, i), lambda e: e.get("k") == "call" and callee_short(e) in ("rebind", "rebind_base"))]
        if not miss:
            rep.ok("C01.R9", fn, "recycled thread object is rebound on every path")
        else:
            rep.bad("C01.R9", fn, loc_of(pops[0][2]), "recycle-without-rebind", "a thread object taken from the recycle heap is used without rebind(): the new task would run the previous task's function/state")

    # ---- R7
    for sched in ("local_priority_queue_scheduler", "local_queue_scheduler", "shared_priority_queue_scheduler"):
        for member in ("create_thread", "schedule_thread", "schedule_thread_last"):
            m = member
            if sched == "shared_priority_queue_scheduler" and member != "create_thread":
                m = "schedule_work"
            fs = F.find(r"::%s::%s$" % (sched, m), pattern=False)
            if not fs:
                raise AnalysisBroken("%s::%s not instantiated" % (sched, m))
            for fn in fs:
                def is_enq(e, fn=fn):
                    return e.get("k") == "call" and callee_short(e) in ("create_thread", "schedule_thread") and e.get("recv") is not None and \
                        P(e["recv"]) != "this" and callee_of(e) != fn.qname
                cf = CountFlow(fn, lambda ev, pos: 1 if is_enq(ev) else 0)
                if cf.exits == frozenset([1]):
                    rep.ok("C01.R7", fn, "exactly one per-queue enqueue on every non-throwing path")
                else:
                    rep.bad("C01.R7", fn, fn.loc, "enqueue-count", "%s::%s enqueues %s times depending on the path (priority/hint branch): the task is dropped or queued twice" % (sched, m, sorted(cf.exits)))

    # ---- R10: a task that is resumed while still 'active' is not dropped (the same rules decide C02)
    from .common import import_rules
    import_rules(rep, tier, "C02", ("C02.R3", "C02.R4"), "C01.R10",
                 "K7/K3 (shared with C02.R3/R4): set_thread_state on an 'active' target schedules the set_active_state helper or retries; "
                 "the helper aborts only when the tag changed - otherwise a resumed task is never queued again (its body never completes)")


    # ---- R11: a task popped from a queue is handed to the caller at once
    rep.rule("C01.R11", "K4/K7: scheduler get_next_thread: after a successful pop into thrd no further pop is attempted and the function returns true; it returns true only after a successful pop (a popped task is neither overwritten nor dropped)")
    SG = facts(rep, lib("thread_pools", "src/scheduled_thread_pool.cpp"),
               [r"::(local_priority_queue_scheduler|local_queue_scheduler|static_queue_scheduler|static_priority_queue_scheduler)::get_next_thread$"])
    gnt = [f for f in SG.fns if not f.pattern and f.parent == -1]
    if len(gnt) < 3:
        raise AnalysisBroken("scheduler get_next_thread instantiations not found")
    for f in gnt:
        ff = FactFlow(f, eh=False)
        is_pop = lambda e: e.get("k") == "call" and callee_short(e) == "get_next_thread" and e.get("recv") is not None and P(e["recv"]) != "this" and \
            e.get("args") and P(e["args"][0]) == "thrd"
        pops = [(b, i, e) for b, i, e in f.all_events() if is_pop(e)]
        if not pops:
            raise AnalysisBroken("%s: no per-queue pop found" % f.full)
        popvars = set()
        for b, i, e in f.all_events():
            if e.get("k") == "decl" and e.get("init") is not None and is_pop(strip(e["init"])):
                popvars.add(e.get("var"))

        from engine.core import forward
        NO, MAYBE, YES = "no", "maybe", "yes"
        bad = []
        nret = [0]

        def tr(st, e, pos):
            if is_pop(e):
                if st != NO:
                    bad.append(("second-pop", loc_of(e), st))
                return MAYBE
            if e.get("k") == "return" and e.get("e") is not None:
                nret[0] += 1
                v = strip(e["e"])
                if isinstance(v, dict) and v.get("k") == "lit":
                    if v.get("v") is True and st != YES:
                        bad.append(("true-without-pop", loc_of(e), st))
                    if v.get("v") is False and st != NO:
                        bad.append(("popped-task-dropped", loc_of(e), st))
                elif not (isinstance(v, dict) and is_pop(v)) and not (isinstance(v, dict) and v.get("k") == "var" and v.get("name") in popvars):
                    bad.append(("opaque-return", loc_of(e), T(v)))
            return st

        def edge(st, blk, lab, cond):
            if cond is None or lab not in ("true", "false") or st != MAYBE:
                return st
            a_, pol = cond_atoms(cond)
            if "get_next_thread(thrd" in a_ or a_ in popvars:
                val = (lab == "true") == pol
                return YES if val else NO
            return st
        forward(f, NO, tr, edge, lambda x, y: x if x == y else MAYBE, eh=False)
        bad = sorted(set(bad))
        nret = nret[0]
        if bad:
            for kind, loc, what in bad[:3]:
                rep.bad("C01.R11", f, loc, "%s:%s" % (kind, f.qname.rsplit("::", 2)[-2]), {
                    "second-pop": "another queue is popped into thrd although an earlier pop may have succeeded (state: %s): the first task is overwritten and never runs" % what,
                    "true-without-pop": "returns true on a path without a successful pop: the worker runs a stale / empty thread reference",
                    "popped-task-dropped": "returns false although a pop may have succeeded (state: %s): the popped task is dropped" % what,
                    "opaque-return": "returns %s, which is not the outcome of a pop" % what}[kind])
        else:
            rep.ok("C01.R11", f, "%d pops, %d returns: success is returned at once, false only without a popped task" % (len(pops), nret), sites=len(pops) + nret)

    # ---- R13: every queue the scheduler pushes to is popped by its owner whatever the stealing mode is
    rep.rule("C01.R13", "K6 (pop coverage): every queue member that the scheduler's schedule_thread pushes to (high-priority, normal, low-priority) is popped in "
             "get_next_thread on a path that does not depend on the stealing mode being enabled (static policies and remove_scheduler_mode(enable_stealing) "
             "switch it off: a queue popped only under enable_stealing is never drained there and its tasks never run)")
    SP_ = facts(rep, lib("thread_pools", "src/scheduled_thread_pool.cpp"),
                [r"::(local_priority_queue_scheduler|local_queue_scheduler|static_queue_scheduler|static_priority_queue_scheduler)::(get_next_thread|schedule_thread)$"])
    from engine.kinds import derives_from
    byclass = {}
    for f in SP_.fns:
        if not f.pattern and f.parent == -1:
            byclass.setdefault(f.full.rsplit("::", 1)[0], {})[f.qname.rsplit("::", 1)[-1]] = f
    n13 = 0
    for cls, fs_ in sorted(byclass.items()):
        g, sc = fs_.get("get_next_thread"), fs_.get("schedule_thread")
        if g is None:
            continue
        if sc is None:
            # derived policies inherit schedule_thread: use the one of the base class of the same instantiation
            base = [v.get("schedule_thread") for k_, v in byclass.items() if v.get("schedule_thread") is not None and k_.split("<", 1)[-1] == cls.split("<", 1)[-1]]
            sc = base[0] if base else None
        if sc is None:
            continue
        pushed = set()
        for _, _, e in sc.all_events():
            if e.get("k") == "call" and callee_short(e) == "schedule_thread" and e.get("recv") is not None and P(e["recv"]) != "this":
                m = re.match(r"^this->(\w+)", P(e["recv"]))
                if m:
                    pushed.add(m.group(1))
        if not pushed:
            raise AnalysisBroken("%s::schedule_thread: no queue member is pushed to" % cls)
        steal = [q["name"] for q in g.params if (q.get("type") or "").strip() == "bool"]
        steal = steal[-1] if steal else "enable_stealing"
        ffg = FactFlow(g, eh=False)
        is_pop = lambda e: e.get("k") == "call" and callee_short(e) == "get_next_thread" and e.get("recv") is not None and P(e["recv"]) != "this"
        for m in sorted(pushed):
            mine = [(b, i, e) for b, i, e in g.all_events() if is_pop(e) and derives_from(g, e["recv"], lambda t, m=m: ("this->" + m) in t)]
            free = [(b, i, e) for b, i, e in mine if (steal, True) not in (ffg.before.get((b, i)) or frozenset())]
            n13 += 1
            if free:
                rep.ok("C01.R13", g, "%s (pushed to by schedule_thread) is popped independently of the stealing mode (%d of %d pop sites)" % (m, len(free), len(mine)))
            else:
                rep.bad("C01.R13", g, loc_of(mine[0][2]) if mine else g.loc, "pop-needs-stealing:" + m,
                        "schedule_thread pushes to %s, but get_next_thread pops it %s: with the stealing mode off (static policies, remove_scheduler_mode(enable_stealing)) tasks queued "
                        "there are never dequeued - their bodies are never entered" % (m, "only on paths where %s is true" % steal if mine else "nowhere"))
    if n13 < 4:
        raise AnalysisBroken("C01.R13 examined only %d (scheduler, queue member) pairs" % n13)

    # ---- R16: the thread map and its counter move together; a converted task is queued
    rep.rule("C01.R16", "K3 (pairing on edges): in thread_queue a successful thread_map_.insert is followed by ++thread_map_count_ and a successful thread_map_.erase by "
             "--thread_map_count_ (and only then) - the counter is what get_thread_count / the idle and shutdown tests read, a drift makes pika::wait() and worker "
             "exit wait for ever or leave early; add_new queues (schedule_thread) every task it converted and created the thread object before inserting it")
    from engine.kinds import eval_tree as _et16, Unknown as _U16, derives_from as _df16
    n16 = 0
    seen16 = set()
    for fn in tqs:
        key16 = fn.qname
        if key16 in seen16:
            continue
        ins = [(b, i, e) for b, i, e in fn.all_events() if e.get("k") == "call" and callee_short(e) == "insert" and P(e.get("recv")) == "this->thread_map_"]
        ers = [(b, i, e) for b, i, e in fn.all_events() if e.get("k") == "call" and callee_short(e) == "erase" and P(e.get("recv")) == "this->thread_map_"]
        if not ins and not ers:
            continue
        seen16.add(key16)
        ff16 = FactFlow(fn)

        def edge_kind(blk, lab, fn=fn):
            """'ins' / 'ers' if taking this edge means the insert / erase tested in blk's condition succeeded"""
            if blk.cond is None or lab not in ("true", "false"):
                return None
            txt = cond_atoms(blk.cond)[0]
            want = lab == "true"
            if "this->thread_map_.erase(" in txt:
                from engine.core import subexprs as _sx16
                calls = _sx16(blk.cond, lambda y: isinstance(y, dict) and y.get("k") == "call" and callee_short(y) == "erase")
                try:
                    v1 = bool(_et16(blk.cond, {T(calls[0]): 1}))
                    v0 = bool(_et16(blk.cond, {T(calls[0]): 0}))
                except (_U16, IndexError):
                    return None
                if v1 != v0 and v1 == want:
                    return "ers"
                return None
            if _df16(fn, blk.cond, lambda t: "this->thread_map_.insert(" in t) and ".second" in txt:
                a, pos = cond_atoms(blk.cond)
                if (pos == want):
                    return "ins"
            return None
        arm = lambda blk, lab: edge_kind(blk, lab)

        def discharge(ev):
            if inc_of(ev, "this->thread_map_count_", "++"):
                return "ins"
            if inc_of(ev, "this->thread_map_count_", "--"):
                return "ers"
            return None
        armed = [(bid, lab) for bid, blk in fn.blocks.items() for lab in ("true", "false") if edge_kind(blk, lab)]
        probs = edge_obligations(fn, arm, discharge) if armed else []
        n16 += 1
        if probs:
            rep.bad("C01.R16", fn, fn.loc, "map-count-pairing", "%s: a successful thread_map_ %s is not followed by the matching update of thread_map_count_ on every path (%s)"
                    % (fn.qname.rsplit("::", 1)[-1], "insert" if probs[0][0] == "ins" else "erase", probs[:2]))
        elif armed:
            rep.ok("C01.R16", fn, "every successful thread_map_ insert/erase is followed by the matching thread_map_count_ update (%d guarded sites)" % len(armed))
        # the other direction: the counter moves only with the map
        for b, i, e in fn.all_events():
            d = discharge(e)
            if d is None:
                continue
            fb = ff16.before.get((b, i)) or frozenset()
            if d == "ers":
                under = any(("this->thread_map_.erase(" in a) for a, t in fb)
                ok_dir = False
                for a, t in fb:
                    if "this->thread_map_.erase(" in a:
                        m_ = re.search(r"(==|!=)\s*0|0\s*(==|!=)", a)
                        succ = (t and "!=" in a) or ((not t) and "==" in a) or (t and m_ is None)
                        ok_dir = ok_dir or succ
                plain = any(x.get("k") == "call" and callee_short(x) == "erase" and P(x.get("recv")) == "this->thread_map_" for x in fn.blocks[b].events[:i]) and not under
                if ok_dir or plain or precedes_on_all_paths(fn, lambda x: x.get("k") == "call" and callee_short(x) == "erase" and P(x.get("recv")) == "this->thread_map_", (b, i)) and not under:
                    rep.ok("C01.R16", fn, "--thread_map_count_ at %s only after an erase that removed the entry" % loc_of(e))
                else:
                    rep.bad("C01.R16", fn, loc_of(e), "count-without-erase", "%s decrements thread_map_count_ on a path where thread_map_.erase did not remove an entry (facts %s): the "
                            "counter drifts below the number of live thread objects" % (fn.qname.rsplit("::", 1)[-1], sorted(fb)[:4]))
            else:
                if precedes_on_all_paths(fn, lambda x: x.get("k") == "call" and callee_short(x) == "insert" and P(x.get("recv")) == "this->thread_map_", (b, i)):
                    rep.ok("C01.R16", fn, "++thread_map_count_ at %s only after the insert" % loc_of(e))
                else:
                    rep.bad("C01.R16", fn, loc_of(e), "count-without-insert", "%s increments thread_map_count_ without a preceding thread_map_.insert" % fn.qname.rsplit("::", 1)[-1])
    if n16 < 3:
        raise AnalysisBroken("C01.R16: only %d thread_queue functions with thread_map_ insert/erase found" % n16)
    for fn in [f for f in tqs if f.qname.endswith("::add_new")][:1]:
        sch = [(b, i, e) for b, i, e in fn.all_events() if e.get("k") == "call" and callee_short(e) == "schedule_thread"]
        ins = [(b, i, e) for b, i, e in fn.all_events() if e.get("k") == "call" and callee_short(e) == "insert" and P(e.get("recv")) == "this->thread_map_"]
        cto = lambda x: x.get("k") == "call" and callee_short(x) == "create_thread_object"
        if not sch:
            rep.bad("C01.R16", fn, fn.loc, "converted-not-queued", "add_new converts staged tasks into thread objects but never queues them (no schedule_thread): their bodies are never entered")
        elif ins and all(always_followed_by(fn, (b, i), lambda x: x.get("k") in ("call",) and callee_short(x) == "schedule_thread",
                                          stop_pred=lambda x: x.get("k") in ("throw",) or (x.get("k") == "call" and callee_short(x) in ("throw_exception", "throws_if"))) == [] for b, i, e in ins):
            rep.ok("C01.R16", fn, "every inserted thread is queued with schedule_thread (the failed-insert path throws)")
        else:
            rep.bad("C01.R16", fn, loc_of(ins[0][2]) if ins else fn.loc, "converted-not-queued", "add_new: a path from thread_map_.insert reaches the next iteration / the exit without schedule_thread")
        if ins and all(precedes_on_all_paths(fn, cto, (b, i), reset_pred=lambda x: x.get("k") == "call" and callee_short(x) == "pop" and "new_tasks_" in P(x.get("recv"))) for b, i, e in ins):
            rep.ok("C01.R16", fn, "the thread object is created before it is inserted into the map")
        else:
            rep.bad("C01.R16", fn, loc_of(ins[0][2]) if ins else fn.loc, "insert-before-create", "add_new inserts a thread id into the map before create_thread_object produced it (an empty id is inserted and scheduled)")

    # R16 (continued): create before insert everywhere; destroy_thread hands the object to the terminated list; cleanup reports 'nothing left' truthfully
    seen16b = set()
    for fn in tqs:
        if fn.qname in seen16b:
            continue
        ins = [(b, i, e) for b, i, e in fn.all_events() if e.get("k") == "call" and callee_short(e) == "insert" and P(e.get("recv")) == "this->thread_map_"]
        if not ins or fn.qname.endswith("::add_new"):
            continue
        seen16b.add(fn.qname)
        if all(precedes_on_all_paths(fn, lambda x: x.get("k") == "call" and callee_short(x) == "create_thread_object", (b, i)) for b, i, e in ins):
            rep.ok("C01.R16", fn, "the thread object is created before it is inserted into the map")
        else:
            rep.bad("C01.R16", fn, loc_of(ins[0][2]), "insert-before-create", "%s inserts a thread id into the map before create_thread_object produced it" % fn.qname.rsplit("::", 1)[-1])
    for fn in [f for f in tqs if f.qname.endswith("::destroy_thread")][:1]:
        if not fn.params:
            raise AnalysisBroken("thread_queue::destroy_thread: parameter not found")
        tp = fn.params[0]["name"]
        ps = [(b, i, e) for b, i, e in fn.all_events() if e.get("k") == "call" and callee_short(e) == "push" and P(e.get("recv")) == "this->terminated_items_"]
        cf = CountFlow(fn, lambda e, pos: 1 if (e.get("k") == "call" and callee_short(e) == "push" and P(e.get("recv")) == "this->terminated_items_") else 0)
        incs = [e for _, _, e in fn.all_events() if inc_of(e, "this->terminated_items_count_", "++")]
        if ps and cf.exits == frozenset([1]) and all(tp in T(e["args"][0]) for _, _, e in ps) and incs:
            rep.ok("C01.R16", fn, "destroy_thread hands the terminated object to terminated_items_ exactly once and counts it")
        else:
            rep.bad("C01.R16", fn, fn.loc, "terminated-not-collected", "destroy_thread does not put the terminated thread object on terminated_items_ exactly once and count it (pushes on exit "
                    "paths: %s, counted: %s): the object is never erased from the thread map, thread_map_count_ never returns to zero (workers cannot exit, pika::wait() hangs) / "
                    "it is recycled twice" % (sorted(cf.exits), bool(incs)))
    from engine.kinds import guarded_returns as _gr16
    for fn in [f for f in tqs if f.qname.endswith("::cleanup_terminated_locked")][:1]:
        nr = 0
        for leaf, fb, ev in _gr16(fn):
            v = strip(leaf)
            nr += 1
            if v.get("k") == "lit":
                zero = any("terminated_items_count_" in a and (("== 0" in a or "0 ==" in a) and t or ("!= 0" in a or "0 !=" in a) and not t) for a, t in fb)
                if v.get("v") is True and zero:
                    rep.ok("C01.R16", fn, "returns true at %s only with no terminated object left" % loc_of(ev))
                elif v.get("v") is True:
                    rep.bad("C01.R16", fn, loc_of(ev), "cleanup-result", "cleanup_terminated_locked reports 'nothing left' without having seen terminated_items_count_ == 0")
                else:
                    if zero:
                        rep.bad("C01.R16", fn, loc_of(ev), "cleanup-result", "cleanup_terminated_locked reports 'objects left' although terminated_items_count_ == 0: an idle worker never "
                                "sees the clean state it needs to exit or go to sleep")
            else:
                from engine.core import subexprs as _sxc
                loads = _sxc(leaf, lambda y: isinstance(y, dict) and y.get("k") == "call" and "terminated_items_count_" in P(y.get("recv") or {}))
                okc = False
                if loads:
                    try:
                        okc = bool(_et16(leaf, {T(loads[0]): 0})) is True and bool(_et16(leaf, {T(loads[0]): 3})) is False
                    except _U16:
                        okc = False
                if okc:
                    rep.ok("C01.R16", fn, "returns terminated_items_count_ == 0")
                else:
                    rep.bad("C01.R16", fn, loc_of(ev), "cleanup-result", "cleanup_terminated_locked returns %s, which is not 'no terminated object is left' (true exactly when "
                            "terminated_items_count_ == 0): workers exit/sleep with objects still to be erased, or never do" % T(leaf))
        if nr < 2:
            raise AnalysisBroken("cleanup_terminated_locked: returns not found")

    # ---- R18: a popped task description is converted and queued
    from engine.kinds import edge_obligations as _eo18
    MC = facts(rep, lib("thread_pools", "src/scheduled_thread_pool.cpp"), [r"^pika::threads::detail::thread_queue_mc::add_new$"])
    conv_fns = [f for f in tqs if f.qname.endswith("::add_new")][:1] + [f for f in MC.fns if not f.pattern and f.parent == -1 and f.qname.endswith("thread_queue_mc::add_new")][:1]
    if len(conv_fns) < 2:
        raise AnalysisBroken("C01.R18: add_new of thread_queue / thread_queue_mc not found (%d)" % len(conv_fns))
    for fn in conv_fns:
        cls18 = fn.qname.rsplit("::", 2)[-2]
        pops = [blk for blk in fn.blocks.values() if blk.cond is not None and re.search(r"new_task(_item)?s_\.pop\(", cond_atoms(blk.cond)[0])]
        if not pops:
            raise AnalysisBroken("%s::add_new: pop of the staged queue as a branch condition not found" % cls18)

        def arm18(blk, label):
            if blk.cond is None:
                return None
            a, pos = cond_atoms(blk.cond)
            if re.search(r"new_task(_item)?s_\.pop\(", a) and label == ("true" if pos else "false"):
                return "popped"
            return None
        state18 = {"created": False}

        def dis18(ev):
            # the obligation ends when the converted task has been queued
            if ev.get("k") == "call" and callee_short(ev) in ("schedule_thread", "schedule_work"):
                return "popped"
            return None
        probs = _eo18(fn, arm18, dis18)
        creates = [e for _, _, e in fn.all_events() if e.get("k") == "call" and callee_short(e) == "create_thread_object"]
        if probs or not creates:
            rep.bad("C01.R18", fn, loc_of(pops[0].events[-1]) if pops[0].events else fn.loc, "popped-not-converted:" + cls18, "%s::add_new: a task description popped from the staged queue can "
                    "reach %s without having been turned into a queued thread: the description is destroyed, the task's body is never entered, new_tasks_count_ and the activity count "
                    "still count it (pika::wait() hangs)" % (cls18, probs[0][1] if probs else "the end of the loop body without create_thread_object"))
        else:
            rep.ok("C01.R18", fn, "%s::add_new: every popped description is created and queued before the next pop / the return" % cls18)

    # ---- R19: only the owner recycles into its own lists
    QD = facts(rep, lib("thread_pools", "src/scheduled_thread_pool.cpp"), [r"^pika::threads::detail::queue_holder_thread::destroy_thread$"])
    qd = [f for f in QD.fns if f.parent == -1 and not f.pattern and f.qname.endswith("queue_holder_thread::destroy_thread")]
    if not qd:
        raise AnalysisBroken("queue_holder_thread::destroy_thread not instantiated")
    for fn in qd[:1]:
        flag = [p_["name"] for p_ in fn.params if (p_.get("type") or "").strip() == "bool"]
        if not flag:
            raise AnalysisBroken("queue_holder_thread::destroy_thread: the cross-thread flag parameter was not found")
        ff19 = FactFlow(fn, eh=False)
        cl = [(b, i, e) for b, i, e in fn.all_events() if e.get("k") == "call" and callee_short(e) in ("cleanup_terminated", "recycle_thread")]
        if not cl:
            rep.ok("C01.R19", fn, "destroy_thread does not recycle into the owner's lists at all")
        for b, i, e in cl:
            fb = ff19.before.get((b, i)) or frozenset()
            if (flag[0], False) in fb:
                rep.ok("C01.R19", fn, "%s is reached only with %s == false (the caller owns the lists)" % (callee_short(e), flag[0]))
            else:
                rep.bad("C01.R19", fn, loc_of(e), "foreign-worker-recycles", "queue_holder_thread::destroy_thread reaches %s on a path where '%s' is not known to be false: a worker that "
                        "does not own this holder (it finished a stolen task) moves recycled thread objects onto the owner's unsynchronised thread_heap_ lists while the owner pops from "
                        "them in create_thread_object - one thread object can be handed to two tasks" % (callee_short(e), flag[0]))

    # ---- R14: staged tasks are converted even at the thread-object cap
    rep.rule("C01.R14", "K7 (evaluated): thread_queue::add_new_always converts staged tasks (reaches add_new) whenever the thread map has room, and also "
             "when it is at its cap but nothing is pending - otherwise a queue whose ~max_thread_count live tasks are all suspended never starts the "
             "staged tasks they wait for (bodies never entered)")
    from engine.kinds import eval_walk as _ew, expand_locals as _xl
    from engine.core import subexprs as _sx
    n14 = 0
    for fn in [f for f in tqs if f.qname.endswith("::add_new_always")]:
        # names by role: the local initialised from thread_map_.size(); the pending container / its counter
        cnt = [e["var"] for _, _, e in fn.all_events() if e.get("k") == "decl" and e.get("init") is not None and "thread_map_.size()" in T(e["init"])]
        conv = [(b, i, e) for b, i, e in fn.all_events() if e.get("k") == "call" and callee_short(e) == "add_new"]
        if not conv:
            rep.bad("C01.R14", fn, fn.loc, "never-converts", "add_new_always never calls add_new: staged tasks are never converted")
            continue
        for name, count, pending_empty, must in (("room in the thread map", 0, False, True), ("room in the thread map, nothing pending", 0, True, True),
                                                 ("map at its cap, nothing pending", 1000, True, True)):
            env = {"this->parameters_.max_thread_count_": 1000, "this->parameters_.min_add_new_count_": 10, "this->parameters_.max_add_new_count_": 10}
            for c_ in cnt:
                env[c_] = count
            # every expression that asks the pending queue: empty()/size()/counter loads
            for _, _, e in fn.all_events():
                for x in _sx(e.get("e") if e.get("k") in ("read", "return") else e, lambda y: isinstance(y, dict) and y.get("k") == "call"):
                    r_ = P(x.get("recv")) if x.get("recv") is not None else ""
                    if "work_items_" in r_:
                        if callee_short(x) == "empty":
                            env[T(x)] = pending_empty
                        elif callee_short(x) in ("size", "load", "size_approx") or x.get("op") in ("cast",):
                            env[T(x)] = 0 if pending_empty else 5
                    if "thread_map_" in r_ and callee_short(x) == "size":
                        env[T(x)] = count
            for bid, blk in fn.blocks.items():
                if blk.cond is not None:
                    for x in _sx(blk.cond, lambda y: isinstance(y, dict) and y.get("k") == "call"):
                        r_ = P(x.get("recv")) if x.get("recv") is not None else ""
                        if "work_items_" in r_:
                            env[T(x)] = pending_empty if callee_short(x) == "empty" else (0 if pending_empty else 5)
            res = _ew(fn, fn.entry, tree_env=env, max_paths=2048, limit=4000)
            n14 += 1
            missed = [(evs, end) for evs, end in res if not any(e is conv[0][2] or (e.get("k") == "call" and callee_short(e) == "add_new") for _, _, e in evs) and end in ("return", "exit")]
            # branches the scenario does not decide (logging, wait-time bookkeeping, assertions in debug configurations) are explored both
            # ways; the scenario is decided when the exploration was complete - every explored path is then judged below
            undecided = len(res) >= 2048 or any(end in ("limit",) for _, end in res)
            if undecided:
                raise AnalysisBroken("add_new_always: scenario '%s' not decided (%d paths)" % (name, len(res)))
            if missed:
                last = missed[0][0][-1][2] if missed[0][0] else {}
                rep.bad("C01.R14", fn, loc_of(last) if last.get("loc") else fn.loc, "staged-not-converted:" + name.replace(" ", "-"),
                        "add_new_always returns without converting staged tasks in the situation '%s' (thread map %d of 1000, pending queue %s): "
                        "tasks that are still staged are never started although nothing else can run" % (name, count, "empty" if pending_empty else "not empty"))
            else:
                rep.ok("C01.R14", fn, "'%s': add_new is reached on every path" % name)
    if n14 < 3:
        raise AnalysisBroken("C01.R14: add_new_always not evaluated")

    # ---- R17: the owner converts its staged tasks whenever it looks (scheduling_loop calls this on every yield, not only when idle)
    rep.rule("C01.R17", "K7 (evaluated): thread_queue::wait_or_add_new on the worker's own queue reaches add_new_always whenever staged tasks exist and the queue lock is free - "
             "also while pending work exists (the scheduling loop calls it after every yield; a worker whose pending list never runs dry, e.g. two tasks that yield "
             "in turn, would otherwise never start the task they wait for)")
    from engine.kinds import interp as _ip17, eval_tree as _ev17, Unknown as _U17
    own = [f for f in tqs if f.qname.endswith("::wait_or_add_new") and not any("thread_queue" in str(p_.get("type", "")) and "*" in str(p_.get("type", "")) for p_ in f.params)]
    if not own:
        raise AnalysisBroken("thread_queue::wait_or_add_new (own-queue overload) not found")
    for fn in own[:1]:
        for name, staged, pending, must in (("staged tasks and pending work", 3, 2, True), ("staged tasks, nothing pending", 3, 0, True), ("nothing staged", 0, 2, False)):
            def h(e, env, staged=staged, pending=pending):
                if e.get("k") == "call":
                    r_ = P(e.get("recv")) if e.get("recv") is not None else ""
                    cs = callee_short(e)
                    if cs == "load" and "new_tasks_count_" in r_:
                        return staged
                    if cs == "load" and "work_items_count_" in r_:
                        return pending
                    if cs == "owns_lock":
                        return True
                    if cs in ("empty",) and "work_items_" in r_:
                        return pending == 0
                raise _U17(T(e))
            res = _ip17(fn, {"$call": h}, until=lambda e: e.get("k") == "call" and callee_short(e) in ("add_new_always", "add_new"))
            reached = [1 for end, e_, evs, ev in res if end == "stop"]
            gave_up = [1 for end, e_, evs, ev in res if end in ("return", "exit")]
            if must and gave_up:
                rep.bad("C01.R17", fn, fn.loc, "staged-not-converted-while-busy:" + name.replace(" ", "-"), "thread_queue::wait_or_add_new returns without converting staged tasks in the situation "
                        "'%s' (queue lock free): a task staged on a worker whose pending list is kept non-empty by yielding tasks is never started" % name)
            elif must and reached:
                rep.ok("C01.R17", fn, "'%s': add_new_always is reached" % name)
            elif (not must) and not reached:
                rep.ok("C01.R17", fn, "'%s': returns without taking the lock" % name)
            elif not must:
                rep.ok("C01.R17", fn, "'%s': looks anyway" % name)
            else:
                raise AnalysisBroken("wait_or_add_new: scenario '%s' not decided" % name)

    # ---- R12: the containers the work queues are built on (the same rules decide C17)
    import_rules(rep, tier, "C17", ("C17.R4", "C17.R5", "C17.R7"), "C01.R12",
                 "K8/K6 (shared with C17.R4/R5): the lock-free deque behind the LIFO work queues (tag change on every CAS, relinking only when stable, "
                 "push followed by stabilize) and the queue back-ends (one container operation per push/pop, LIFO/FIFO/steal ends) - a task pushed while "
                 "another worker pops is neither lost nor handed out twice")

