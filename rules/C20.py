# C20 — MPI requests complete their sender exactly once, after the transfer (structural part; DESIGN.md §5 C20)
import re
from engine import core
from engine.core import AnalysisBroken, P, T, callee_of, callee_short, cond_atoms, loc_of, strip, block_path, is_moved
from engine.kinds import LockFlow, FactFlow, CountFlow, precedes_on_all_paths, always_followed_by, loop_of
from engine.completions import Completions, NS
from .common import facts, lib, driver

EXPLANATION = (
    "Static analysis of the current source, parsed under the MPI configuration (-DPIKA_HAVE_MPI with the OpenMPI "
    "headers of the image; the pinned build has MPI off and never compiles this module). Decided: registering a request "
    "increments the global activity count and the in-flight counter before the request becomes visible to the pollers, "
    "and each of the three callback invocation sites decrements in-flight, invokes, then decrements the activity count, "
    "once per callback (R1); the request/callback vectors are only touched under polling_vector_mtx_ or in the "
    "single-threaded mode's own functions (R2); a callback is taken out / invoked only for an index MPI_Testsome / "
    "MPI_Testany reported, and that request slot is nulled on the same path so it is never tested again (R3); the "
    "dispatch switch of the adaptor covers every handler method and each branch completes or hands the operation to "
    "exactly one callback registration (R4); start_polling registers polling under the mutex, register_polling waits "
    "for in-flight == 0 and installs the poll function matching single_thread_mode_, stop_polling unregisters under the "
    "same mutex, requests go straight to the vectors only in single-threaded mode (R5). Not decided: anything that "
    "depends on the MPI library's behaviour; the CUDA analogue (headers absent).")
ASSUMPTIONS = ["MPI_Testsome/MPI_Testany report only completed requests (MPI standard)", "scheduler_base::set_mpi_polling_functions installs the function that the scheduling loop calls"]
FLOORS = {"C20.R1": 4, "C20.R2": 6, "C20.R3": 3, "C20.R4": 5, "C20.R5": 5, "C20.R6": 1, "C20.R7": 3}

D_ = "pika::mpi::experimental::detail::"
MD = D_ + "mpi_data_"


def run(rep, tier):
    rep.rule("C20.R1", "K8: increment activity + in-flight before publishing a request; --in_flight -> invoke -> decrement activity at every invocation site")
    rep.rule("C20.R2", "K1: requests_/callbacks_ only under polling_vector_mtx_ (or in the single-threaded functions)")
    rep.rule("C20.R3", "K2/K6: callbacks taken/invoked only for reported indices; the request slot is nulled on the same path")
    rep.rule("C20.R6", "K6 (who may spin): the yield_while handler waits for its request through util::yield_while with timed suspension allowed (it yields the worker between polls; "
             "a spinning wait lets outstanding requests occupy every worker while the tasks that complete them cannot run)")
    rep.rule("C20.R4", "K7: transform_mpi's dispatch switch covers every handler method; each branch completes / registers exactly once")
    rep.rule("C20.R5", "K2/K8: start/stop polling under the mutex; register_polling waits for in-flight 0 and installs the matching poll function")

    tu = lib("async_mpi", "src/mpi_polling.cpp")
    G = facts(rep, tu, [r"^pika::mpi::experimental::"], extra=core.MPI_FLAGS)

    def one(name, n=1, pred=None):
        fs = [f for f in G.find("^pika::mpi::experimental::(detail::)?" + name + "$") if f.parent == -1 and f.file.endswith("mpi_polling.cpp") and (pred is None or pred(f))]
        if len(fs) != n:
            raise AnalysisBroken("mpi_polling.cpp: expected %d definition(s) of %s, found %d" % (n, name, len(fs)))
        return fs[0] if n == 1 else fs
    inflight = MD + ".all_in_flight_"

    def is_dec_inflight(e):
        return (e.get("k") == "call" and e.get("op") == "--" and P(e.get("recv")) == inflight) or (e.get("k") == "write" and e.get("op") == "--" and P(e["lhs"]) == inflight)

    def is_inc_inflight(e):
        return (e.get("k") == "call" and e.get("op") == "++" and P(e.get("recv")) == inflight) or (e.get("k") == "write" and e.get("op") == "++" and P(e["lhs"]) == inflight)
    # ---- R7: a polling pass tests every registered request
    rep.rule("C20.R7", "K6 (evaluated on sample vector sizes): one pass of the poller hands every registered request to MPI: the MPI_Testsome windows (count, &requests_[start]) "
             "tile [0, requests_.size()) exactly, for every polling size > 1; MPI_Testany is given the whole vector. A request that is never tested never completes for pika: its "
             "callback does not run, the sender never signals, all_in_flight_ stays non-zero (pika::wait(), stop_polling hang)")
    from engine.kinds import interp, eval_tree, Unknown
    n7 = 0
    for fn in (one("poll_multithreaded"), one("poll_singlethreaded")):
        short = fn.qname.rsplit("::", 1)[-1]
        for b, i, e in fn.all_events():
            if e.get("k") == "call" and callee_short(e) == "MPI_Testany":
                n7 += 1
                a0, a1 = T(strip(e["args"][0])), T(strip(e["args"][1]))
                if a0 == MD + ".requests_.size()" and a1 == MD + ".requests_.data()":
                    rep.ok("C20.R7", fn, "%s: MPI_Testany is given the whole request vector" % short)
                else:
                    rep.bad("C20.R7", fn, loc_of(e), "testany-window:" + short, "%s calls MPI_Testany(%s, %s, ..): not the whole vector of registered requests - requests outside the "
                            "window are never tested, their completion is never delivered" % (short, a0, a1))
        ts = [(b, i, e) for b, i, e in fn.all_events() if e.get("k") == "call" and callee_short(e) == "MPI_Testsome"]
        if not ts:
            continue
        if len(ts) != 1:
            raise AnalysisBroken("%s: %d MPI_Testsome calls" % (short, len(ts)))
        tb, ti, te = ts[0]
        lp = loop_of(fn, tb)
        if lp is None:
            rep.bad("C20.R7", fn, loc_of(te), "testsome-no-loop", "%s calls MPI_Testsome once, outside a loop over the windows of the request vector" % short)
            continue
        # start where the number of requests to test is read: the last read of requests_.size() that dominates the loop
        szs = [(b, i, e) for b, i, e in fn.all_events() if e.get("k") == "call" and T(e) == MD + ".requests_.size()" and b != tb
               and precedes_on_all_paths(fn, lambda x, e=e: x is e, (tb, ti), eh=False)]
        if not szs:
            rep.bad("C20.R7", fn, loc_of(te), "testsome-size", "%s does not read requests_.size() before its MPI_Testsome loop" % short)
            continue
        start = szs[-1][0]
        pollsz = sorted(set(T(e) for _, _, e in fn.all_events() if e.get("k") == "call" and callee_short(e) == "load" and P(e.get("recv") or {}).endswith(".max_polling_requests")))
        done = [(b, i, e) for b, i, e in fn.all_events() if e.get("k") == "call" and callee_short(e) == "compact_vectors"]
        if not done:
            raise AnalysisBroken("%s: compact_vectors not found" % short)
        bad7, nsamp = None, 0
        for psize in (2, 8, 32, 1000):
            for N in (0, 1, 2, 7, 8, 9, 31, 32, 33, 64, 65, 100, 200):
                wins = []

                def model(node, env_, wins=wins):
                    if callee_short(node) == "MPI_Testsome":
                        cnt = eval_tree(node["args"][0], env_)
                        a1 = strip(node["args"][1])
                        m = re.match(r"^&%s\.requests_\[(.+)\]$" % re.escape(MD), T(a1))
                        if not m:
                            raise Unknown("window start")
                        # the subscript: evaluate its text as a local / sum of locals
                        sub = m.group(1).strip("()")
                        val = 0
                        for term in sub.split(" + "):
                            term = term.strip("() ")
                            if re.match(r"^\d+$", term):
                                val += int(term)
                            elif term in env_:
                                val += env_[term]
                            else:
                                raise Unknown(term)
                        wins.append((val, cnt))
                        return 0
                    raise Unknown(T(node))
                env = {MD + ".requests_.size()": N, "event_handled": False, "num_completed": 0, "$call": model}
                for t in pollsz:
                    env[t] = psize
                res = interp(fn, env, until=lambda x: x.get("k") == "call" and callee_short(x) == "compact_vectors", start=start, max_visits=12, unknown_both=True, max_paths=8)
                nsamp += 1
                ends = set(r[0] for r in res)
                if ends & {"loop", "limit"} and len(wins) > 3:
                    bad7 = bad7 or "with %d registered requests and polling size %d the window loop does not end (windows %s ...)" % (N, psize, wins[:4])
                    continue
                if ends != {"stop"}:
                    raise AnalysisBroken("%s: one polling pass could not be evaluated for %d requests (ends %s)" % (short, N, sorted(ends)))
                pos, okw = 0, True
                for st_, cnt in wins:
                    if st_ != pos or cnt <= 0:
                        okw = False
                    pos += cnt
                if not okw or pos != N:
                    bad7 = bad7 or "with %d registered requests and polling size %d the windows are %s: requests [%d, %d) are not tested" % (N, psize, wins[:6], min(pos, N), N)
        n7 += 1
        if bad7:
            rep.bad("C20.R7", fn, loc_of(te), "testsome-window:" + short, "%s: %s. A request behind long-pending older ones is never handed to MPI_Testsome: MPI completes the transfer but "
                    "the callback never runs and the sender never signals" % (short, bad7))
        else:
            rep.ok("C20.R7", fn, "%s: the MPI_Testsome windows tile [0, requests_.size()) exactly (%d evaluations)" % (short, nsamp), sites=nsamp)
    if n7 < 3:
        raise AnalysisBroken("C20.R7: only %d polling call sites examined" % n7)

    # ---- R1 (add_request_callback is read with its private helper add_to_request_callback_queue in place)
    GF = facts(rep, tu, [r"^pika::mpi::experimental::"], extra=core.MPI_FLAGS, flatten=[r"^pika::mpi::experimental::(detail::)?add_to_request_callback_queue$"])
    aq = [f for f in GF.find(r"^pika::mpi::experimental::(detail::)?add_request_callback$") if f.parent == -1 and f.file.endswith("mpi_polling.cpp")]
    if len(aq) != 1:
        raise AnalysisBroken("mpi_polling.cpp: expected 1 definition of add_request_callback, found %d" % len(aq))
    aq = aq[0]
    if aq.calls(r"::add_to_request_callback_queue$"):
        raise AnalysisBroken("add_request_callback: add_to_request_callback_queue could not be flattened")
    pubs = [(b, i, ev) for b, i, ev in aq.all_events() if ev.get("k") == "call" and (callee_short(ev) == "enqueue" or callee_short(ev) == "add_to_request_callback_vector")]
    inc_a = lambda e: e.get("k") == "call" and callee_short(e) == "increment_global_activity_count"
    if len(pubs) >= 2 and all(precedes_on_all_paths(aq, inc_a, (b, i)) and precedes_on_all_paths(aq, is_inc_inflight, (b, i)) for b, i, ev in pubs):
        cf = CountFlow(aq, lambda ev, pos: 1 if (ev.get("k") == "call" and (callee_short(ev) == "enqueue" or callee_short(ev) == "add_to_request_callback_vector")) else 0)
        if cf.exits == frozenset([1]):
            rep.ok("C20.R1", aq, "activity count and in-flight incremented before the request is published; published exactly once")
        else:
            rep.bad("C20.R1", aq, aq.loc, "publish-count", "a request is published %s times" % sorted(cf.exits))
    else:
        rep.bad("C20.R1", aq, aq.loc, "count-before-publish", "a request becomes visible to the pollers before the activity count / in-flight counter is incremented: "
                "pika::wait() can return (or polling stop) while the request is in flight")
    sites = []
    for fn in (one("poll_multithreaded"), one("poll_singlethreaded")):
        for b, i, ev in fn.all_events():
            if ev.get("k") == "call" and (re.match(r"^invoke_impl\{.*cb_\}\(", T(ev)) or re.search(r"\.cb_\(", T(ev))):
                sites.append((fn, b, i, ev))
    if len(sites) != 3:
        raise AnalysisBroken("expected 3 callback invocation sites in the poll functions, found %d" % len(sites))
    for fn, b, i, ev in sites:
        blk = fn.blocks[b]
        before = blk.events[:i]
        after = blk.events[i + 1:]
        dec_before = sum(1 for e in before if is_dec_inflight(e))
        act_after = sum(1 for e in after if e.get("k") == "call" and callee_short(e) == "decrement_global_activity_count")
        act_before = sum(1 for e in before if e.get("k") == "call" and callee_short(e) == "decrement_global_activity_count")
        if dec_before == 1 and act_after == 1 and act_before == 0:
            rep.ok("C20.R1", fn, "site %s: --all_in_flight_ -> invoke -> decrement_global_activity_count" % loc_of(ev))
        else:
            rep.bad("C20.R1", fn, loc_of(ev), "invoke-pairing:%s" % fn.qname.rsplit("::", 1)[-1],
                    "callback invocation must be bracketed by exactly one --all_in_flight_ before (%d) and one decrement_global_activity_count after (%d; before: %d): "
                    "otherwise pika::wait()/shutdown hang or return with requests in flight" % (dec_before, act_after, act_before))

    # ---- R2
    exempt = {"poll_singlethreaded": "runs only in single_thread_mode_ (one polling thread, vectors never shared)",
              "add_to_request_callback_vector": "requires the lock or single-threaded mode: call sites are checked",
              "compact_vectors": "requires the lock or single-threaded mode: call sites are checked",
              "get_num_null_requests_in_vector": "debug output only", "operator<<": "debug output only"}
    n2 = 0
    for fn in G.fns:
        if fn.parent != -1 or not fn.file.endswith("mpi_polling.cpp"):
            continue
        name = fn.qname.rsplit("::", 1)[-1]
        acc = [(b, i, ev) for b, i, ev in fn.all_events() if ev.get("k") == "read" and ev["e"].get("name") in ("requests_", "callbacks_") and P(ev["e"]).startswith(MD)]
        callsv = [(b, i, ev) for b, i, ev in fn.all_events() if ev.get("k") == "call" and callee_short(ev) in ("add_to_request_callback_vector", "compact_vectors")]
        if not acc and not callsv:
            continue
        if name in exempt and not callsv:
            rep.ok("C20.R2", fn, "exempt: " + exempt[name])
            n2 += 1
            continue
        lf = LockFlow(fn)
        ff = FactFlow(fn)
        for b, i, ev in acc + callsv:
            if name in exempt and ev.get("k") == "read":
                continue
            held = lf.held_before((b, i))
            if held is None:
                continue
            n2 += 1
            fb = ff.before.get((b, i)) or frozenset()
            single = (MD + ".single_thread_mode_", True) in fb or name == "poll_singlethreaded"
            what = P(ev["e"]) if ev.get("k") == "read" else T(ev)[:60]
            if (MD + ".polling_vector_mtx_") in held or single:
                rep.ok("C20.R2", fn, "%s at %s %s" % (what.replace(D_, ""), loc_of(ev), "under polling_vector_mtx_" if not single else "in single-threaded mode"))
            else:
                rep.bad("C20.R2", fn, loc_of(ev), "unlocked:%s:%s" % (name, what.rsplit(".", 1)[-1][:30]), "%s is used without polling_vector_mtx_ and outside single-threaded mode" % what.replace(D_, ""))
    if n2 < 6:
        raise AnalysisBroken("C20.R2 examined only %d sites" % n2)

    # ---- R3
    for fn in (one("poll_multithreaded"), one("poll_singlethreaded")):
        ff = FactFlow(fn)
        # local reference aliases of a callbacks_ element (auto& info = callbacks_[k]) are expanded before matching
        alias = {}
        for b, i, ev in fn.all_events():
            if ev.get("k") == "decl" and str(ev.get("type", "")).rstrip().endswith("&") and ev.get("init") is not None and \
                    re.search(r"callbacks_\[[^\]]*\]$", T(strip(ev["init"]))):
                alias[ev.get("var")] = T(strip(ev["init"]))

        def TX(ev, alias=alias):
            t = T(ev)
            for a_, full in alias.items():
                t = re.sub(r"(?<![\w.>])%s(?=\.)" % re.escape(a_), full, t)
            return t
        takes = [(b, i, ev) for b, i, ev in fn.all_events() if ev.get("k") in ("call", "ctor") and re.search(r"callbacks_\[[^\]]*\]\.cb_", TX(ev)) and
                 (re.search(r"(^|_)(enqueue|push|emplace)", callee_short(ev)) or TX(ev).startswith("invoke_impl{") or re.search(r"\.cb_\(", TX(ev)))]
        if not takes:
            raise AnalysisBroken("%s: no use of callbacks_[..].cb_ found" % fn.qname)
        for b, i, ev in takes:
            # the continuation is moved out of callbacks_[..] into the argument: the receiving operation must not be able to refuse it.
            # ConcurrentQueue::enqueue allocates when its blocks are used up; try_enqueue* / bounded pushes return false instead and the
            # temporary that owns the continuation is destroyed - unless the result is tested the sender is never signalled
            cs_ = callee_short(ev)
            if ev.get("k") == "call" and re.search(r"(^|_)(enqueue|push|emplace)", cs_):
                refusing = cs_.startswith("try_") or "bounded" in cs_
                tested = any(blk_.cond is not None and (cs_ + "(") in T(blk_.cond) for blk_ in fn.blocks.values())
                if refusing and not tested:
                    rep.bad("C20.R3", fn, loc_of(ev), "handoff-may-drop:%s" % fn.qname.rsplit("::", 1)[-1], "the continuation moved out of callbacks_[..] is handed over with %s, which "
                            "fails instead of allocating when the queue's blocks are used up, and the result is ignored: a burst of completions loses continuations - their "
                            "senders are never signalled, the in-flight count never returns to zero" % cs_)
                else:
                    rep.ok("C20.R3", fn, "the continuation taken at %s is handed over with %s (%s)" % (loc_of(ev), cs_, "result tested" if refusing else "cannot be refused"))
            fb = ff.before.get((b, i)) or frozenset()
            # MPI_UNDEFINED is a macro: the test appears as '<constant> == rindex' (false on this edge)
            reported = any((not t) and re.search(r"(^|\W)rindex$|^rindex ==", a) and "==" in a for a, t in fb) or \
                any(t and re.search(r"\bi < num_completed", a) for a, t in fb)
            blk = fn.blocks[b]
            m = re.search(r"callbacks_\[([^\]]*)\]\.cb_", TX(ev))
            idx = m.group(1)
            nulled = any(e.get("k") == "write" and re.search(r"requests_\[%s\]$" % re.escape(idx), P(e["lhs"])) and "MPI_REQUEST_NULL" in T(e.get("rhs")) or
                         (e.get("k") == "write" and re.search(r"requests_\[%s\]$" % re.escape(idx), P(e["lhs"])) and T(strip(e.get("rhs"))) in ("0", "nullptr"))
                         for e in blk.events)
            if not nulled:
                nulled = any(e.get("k") == "write" and re.search(r"requests_\[%s\]$" % re.escape(idx), P(e["lhs"])) for e in blk.events)
            if reported and nulled:
                rep.ok("C20.R3", fn, "callback [%s] taken at %s only for an index reported by MPI_Test*, and requests_[%s] is nulled on the same path" % (idx, loc_of(ev), idx))
            else:
                rep.bad("C20.R3", fn, loc_of(ev), "take:%s" % fn.qname.rsplit("::", 1)[-1], "a callback is taken for an index that MPI did not report as complete (%s) or its request slot is not nulled (%s): "
                        "the sender completes before the transfer finished, or twice" % (reported, nulled))

        # converse: a request slot is retired (set to MPI_REQUEST_NULL) only for an index whose callback is taken
        taken_idx = set(re.search(r"callbacks_\[([^\]]*)\]\.cb_", TX(ev)).group(1) for b, i, ev in takes)
        for b, i, ev in fn.all_events():
            if ev.get("k") == "write" and re.search(r"requests_\[[^\]]*\]$", P(ev["lhs"])) and ("MPI_REQUEST_NULL" in T(ev.get("rhs")) or "request_null" in T(ev.get("rhs")) or T(strip(ev.get("rhs"))) in ("0", "nullptr")):
                x = re.search(r"requests_\[([^\]]*)\]$", P(ev["lhs"])).group(1)
                if x in taken_idx or x.strip("()") in set(t.strip("()") for t in taken_idx):
                    rep.ok("C20.R3", fn, "requests_[%s] retired together with its callback" % x)
                else:
                    rep.bad("C20.R3", fn, loc_of(ev), "retire:%s" % fn.qname.rsplit("::", 1)[-1], "requests_[%s] is set to MPI_REQUEST_NULL but the callback taken is [%s]: "
                            "an unrelated, still pending request is dropped together with its callback (its receiver is never signalled)" % (x, ", ".join(sorted(taken_idx))))

    # ---- R4
    T_ = facts(rep, driver("c20_mpi.cpp"), [r"^pika::transform_mpi_detail::", r"^pika::mpi::experimental::detail::"], extra=core.MPI_FLAGS)
    enum = T_.enums.get("pika::mpi::experimental::detail::handler_method") or G.enums.get("pika::mpi::experimental::detail::handler_method")
    if not enum:
        raise AnalysisBroken("enum handler_method not found")
    mask = enum.get("method_mask")
    methods = {n for n, v in enum.items() if n not in ("method_mask",) and v & ~mask == 0 and not (v in (1, 2, 4))}
    trig = [f for f in T_.find(r"^pika::transform_mpi_detail::operation_state::receiver::trigger$") if f.parent == -1 and f.pattern]
    if not trig:
        raise AnalysisBroken("transform_mpi receiver::trigger not found")
    fn = trig[0]
    sw = [blk for blk in fn.blocks.values() if any(l == "case" for l, _, _ in blk.succ)]
    if len(sw) != 1:
        raise AnalysisBroken("trigger(): expected one switch")
    cases = {}
    for l, t, raw in sw[0].succ:
        if l == "case":
            cases[T(raw["case"]).rsplit("::", 1)[-1]] = t
    if set(cases) == methods:
        rep.ok("C20.R4", fn, "the dispatch switch has a case for every handler method %s" % sorted(methods))
    else:
        rep.bad("C20.R4", fn, sw[0].term.get("loc", fn.loc), "switch-coverage", "handler methods without a case: %s; unknown cases: %s" % (sorted(methods - set(cases)), sorted(set(cases) - methods)))
    # dispatch() + trigger(): the receiver's set_value runs both; dispatch completes the receiver itself (set_error) when the MPI call
    # fails, so trigger - which completes or registers exactly once (below) - may only run when dispatch did not complete
    svs = [f for f in T_.find(r"^pika::transform_mpi_detail::operation_state::receiver::set_value$") if f.parent == -1]
    disp = [f for f in T_.find(r"^pika::transform_mpi_detail::operation_state::receiver::dispatch$") if f.parent == -1]
    if not svs or not disp:
        raise AnalysisBroken("transform_mpi receiver::set_value / dispatch not found")
    disp_completes = any(e.get("k") == "call" and callee_of(e) in (NS + "set_error", NS + "set_value", NS + "set_stopped") for f in disp for _, _, e in f.all_events())
    nchk = 0
    for sv in svs[:2]:
        for lam in [sv] + list(sv.lambdas()):
            tg = [(b, i, e) for b, i, e in lam.all_events() if e.get("k") == "call" and callee_short(e) == "trigger"]
            dp = [(b, i, e) for b, i, e in lam.all_events() if e.get("k") == "call" and callee_short(e) == "dispatch"]
            if not tg or not dp:
                continue
            nchk += 1
            ffl = FactFlow(lam)
            for b, i, e in tg:
                fb = ffl.before.get((b, i)) or frozenset()
                guarded = any(("dispatch" in a or "status" in a) for a, t in fb)
                if disp_completes and not guarded:
                    rep.bad("C20.R4", lam, loc_of(e), "dispatch-then-trigger", "receiver::set_value calls trigger() unconditionally after dispatch(), but dispatch() completes the "
                            "receiver with set_error when the MPI call fails: trigger() then tests the null request (MPI_Test reports it complete) and signals the "
                            "already completed receiver a second time with set_value")
                else:
                    rep.ok("C20.R4", lam, "trigger() runs only when dispatch() did not complete the receiver")
    if nchk < 1:
        raise AnalysisBroken("transform_mpi receiver::set_value: dispatch/trigger call pair not found")
    handoff = {"yield_while": ("set_value",), "suspend_resume": ("set_value_error_helper",), "new_task": ("add_new_task_request_callback",),
               "continuation": ("add_continuation_request_callback",), "mpix_continuation": ("register_mpix_continuation",)}
    from engine.kinds import eval_walk
    for name, start in sorted(cases.items()):
        paths = eval_walk(fn, start)
        good = True
        seen = set()
        for evs, end in paths:
            n = 0
            for _, _, e in evs:
                if e.get("k") == "call" and (callee_short(e) in handoff.get(name, ()) or callee_of(e) in (NS + "set_value", NS + "set_error")):
                    n += 1
                    seen.add(callee_short(e))
            if n != 1:
                good = False
        if good and paths:
            rep.ok("C20.R4", fn, "case %s: exactly one completion / callback registration (%s) on every path" % (name, sorted(seen)))
        else:
            rep.bad("C20.R4", fn, fn.loc, "case:" + name, "case %s completes / registers %s (expected exactly one of %s per path)" % (name, sorted(seen) or "nothing", handoff.get(name)))

    # ---- R6: a task that waits for its request gives the worker back between polls.  util::yield_while(pred, desc,
    # allow_timed_suspension): with 'false' the wait is spin_k - it never yields - so outstanding requests in that mode
    # can occupy every worker of the pool while the tasks that would post the matching operations never run.
    ywc = [(f2, e) for f2 in [fn] + list(fn.lambdas()) for _, _, e in f2.all_events() if e.get("k") == "call" and callee_short(e) == "yield_while"]
    if not ywc:
        raise AnalysisBroken("trigger(): yield_while call of the yield_while handler not found")
    for f2, e in ywc:
        a2 = strip(e["args"][2]) if len(e.get("args") or []) > 2 else None
        yields = a2 is None or a2.get("k") == "defaultarg" or (a2.get("k") == "lit" and a2.get("v") is True) or T(a2) in ("true", "")
        if yields:
            rep.ok("C20.R6", fn, "the wait for the request yields between polls (yield_while with timed suspension allowed)")
        else:
            rep.bad("C20.R6", fn, loc_of(e), "request-wait-spins", "the task waiting for its MPI request calls yield_while(.., %s): when that is false the wait is spin_k and never gives the worker back - "
                    "with as many outstanding requests as workers in the pool the tasks that post the matching operations are never scheduled: the senders are never signalled and shutdown hangs" % T(a2))

    # ---- R5
    sp = one("start_polling")
    lf = LockFlow(sp)
    rp = [(b, i, ev) for b, i, ev in sp.all_events() if ev.get("k") == "call" and callee_short(ev) == "register_polling"]
    cf = CountFlow(sp, lambda ev, pos: 1 if (ev.get("k") == "call" and callee_short(ev) == "register_polling") else 0)
    if rp and all((MD + ".polling_vector_mtx_") in (lf.held_before((b, i)) or frozenset()) for b, i, ev in rp) and 0 not in cf.exits:
        rep.ok("C20.R5", sp, "start_polling reaches register_polling() on every non-throwing path, holding polling_vector_mtx_")
    else:
        rep.bad("C20.R5", sp, sp.loc, "start", "start_polling must register the polling function (on every path, %s) while holding polling_vector_mtx_" % sorted(cf.exits))
    st = one("stop_polling")
    lf = LockFlow(st)
    up = [(b, i, ev) for b, i, ev in st.all_events() if ev.get("k") == "call" and callee_short(ev) == "unregister_polling"]
    if len(up) == 1 and (MD + ".polling_vector_mtx_") in (lf.held_before((up[0][0], up[0][1])) or frozenset()):
        rep.ok("C20.R5", st, "stop_polling unregisters the polling function under polling_vector_mtx_")
    else:
        rep.bad("C20.R5", st, st.loc, "stop", "stop_polling must unregister polling exactly once while holding polling_vector_mtx_ (a poller may be inside the vectors)")
    rps = one("register_polling", 2)
    rpp = [f for f in rps if f.params][0]
    ff = FactFlow(rpp)
    yw = [(b, i, ev) for b, i, ev in rpp.all_events() if ev.get("k") == "call" and callee_short(ev) == "yield_while"]
    setf = [(b, i, ev) for b, i, ev in rpp.all_events() if ev.get("k") == "call" and callee_short(ev) == "set_mpi_polling_functions"]
    waits = False
    if yw:
        lam = strip(yw[0][2]["args"][0])
        body = G.by_id.get(lam.get("id")) if lam.get("k") == "lambda" else None
        waits = body is not None and any(e.get("k") == "return" and "all_in_flight_" in T(e.get("e")) for _, _, e in body.all_events())
    stm = [e for _, _, e in rpp.all_events() if e.get("k") == "write" and P(e["lhs"]) == MD + ".single_thread_mode_"]
    match = True
    for b, i, ev in setf:
        fb = ff.before.get((b, i)) or frozenset()
        single = (MD + ".single_thread_mode_", True) in fb
        multi = (MD + ".single_thread_mode_", False) in fb
        fnname = T(ev["args"][0])
        if "poll_singlethreaded" in fnname and not single:
            match = False
        if "poll_multithreaded" in fnname and not multi:
            match = False
        if "try_mpix_polling" in fnname:
            pass
    poll_names = " ".join(T(e["args"][0]) for _, _, e in setf)
    if waits and stm and "can_run_singlethreaded" in T(stm[0]["rhs"]) and setf and match and "poll_singlethreaded" in poll_names and "poll_multithreaded" in poll_names and \
            all(precedes_on_all_paths(rpp, lambda e: e is yw[0][2], (b, i)) for b, i, ev in setf):
        rep.ok("C20.R5", rpp, "register_polling waits for in-flight == 0, derives single_thread_mode_ and installs the matching poll function")
    else:
        rep.bad("C20.R5", rpp, rpp.loc, "register", "register_polling must wait until nothing is in flight (%s), derive single_thread_mode_ from the completion mode and install poll_singlethreaded "
                "exactly when single_thread_mode_ is set (%s): the single-threaded poller touches the vectors without the lock" % (waits, match))
    up_ = one("unregister_polling", 2)
    upp = [f for f in up_ if f.params][0]
    if [1 for _, _, e in upp.all_events() if e.get("k") == "call" and callee_short(e) == "clear_mpi_polling_function"]:
        rep.ok("C20.R5", upp, "unregister_polling clears the scheduler's polling function")
    else:
        rep.bad("C20.R5", upp, upp.loc, "unregister", "unregister_polling does not clear the polling function")
    ffq = FactFlow(aq)
    direct = [(b, i, ev) for b, i, ev in aq.all_events() if ev.get("k") == "call" and callee_short(ev) == "add_to_request_callback_vector"]
    if direct and all((MD + ".single_thread_mode_", True) in (ffq.before.get((b, i)) or frozenset()) for b, i, ev in direct):
        rep.ok("C20.R5", aq, "requests go straight to the polling vectors only in single-threaded mode")
    else:
        rep.bad("C20.R5", aq, aq.loc, "direct-vector", "a request is pushed to the polling vectors without the lock outside single-threaded mode")
