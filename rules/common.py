# helpers shared by the rule modules
import os
from engine import core
from engine.core import Facts, AnalysisBroken

REPO = core.REPO
L = os.path.join(REPO, "libs", "pika")
DRIVERS = os.path.join(core.VERIF, "drivers")


def facts(rep, tu, sels, recs=(), extra=()):
    if not os.path.exists(tu):
        raise AnalysisBroken("translation unit missing: %s" % tu)
    raw = core.extract(tu, list(sels), list(recs), list(extra))
    rep.tus.add(tu + (" [" + " ".join(extra) + "]" if extra else ""))
    return Facts(raw)


def lib(mod, rel):
    return os.path.join(L, mod, rel)


def driver(name):
    return os.path.join(DRIVERS, name)


import re
import subprocess


def witness(rep, rid, path, extra=()):
    """K9: a TU of static_asserts must compile.  Each failing static_assert is a violation; any other
    error makes the analysis broken."""
    flags, _ = core.base_flags()
    flags = [f for f in flags if not f.startswith("-ferror-limit")]
    cmd = ["clang++", "-fsyntax-only", "-ferror-limit=0"] + flags + list(extra) + [path]
    p = subprocess.run(cmd, capture_output=True, text=True)
    src = open(path).read()
    n_asserts = len(re.findall(r"\bstatic_assert\s*\(", src))
    rep.tus.add(path)
    errs = [l for l in p.stderr.splitlines() if " error: " in l]
    failed = [l for l in errs if "static_assert" in l or "static assertion" in l]
    other = [l for l in errs if l not in failed]
    if other:
        raise AnalysisBroken("witness %s does not parse: %s" % (path, other[0]))
    for l in failed:
        m = re.match(r"^(.*?):(\d+):\d+: error: (.*)$", l)
        loc = "%s:%s" % (m.group(1), m.group(2)) if m else path
        msg = m.group(3) if m else l
        key = re.sub(r"\s+", " ", msg)[:160]
        rep.bad(rid, "witness:" + os.path.basename(path), loc, key, "compile-time witness failed: " + msg)
    return n_asserts, len(failed)


def local_init(fn, name):
    """Initialiser tree of local variable `name` (single declaration), or None."""
    ds = [ev for _, _, ev in fn.all_events() if ev.get("k") == "decl" and ev.get("var") == name]
    if len(ds) == 1:
        return ds[0].get("init")
    return None
