# helpers shared by the rule modules
import os
from engine import core
from engine.core import Facts, AnalysisBroken

REPO = core.REPO
L = os.path.join(REPO, "libs", "pika")
DRIVERS = os.path.join(core.VERIF, "drivers")


def facts(rep, tu, sels, recs=(), extra=(), calls=(), flatten=()):
    if not os.path.exists(tu):
        raise AnalysisBroken("translation unit missing: %s" % tu)
    raw = core.extract(tu, list(sels), list(recs), list(extra), calls=list(calls))
    rep.tus.add(tu + (" [" + " ".join(extra) + "]" if extra else ""))
    return Facts(raw, flatten)


def lib(mod, rel):
    return os.path.join(L, mod, rel)


def driver(name):
    return os.path.join(DRIVERS, name)


import re
import subprocess


def witness(rep, rid, path, extra=()):
    """K9: a TU of static_asserts must compile.  Each failing static_assert is a violation; any other
    error makes the analysis broken."""
    flags, _ = core.base_flags()
    flags = [f for f in flags if not f.startswith("-ferror-limit")]
    cmd = ["clang++", "-fsyntax-only", "-ferror-limit=0"] + flags + list(extra) + [path]
    p = subprocess.run(cmd, capture_output=True, text=True)
    src = open(path).read()
    n_asserts = len(re.findall(r"\bstatic_assert\s*\(", src))
    rep.tus.add(path)
    errs = [l for l in p.stderr.splitlines() if " error: " in l]
    failed = [l for l in errs if "static_assert" in l or "static assertion" in l]
    other = [l for l in errs if l not in failed]
    if other:
        raise AnalysisBroken("witness %s does not parse: %s" % (path, other[0]))
    for l in failed:
        m = re.match(r"^(.*?):(\d+):\d+: error: (.*)$", l)
        loc = "%s:%s" % (m.group(1), m.group(2)) if m else path
        msg = m.group(3) if m else l
        key = re.sub(r"\s+", " ", msg)[:160]
        rep.bad(rid, "witness:" + os.path.basename(path), loc, key, "compile-time witness failed: " + msg)
    return n_asserts, len(failed)


def local_init(fn, name):
    """Initialiser tree of local variable `name` (single declaration), or None."""
    ds = [ev for _, _, ev in fn.all_events() if ev.get("k") == "decl" and ev.get("var") == name]
    if len(ds) == 1:
        return ds[0].get("init")
    return None


def who_references(rep, callee_re, ident, subdir="libs/pika"):
    """Who-may-call query over the whole library: every function (pattern or instantiation) defined under
    /repo/<subdir> whose body references a function whose qualified name matches callee_re.
    Candidate files are pre-selected by the identifier's spelling (a reference cannot be written without it;
    token pasting is not used for it), then decided on the resolved AST: each .cpp that spells it is analysed as
    its own TU, all headers that spell it are included into one generated TU.  Returns a list of Facts."""
    base = os.path.join(core.REPO, subdir)
    cpps, hdrs = [], []
    rx = re.compile(r"\b%s\b" % re.escape(ident))
    for dp, dn, fns in os.walk(base):
        if "/tests" in dp or "/examples" in dp:
            continue
        for fn_ in fns:
            if not fn_.endswith((".cpp", ".hpp", ".ipp", ".h")):
                continue
            p = os.path.join(dp, fn_)
            try:
                txt = open(p, errors="replace").read()
            except OSError:
                continue
            if rx.search(txt):
                (cpps if fn_.endswith(".cpp") else hdrs).append(p)
    out = []
    for tu in sorted(cpps):
        out.append(facts(rep, tu, [], calls=[callee_re]))
    hdrs = [h for h in sorted(hdrs) if "/include/" in h]
    if hdrs:
        os.makedirs(core.CACHE, exist_ok=True)
        body = "".join('#include <%s>\n' % h.split("/include/", 1)[1] for h in hdrs)
        drv = os.path.join(core.CACHE, "who_%s.cpp" % core._sha(body)[:12])
        if not os.path.exists(drv) or open(drv).read() != body:
            with open(drv, "w") as f:
                f.write(body)
        out.append(facts(rep, drv, [], calls=[callee_re]))
    return out, cpps, hdrs


_IMPORTING = set()


def import_rules(rep, tier, module, wanted, new_id, text, only=None):
    """Evaluate another property's rule module and adopt the instances of the rules in `wanted` under
    the id `new_id` of this property (the construct belongs to both properties' mechanisms)."""
    import importlib
    from engine.core import Report
    rep.rule(new_id, text)
    if module in _IMPORTING:
        return 0            # two properties that adopt rules from each other: the inner evaluation is already under way up-stack
    mod = importlib.import_module("rules." + module)
    sub = Report(module)
    _IMPORTING.add(module)
    try:
        mod.run(sub, tier)
    finally:
        _IMPORTING.discard(module)
    n = sum(sub.instances.get(w, 0) for w in wanted)
    bad = [v for v in sub.violations if v.rule in wanted and (only is None or only(str(v.fn) + " " + str(getattr(v, "full", ""))))]
    if only is not None:
        n = len(bad) + sum(1 for r_, f_, _ in sub.held if r_ in wanted and only(f_))
    rep.obligations += n
    rep.discharged += n - len(bad)
    rep.instances[new_id] += n
    rep.tus |= sub.tus
    rep.functions |= sub.functions
    if only is None:
        for s_ in sub.samples:
            if s_.get("rule") in wanted:
                rep.samples.append(dict(s_, rule=new_id, established="[%s] %s" % (s_["rule"], s_["established"])))
    else:
        for r_, f_, w_ in [h for h in sub.held if h[0] in wanted and only(h[1])][:3]:
            rep.samples.append({"rule": new_id, "function": f_, "loc": "", "established": "[%s] %s" % (r_, w_)})
    for v in bad:
        v.msg = "[%s] %s" % (v.rule, v.msg)
        v.rule = new_id
        if not any(o.ident() == v.ident() for o in rep.violations):
            rep.violations.append(v)
    return n


def join_wakeup(F):
    """The callable pika::thread::join registers as exit callback on the joined thread, found from the registration
    itself (not by name): returns (join, body function, expression of the thread id it resumes as seen in join()).
    Accepted shapes: bind/bind_front(&f, id) with f a function of the TU, or a lambda that captures id."""
    from engine.core import strip, callee_short, subexprs
    jn = [f for f in F.find(r"^pika::thread::join$") if f.parent == -1]
    if len(jn) != 1:
        raise AnalysisBroken("pika::thread::join not found")
    jn = jn[0]
    cb = [e for _, _, e in jn.all_events() if e.get("k") == "call" and callee_short(e) == "add_thread_exit_callback"]
    if len(cb) != 1 or len(cb[0].get("args") or []) < 2:
        raise AnalysisBroken("thread::join: registration of the exit callback not found")
    a = cb[0]["args"][1]
    lam = subexprs(a, lambda y: isinstance(y, dict) and y.get("k") == "lambda")
    fnref = subexprs(a, lambda y: isinstance(y, dict) and y.get("k") == "fn")
    if lam:
        body = F.by_id.get(lam[0].get("id"))
        if body is None:
            raise AnalysisBroken("thread::join: body of the exit-callback lambda not extracted")
        # the id is whatever the lambda hands to set_thread_state
        ids = [e["args"][0] for _, _, e in body.all_events() if e.get("k") == "call" and callee_short(e) == "set_thread_state" and e.get("args")]
        jid = ids[0] if ids else None
        if jid is not None and strip(jid).get("k") != "var":
            # a named function object: the id is a member initialised from the (only) constructor argument
            caps = [strip(c) for c in (lam[0].get("captures") or [])]
            caps = [c for c in caps if isinstance(c, dict) and c.get("k") == "var"]
            if len(caps) == 1:
                jid = caps[0]
        return jn, body, jid, cb[0]
    if fnref:
        body = [f for f in F.fns if f.qname == fnref[0].get("name") and f.parent == -1]
        if not body:
            raise AnalysisBroken("thread::join: exit callback %s not extracted" % fnref[0].get("name"))
        bound = [x for x in subexprs(a, lambda y: isinstance(y, dict) and y.get("k") == "call" and "bind" in str(y.get("callee", "")))]
        idx = bound[0]["args"][1] if bound and len(bound[0].get("args") or []) >= 2 else None
        return jn, body[0], idx, cb[0]
    raise AnalysisBroken("thread::join: the exit callback is neither a lambda nor a bound function")


def stack_size_cache_rule(rep, rid):
    """The runtime configuration keeps the four configured stack sizes in members (small/medium/large/huge_stacksize) that
    thread_manager, the queues and the stack allocator read through get_stack_size().  They are a cache of configuration
    entries, so they have to be re-read after every merge of configuration sources (post_initialize_ini: ini files,
    --pika:ini, init_params::cfg), by the constructor and by reconfigure() alike, each from the reader of its own class,
    and get_stack_size() has to hand out the member of the class it is asked for."""
    from engine.core import T, P, callee_short, loc_of, strip
    from engine.kinds import always_followed_by
    F = facts(rep, lib("runtime_configuration", "src/runtime_configuration.cpp"),
              [r"^pika::util::runtime_configuration::(runtime_configuration|reconfigure|get_stack_size)$"])
    gs = [f for f in F.find(r"runtime_configuration::get_stack_size$") if f.parent == -1]
    if len(gs) != 1:
        raise AnalysisBroken("runtime_configuration::get_stack_size: %d definitions" % len(gs))
    gs = gs[0]
    sw = [blk for blk in gs.blocks.values() if any(l == "case" for l, _, _ in blk.succ)]
    if len(sw) != 1:
        # written as an if-chain: each return of a member is judged by the comparison that is known true on its path
        from engine.kinds import FactFlow
        ffg = FactFlow(gs, eh=False)
        members, n = set(), 0
        for b, i, e in gs.all_events():
            if e.get("k") != "return" or e.get("e") is None:
                continue
            r = T(strip(e["e"]))
            if not re.match(r"^this->\w+$", r):
                continue
            members.add(r[6:])
            classes = [m_.group(1).rstrip("_") for a, t in (ffg.before.get((b, i)) or frozenset()) if t
                       for m_ in [re.search(r"thread_stacksize::(\w+)", a)] if m_ and "==" in a]
            if not classes:
                continue                    # the fall-through return (small / default)
            n += 1
            if r[6:].startswith(classes[-1]):
                rep.ok(rid, gs, "get_stack_size(%s) hands out %s" % (classes[-1], r[6:]))
            else:
                rep.bad(rid, gs, gs.loc, "stack-size-class:" + classes[-1], "get_stack_size(thread_stacksize::%s) returns %s: tasks of that class run on stacks of another class's configured size" % (classes[-1], r[6:]))
        if len(members) < 4 or n < 3:
            raise AnalysisBroken("get_stack_size: neither a switch over the stack-size class nor an if-chain returning the cached members was recognised")
        sw = None

    def returned_from(b):
        seen = set()
        while b not in seen:
            seen.add(b)
            blk = gs.blocks[b]
            for e in blk.events:
                if e.get("k") == "return":
                    return T(strip(e.get("e")))
            if len(blk.succ) != 1:
                return None
            b = blk.succ[0][1]
        return None
    if sw is not None:
        members = set()
        n = 0
    for l, t, raw in (sw[0].succ if sw is not None else []):
        r = returned_from(t)
        if r and re.match(r"^this->\w+$", r):
            members.add(r[6:])
        if l != "case":
            continue
        cls = T(raw.get("case")).rsplit("::", 1)[-1].rstrip("_")
        if r is None or not r.startswith("this->"):
            continue            # nostack: no configured size
        n += 1
        if r[6:].startswith(cls):
            rep.ok(rid, gs, "get_stack_size(%s) hands out %s" % (cls, r[6:]))
        else:
            rep.bad(rid, gs, gs.loc, "stack-size-class:" + cls, "get_stack_size(thread_stacksize::%s) returns %s: tasks of that class run on stacks of another class's configured size" % (cls, r[6:]))
    if len(members) < 4 or n < (4 if sw is not None else 3):
        raise AnalysisBroken("get_stack_size: only %d cached stack-size members recognised (%s)" % (len(members), sorted(members)))
    users = [f for f in F.fns if f.parent == -1 and f is not gs and any(e.get("k") == "call" and callee_short(e) in ("pre_initialize_ini", "post_initialize_ini") for _, _, e in f.all_events())
             and not f.qname.endswith("_initialize_ini")]
    if len(users) < 2:
        raise AnalysisBroken("runtime_configuration: expected the constructor and reconfigure() to merge the configuration sources (found %d functions)" % len(users))
    for f in users:
        merges = [(b, i, e) for b, i, e in f.all_events() if e.get("k") == "call" and callee_short(e) in ("pre_initialize_ini", "post_initialize_ini")]
        for m in sorted(members):
            cls = m.split("_", 1)[0]

            def refresh(e, m=m, cls=cls):
                if not (e.get("k") == "write" and e.get("op") == "=" and P(e["lhs"]) == "this->" + m):
                    return False
                rhs = strip(e.get("rhs"))
                return isinstance(rhs, dict) and rhs.get("k") == "call" and re.match(r"^init_%s_stack_size$" % cls, callee_short(rhs) or "") is not None
            bad = [p for b, i, e in merges for p in always_followed_by(f, (b, i), refresh)]
            if bad:
                anyw = [e for _, _, e in f.all_events() if e.get("k") == "write" and P(e["lhs"]) == "this->" + m]
                rep.bad(rid, f, loc_of(merges[-1][2]), "stack-size-stale:%s:%s" % (f.qname.rsplit("::", 1)[-1], m), "%s (re)builds the configuration (pre_/post_initialize_ini: defaults and environment, ini files, --pika:ini, "
                        "init_params::cfg) and then %s: get_stack_size() keeps handing out the size read before the merge - the compile-time default or the environment's - so tasks of "
                        "that class run on stacks of another size than the configured one (a task relying on the configured size overflows its stack)" % (
                            f.qname, ("assigns %s from %s, not from its own reader init_%s_stack_size()" % (m, T(anyw[-1].get("rhs")), cls)) if anyw else
                            "does not re-read %s with init_%s_stack_size()" % (m, cls)))
            else:
                rep.ok(rid, f, "%s re-reads %s with init_%s_stack_size() after merging the configuration sources" % (f.qname.rsplit("::", 1)[-1], m, cls))



def unknown_helpers_are_not_violations(rep, rule_ids, allow=()):
    """Several rules of a module read a function's statements in place and assume that the statements are all there.  pikafacts
    reads helpers it has never seen (functions absent from known_functions.txt, lambdas called in place) into their callers, but an
    extracted helper with several exits, or a lambda bound to a name, does not always splice back into the shape those rules know.
    For the rules named here a finding inside a function whose body contains such spliced-in code is therefore reported as
    analysis-broken (exit 2, 'this idiom is not decided'), never as a violation: the rule has lost its footing, the code need not
    be wrong.  Functions without spliced-in helpers - all of today's tree - are judged as before."""
    orig = rep.bad

    def bad(rid, fn, loc, key, msg, path=None):
        spliced = []
        if rid in rule_ids and hasattr(fn, "raw"):
            spliced = sorted(set(str(x.get("callee")) for x in (fn.raw.get("inlined") or [])) - set(allow))
        if spliced:
            raise AnalysisBroken("%s would report '%s' in %s, whose body contains helpers / in-place lambdas the analysis has not seen before (%s): not decided" % (
                rid, key, getattr(fn, "qname", fn), ", ".join(spliced)[:200]))
        return orig(rid, fn, loc, key, msg, path)
    rep.bad = bad
