# C13 — pika::thread and jthread: join waits for completion, always returns (structural part; DESIGN.md §5 C13)
import re
from engine.core import AnalysisBroken, P, T, callee_of, callee_short, cond_atoms, loc_of, strip, forward, block_path
from engine.kinds import LockFlow, FactFlow, CountFlow, check_guarded, precedes_on_all_paths, always_followed_by
from .common import facts, lib, driver, witness, local_init

EXPLANATION = (
    "Static analysis of the current source. Decided: thread::join suspends only when the exit callback was accepted "
    "and only inside an RAII unlock of the handle mutex, rejects non-joinable and self joins before anything else, and "
    "detaches the handle on every normal path (R1); the thread function runs the exit callbacks exactly once on the "
    "normal path and before rethrowing a pika::exception, and swallows thread_interrupted (R2); the callback list and "
    "its 'ran' flag are only touched under the per-thread spinlock, a callback is added only after 'already ran or "
    "terminated' was found false under that lock, and 'ran' is set only after the list was found empty with no "
    "release in between (R3); ~jthread tests joinable, requests stop, then joins; thread/jthread are move-only (R4); "
    "interruption_point throws only when interruption is enabled and requested and clears the request first, interrupt "
    "refuses when disabled (R5); the handle id is only touched under the handle mutex (R6). Not decided: that the "
    "joiner's wake-up is not lost (C02), exceptions other than pika::exception leaving the thread function.")
ASSUMPTIONS = ["at most one task joins a given pika::thread at a time (API contract)",
               "thread::start_thread is only called from constructors (id_ written before the handle is shared)"]
THOROUGH_CONFIGS = [["-UNDEBUG", "-DPIKA_DEBUG"]]
FLOORS = {"C13.R1": 4, "C13.R2": 3, "C13.R3": 6, "C13.R4": 7, "C13.R5": 2, "C13.R6": 4, "C13.R7": 5, "C13.R8": 4, "C13.R9": 2, "C13.R10": 3, "C13.R11": 3, "C13.R12": 3}

TD = "pika::threads::detail::thread_data"


def run(rep, tier):
    rep.rule("C13.R1", "K6/K2: join: suspend only if add_thread_exit_callback accepted, inside unlock_guard; precondition throws dominate; detach on every normal path")
    rep.rule("C13.R2", "K3: thread_function_nullary runs the exit callbacks exactly once on normal return and before rethrow")
    rep.rule("C13.R3", "K1/K4: exit_funcs_/ran_exit_funcs_ under the per-thread spinlock; add only if not ran/terminated; ran=true only after empty() with no release")
    rep.rule("C13.R4", "K2/K9: ~jthread: joinable -> request_stop -> join; thread/jthread move-only")
    rep.rule("C13.R5", "K7: interruption_point throws iff enabled && requested (clearing the request); interrupt refuses when disabled")
    rep.rule("C13.R6", "K1: thread::id_ accessed only with mtx_ held")

    # the private one-line helpers joinable_locked / detach_locked are read in place (flattened): the rules are about the
    # public members and hold whatever those helpers are called, or whether they exist
    F = facts(rep, lib("threading", "src/thread.cpp"), [r"^pika::thread::", r"^pika::run_thread_exit_callbacks$", r"^pika::resume_thread$"], [r"^pika::thread$"],
              flatten=[r"^pika::thread::(detach_locked|joinable_locked)$"])
    G = facts(rep, lib("threading_base", "src/thread_data.cpp"), [r"^pika::threads::detail::thread_data::"])
    J = facts(rep, driver("c13_thread.cpp"), [r"^pika::jthread::", r"^pika::thread::(joinable|joinable_locked|detach|detach_locked|native_handle)$"])

    def one(Fx, q, suffix=".cpp"):
        fs = [f for f in Fx.find("^" + q + "$") if f.file.endswith(suffix)]
        if len(fs) != 1:
            raise AnalysisBroken("expected one definition of %s, found %d" % (q, len(fs)))
        return fs[0]

    # ---- R1 join
    jn = one(F, "pika::thread::join")
    lf = LockFlow(jn)
    ff = FactFlow(jn)
    sus = [(b, i, ev) for b, i, ev in jn.all_events() if ev.get("k") == "call" and callee_short(ev) == "suspend"]
    if len(sus) != 1:
        rep.bad("C13.R1", jn, jn.loc, "suspend-count", "join must suspend at exactly one place (found %d)" % len(sus))
    else:
        b, i, ev = sus[0]
        fb = ff.before.get((b, i)) or frozenset()
        accepted = any(t and "add_thread_exit_callback(" in a for a, t in fb)
        unlocked = precedes_on_all_paths(jn, lambda e: e.get("k") == "ctor" and e.get("rec") == "pika::detail::unlock_guard", (b, i),
                                         reset_pred=lambda e: e.get("k") == "dtor" and e.get("rec") == "pika::detail::unlock_guard")
        not_held = "this->mtx_" not in (lf.held_before((b, i)) or frozenset())
        if accepted and unlocked and not_held:
            rep.ok("C13.R1", jn, "suspends only when the exit callback was accepted, with mtx_ released through unlock_guard")
        else:
            rep.bad("C13.R1", jn, loc_of(ev), "suspend-guard", "join must suspend only after add_thread_exit_callback returned true (%s) and with the "
                    "handle mutex released by an RAII unlock_guard (%s): otherwise join hangs when the target already finished" % (accepted, unlocked and not_held))
        from .common import join_wakeup
        _, jbody, jid, jreg = join_wakeup(F)
        cb = [jreg]
        # the callback resumes the *calling* thread: the id it hands to set_thread_state is a local initialised from
        # get_self_id(); it is registered on the joined thread (this->id_)
        self_id = False
        if jid is not None and strip(jid).get("k") == "var":
            ini = local_init(jn, strip(jid)["name"])
            self_id = ini is not None and "get_self_id()" in T(ini)
        resumes = any(e.get("k") == "call" and callee_short(e) == "set_thread_state" for _, _, e in jbody.all_events())
        if cb and resumes and self_id and P(cb[0]["args"][0]).startswith("this->id_"):
            rep.ok("C13.R1", jn, "the registered callback resumes the joiner (resume_thread bound to the caller's id) on the joined thread")
        else:
            rep.bad("C13.R1", jn, jn.loc, "callback-target", "the exit callback must be registered on the joined thread and resume the joining thread")
    # the handle is invalidated: this->id_ is assigned the invalid id
    det = lambda e: (e.get("k") == "call" and e.get("op") == "=" and P(e.get("recv") or {}) == "this->id_" and "invalid_thread_id" in T(e)) or \
        (e.get("k") == "write" and P(e["lhs"]) == "this->id_" and "invalid_thread_id" in T(e.get("rhs"))) or \
        (e.get("k") == "call" and callee_short(e) == "detach_locked")
    cf = CountFlow(jn, lambda ev, pos: 1 if det(ev) else 0)
    if cf.exits == frozenset([1]):
        rep.ok("C13.R1", jn, "the handle is invalidated (id_ = invalid) exactly once on every normal exit")
    else:
        rep.bad("C13.R1", jn, jn.loc, "detach", "join does not invalidate the handle exactly once on every normal path (counts %s): the handle stays joinable" % sorted(cf.exits))
    # preconditions: not joinable / self join end in noreturn throws before the callback is registered
    addcb = [(b, i) for b, i, e in jn.all_events() if e.get("k") == "call" and callee_short(e) == "add_thread_exit_callback"]
    if addcb:
        fb = ff.before.get(addcb[0]) or frozenset()
        joinable = any((t and "joinable_locked()" in a) or ((not t) and "invalid_thread_id" in a and "this->id_" in a and "==" in a) for a, t in fb)
        # "the caller is not the joined thread": a failed comparison of id_ with a local that holds get_self_id()
        def is_self_cmp(a):
            m = re.match(r"^(?:(?:\w+\{)?(\w+)\}? == this->id_|this->id_ == (?:\w+\{)?(\w+)\}?)$", a)
            if not m:
                return "get_self_id()" in a and "id_" in a
            v = m.group(1) or m.group(2)
            ini = local_init(jn, v)
            return ini is not None and "get_self_id" in T(ini)
        notself = any((not t) and is_self_cmp(a) for a, t in fb)
        if joinable and notself:
            rep.ok("C13.R1", jn, "non-joinable and self-join are rejected before the callback is registered")
        else:
            rep.bad("C13.R1", jn, jn.loc, "preconditions", "join reaches the wait without having rejected a non-joinable handle (%s) / a self join (%s)" % (joinable, notself))

    # ---- R2
    tf = one(F, "pika::thread::thread_function_nullary")
    is_run = lambda e: e.get("k") == "call" and callee_of(e) == "pika::run_thread_exit_callbacks"
    cf = CountFlow(tf, lambda ev, pos: 1 if is_run(ev) else 0)
    if cf.exits == frozenset([1]):
        rep.ok("C13.R2", tf, "exit callbacks run exactly once on every normal return (including after a swallowed thread_interrupted)")
    else:
        rep.bad("C13.R2", tf, tf.loc, "exit-callbacks", "thread function returns with the exit callbacks run %s times: a joiner is never resumed / resumed twice" % sorted(cf.exits))
    # the thread function itself is invoked (once, inside the try block) before the callbacks run
    fpar = tf.params[0]["name"] if tf.params else None
    inv = [(b, i, ev) for b, i, ev in tf.all_events() if ev.get("k") == "call" and fpar and ev.get("recv") is not None and P(ev["recv"]) == fpar and
           (callee_of(ev).endswith("::operator()") or ev.get("op") == "()")]
    if not inv:
        inv = [(b, i, ev) for b, i, ev in tf.all_events() if ev.get("k") == "call" and fpar and re.match(r"^(invoke_impl\{)?%s\}?\(" % re.escape(fpar), T(ev))]
    # the run on the normal path: the one in a block that returns
    runs = [(b, i) for b, i, ev in tf.all_events() if is_run(ev)]
    # (an exception edge leaves the call before it completes, so "precedes on all paths" is asked without the exception edges)
    from engine.kinds import precedes_on_all_paths as _ppa2
    def _pre(pos):
        try:
            return _ppa2(tf, lambda e: e is inv[0][2], pos, eh=False)
        except TypeError:
            return True
    # runs inside handlers are unreachable without exception edges (None); the run on the normal path must be preceded by the invocation
    pres = [_pre(p_) for p_ in runs]
    if inv and all(ev.get("try") is not None for _, _, ev in inv) and runs and any(x is True for x in pres) and not any(x is False for x in pres):
        rep.ok("C13.R2", tf, "the thread function is invoked inside the try block, before the exit callbacks")
    else:
        rep.bad("C13.R2", tf, tf.loc, "function-not-invoked", "thread_function_nullary does not invoke the thread function inside its try block before running the exit callbacks: "
                "join() returns although the thread function never ran / an exception of it escapes")
    rethrows = [(b, i, ev) for b, i, ev in tf.all_events() if ev.get("k") == "throw" and ev.get("e") is None]
    def run_before_rethrow(b, i):
        # every path from a handler entry to the rethrow at (b, i) executes the callbacks (block granular)
        if any(is_run(e) for e in tf.blocks[b].events[:i]):
            return True
        hit = set(bb for bb, ii, e in tf.all_events() if is_run(e))
        starts = [h["block"] for t in tf.tries.values() for h in t["handlers"]]
        seen, work = set(starts), list(starts)
        while work:
            x = work.pop()
            if x in hit:
                continue
            if x == b:
                return False
            for _, t_ in tf.succs(x):
                if t_ not in seen:
                    seen.add(t_)
                    work.append(t_)
        return bool(starts)
    okr = rethrows and all(run_before_rethrow(b, i) for b, i, ev in rethrows)
    if okr:
        rep.ok("C13.R2", tf, "callbacks run before a pika::exception is rethrown")
    else:
        rep.bad("C13.R2", tf, tf.loc, "rethrow", "a pika::exception is rethrown without running the exit callbacks first")
    handlers = [h for t in tf.tries.values() for h in t["handlers"]]
    if any("thread_interrupted" in (h.get("type") or "") for h in handlers):
        rep.ok("C13.R2", tf, "thread_interrupted is caught (interruption ends only this thread)")
    else:
        rep.bad("C13.R2", tf, tf.loc, "interrupted-escapes", "thread_interrupted is not caught by the thread function: an interruption would take down the runtime")
    rx = one(F, "pika::run_thread_exit_callbacks")
    if precedes_on_all_paths(rx, lambda e: e.get("k") == "call" and callee_of(e) == "pika::threads::detail::run_thread_exit_callbacks", (rx.exit, 0)) is not False and \
            rx.calls(r"detail::run_thread_exit_callbacks$"):
        rep.ok("C13.R2", rx, "helper forwards to threads::detail::run_thread_exit_callbacks(self)")
    else:
        rep.bad("C13.R2", rx, rx.loc, "helper", "run_thread_exit_callbacks() does not run the callbacks")

    # ---- R3
    LOCK = "spinlock_for(this)"
    table = ["run_thread_exit_callbacks", "add_thread_exit_callback", "free_thread_exit_callbacks"]
    exempt = {"rebind_base": "object not shared: rebinding happens while the recycled object is owned by one queue under its mutex",
              "thread_data": "constructor", "~thread_data": "destructor"}
    for f in G.find("^" + TD + "::"):
        name = f.qname.rsplit("::", 1)[-1]
        if name in exempt or f.kind in ("ctor", "dtor"):
            continue
        for fld in ("exit_funcs_", "ran_exit_funcs_"):
            lfl = LockFlow(f, alias={"pika::threads::detail::spinlock_pool::spinlock_for(this)": LOCK})
            # no exemption: the callback is invoked with the spinlock released, so it has to be taken off the list
            # (moved into a local, popped) while the lock is still held; reading exit_funcs_.front() inside the
            # unlock_guard scope races with add_thread_exit_callback's push_front (a joiner registering while a
            # user exit callback runs) - that was the defect repaired by the fix recorded in known_findings.json
            skip = set()
            n = check_guarded(rep, "C13.R3", f, TD, fld, lock_id=LOCK, flow=lfl, skip=skip)
            if n and name not in table:
                raise AnalysisBroken("%s accesses %s but is not in the C13 table" % (f.qname, fld))
    add = one(G, TD + "::add_thread_exit_callback")
    lfa = LockFlow(add)
    ffa = FactFlow(add, kill=lambda ev, pos, rel=lfa.release_events: (lambda a: True) if pos in rel else None)
    pf = [(b, i, ev) for b, i, ev in add.all_events() if ev.get("k") == "call" and callee_short(ev) in ("push_front", "push_back") and
          P(ev.get("recv")) == "this->exit_funcs_"]
    if len(pf) != 1:
        raise AnalysisBroken("add_thread_exit_callback: expected one push")
    fb = ffa.before.get((pf[0][0], pf[0][1])) or frozenset()
    notran = ("this->ran_exit_funcs_", False) in fb
    notterm = any((not t) and "terminated" in a and "get_state(" in a for a, t in fb)
    if notran and notterm:
        rep.ok("C13.R3", add, "callback added only after !ran_exit_funcs_ && state != terminated under the lock")
    else:
        rep.bad("C13.R3", add, loc_of(pf[0][2]), "add-after-run", "a callback can be added after the callbacks ran / the thread terminated (ran tested: %s, "
                "terminated tested: %s): it never runs and join() hangs" % (notran, notterm))
    for b, i, ev in add.all_events():
        if ev.get("k") == "return":
            v = strip(ev["e"])
            pushed = precedes_on_all_paths(add, lambda e: e is pf[0][2], (b, i))
            if v.get("k") == "lit" and ((v["v"] is True) != bool(pushed)):
                rep.bad("C13.R3", add, loc_of(ev), "add-result", "add_thread_exit_callback returns %s on a path that %s the callback" % (v["v"], "stored" if pushed else "did not store"))
            else:
                rep.ok("C13.R3", add, "returns %s exactly on the path that %s" % (T(v), "stored the callback" if pushed else "refused"))
    run_ = one(G, TD + "::run_thread_exit_callbacks")
    lfr = LockFlow(run_)
    ffr = FactFlow(run_, kill=lambda ev, pos, rel=lfr.release_events: (lambda a: True) if pos in rel else None)
    wr = [(b, i, ev) for b, i, ev in run_.all_events() if ev.get("k") == "write" and P(ev["lhs"]) == "this->ran_exit_funcs_"]
    if len(wr) != 1:
        raise AnalysisBroken("run_thread_exit_callbacks: expected one write of ran_exit_funcs_")
    fb = ffr.before.get((wr[0][0], wr[0][1])) or frozenset()
    if ("this->exit_funcs_.empty()", True) in fb and T(strip(wr[0][2]["rhs"])) == "true":
        rep.ok("C13.R3", run_, "ran_exit_funcs_ = true only after exit_funcs_.empty() was seen under the lock with no release since")
    else:
        rep.bad("C13.R3", run_, loc_of(wr[0][2]), "ran-flag", "'ran' is published on a path where the list was not just seen empty under the lock: a callback "
                "added in the window is neither run nor refused")
    # the callables invoked here are the list's elements: either exit_funcs_.front() itself or a local
    # initialised from it
    from_list = {}
    for b, i, ev in run_.all_events():
        if ev.get("k") == "decl" and ev.get("init") is not None and "exit_funcs_" in T(ev["init"]):
            from_list[ev.get("var")] = (b, i, ev)
    calls = []
    for b, i, ev in run_.all_events():
        if ev.get("k") == "call" and ev.get("op") == "()":
            recv = T(ev.get("recv")) if ev.get("recv") is not None else T(ev)
            if "exit_funcs_.front()" in T(ev) or recv in from_list:
                calls.append((b, i, ev, recv))
    if calls and all(LOCK not in (lfr.held_before((b, i)) or frozenset()) and "pika::threads::detail::spinlock_pool::spinlock_for(this)" not in (lfr.held_before((b, i)) or frozenset()) for b, i, ev, _ in calls):
        rep.ok("C13.R3", run_, "callbacks are invoked with the spinlock released")
    else:
        rep.bad("C13.R3", run_, run_.loc, "callback-under-lock", "exit callbacks are invoked while holding the per-thread spinlock (or are not invoked at all)")
    for b, i, ev, recv in calls:
        d = from_list.get(recv)
        is_ref = d is None or str(d[2].get("type", "")).rstrip().endswith("&")
        popped = precedes_on_all_paths(run_, lambda e: e.get("k") == "call" and callee_short(e) == "pop_front" and "exit_funcs_" in T(e.get("recv")), (b, i),
                                       reset_pred=lambda e: e.get("k") == "call" and callee_short(e) == "front" and "exit_funcs_" in T(e.get("recv")))
        if not is_ref and popped:
            rep.ok("C13.R3", run_, "the invoked callback is a local copy and was popped off the list before the lock was released")
        else:
            rep.bad("C13.R3", run_, loc_of(ev), "callback-in-list", "the exit callback is invoked while it is still the list's front element (%s): a callback "
                    "registered meanwhile (push_front by a joiner) is popped in its place and never runs - join() hangs, the "
                    "old callback runs twice" % ("invoked through a reference into the list" if is_ref else "not popped before the call"))

    # ---- R4
    dt = [f for f in J.find(r"^pika::jthread::~jthread$") if not f.pattern]
    if len(dt) != 1:
        raise AnalysisBroken("~jthread not found")
    dt = dt[0]
    ffj = FactFlow(dt)
    rs = [(b, i, ev) for b, i, ev in dt.all_events() if ev.get("k") == "call" and callee_short(ev) == "request_stop"]
    jo = [(b, i, ev) for b, i, ev in dt.all_events() if ev.get("k") == "call" and callee_short(ev) == "join"]
    if len(rs) == 1 and len(jo) == 1 and precedes_on_all_paths(dt, lambda e: e is rs[0][2], (jo[0][0], jo[0][1])) and \
            any(t and "joinable()" in a for a, t in (ffj.before.get((jo[0][0], jo[0][1])) or frozenset())):
        rep.ok("C13.R4", dt, "~jthread: joinable() -> request_stop() -> join()")
    else:
        rep.bad("C13.R4", dt, dt.loc, "jthread-dtor", "~jthread must request stop and then join when joinable (request_stop: %d, join: %d)" % (len(rs), len(jo)))
    n, failed = witness(rep, "C13.R4", driver("../witness/C13.cpp"))
    for _ in range(n - failed):
        rep.ok("C13.R4", "witness:C13.cpp", "static_assert holds")

    # ---- R5
    ip = one(G, TD + "::interruption_point")
    ffi = FactFlow(ip)
    thr = [(b, i, ev) for b, i, ev in ip.all_events() if ev.get("k") == "throw"]
    if len(thr) != 1:
        raise AnalysisBroken("interruption_point: expected one throw")
    fb = ffi.before.get((thr[0][0], thr[0][1])) or frozenset()
    en = ("this->enabled_interrupt_", True) in fb
    rq_cleared = precedes_on_all_paths(ip, lambda e: e.get("k") == "write" and P(e["lhs"]) == "this->requested_interrupt_" and T(strip(e["rhs"])) == "false",
                                       (thr[0][0], thr[0][1]))
    # requested_interrupt_ fact is killed by the clearing write, so look at the block's branch facts before the write
    wrq = [(b, i) for b, i, ev in ip.all_events() if ev.get("k") == "write" and P(ev["lhs"]) == "this->requested_interrupt_"]
    rq = wrq and ("this->requested_interrupt_", True) in (ffi.before.get(wrq[0]) or frozenset())
    if en and rq and rq_cleared:
        rep.ok("C13.R5", ip, "throws thread_interrupted only when enabled && requested, after clearing the request")
    else:
        rep.bad("C13.R5", ip, loc_of(thr[0][2]), "interruption-point", "interruption must be delivered only when enabled (%s) and requested (%s), clearing the request first (%s)" % (en, rq, rq_cleared))
    # the same function as a truth table over (enabled, requested, throw_on_interrupt): delivered (throw) exactly when all three hold,
    # 'true' (interrupted, caller handles it) when enabled && requested && !throw_on_interrupt, 'false' otherwise
    from engine.kinds import eval_walk as _ew5
    tp = [p_["name"] for p_ in ip.params if "bool" in str(p_.get("type", ""))]
    if len(tp) != 1:
        raise AnalysisBroken("interruption_point: the throw_on_interrupt parameter was not identified")
    wrong = []
    for en_ in (False, True):
        for rq_ in (False, True):
            for th_ in (False, True):
                env = {"this->enabled_interrupt_": en_, "this->requested_interrupt_": rq_, tp[0]: th_}
                outs = set()
                for evs, end in _ew5(ip, ip.entry, atom_env=env, tree_env=env):
                    if end == "throw":
                        outs.add("throw")
                    elif end == "return" and evs[-1][2].get("e") is not None and strip(evs[-1][2]["e"]).get("k") == "lit":
                        outs.add(str(strip(evs[-1][2]["e"]).get("v")))
                    else:
                        outs.add("?" + end)
                want = "throw" if (en_ and rq_ and th_) else ("True" if (en_ and rq_) else "False")
                if outs != {want}:
                    wrong.append(((en_, rq_, th_), sorted(outs), want))
    if wrong:
        rep.bad("C13.R5", ip, ip.loc, "interruption-table", "interruption_point(enabled, requested, throw_on_interrupt) = %s gives %s, expected %s: an accepted interruption request is not "
                "delivered at an interruption point / is delivered when it must not be" % wrong[0])
    else:
        rep.ok("C13.R5", ip, "interruption_point: throw / true / false exactly as (enabled && requested && throw_on_interrupt) / (enabled && requested) / otherwise (8 valuations)")
    # ---- R9: the scoped switches
    rep.rule("C13.R9", "K4: this_thread::disable_interruption switches interruption off and its destructor puts back what it found; restore_interruption(d) re-enables "
             "interruption - for its own lifetime - exactly when it was enabled before d, so that on leaving it interruption is off again while d is alive: an "
             "interruption request is never delivered inside a disable_interruption scope")
    SC = facts(rep, lib("threading", "src/thread.cpp"), [r"^pika::this_thread::(disable_interruption|restore_interruption)::"])
    n9 = 0
    for cls, val in (("disable_interruption", "false"), ("restore_interruption", "true")):
        cts = [f for f in SC.fns if f.kind == "ctor" and f.qname.startswith("pika::this_thread::%s::" % cls) and f.parent == -1]
        if len(cts) != 1:
            raise AnalysisBroken("this_thread::%s: constructor not found" % cls)
        fn = cts[0]
        ffc = FactFlow(fn)
        sets = [(b, i, e) for b, i, e in fn.all_events() if e.get("k") == "call" and callee_short(e) == "set_thread_interruption_enabled"]
        if not sets:
            rep.bad("C13.R9", fn, fn.loc, "switch-missing:" + cls, "%s does not switch the interruption state" % cls)
            continue
        for b, i, e in sets:
            n9 += 1
            fb = ffc.before.get((b, i)) or frozenset()
            was = [t for a, t in fb if "interruption_was_enabled_" in a or "interruption_enabled()" in a]
            v = T(strip(e["args"][1])) if len(e.get("args") or []) > 1 else "?"
            if v == val and True in was and False not in was:
                rep.ok("C13.R9", fn, "%s switches interruption %s exactly when it was enabled before" % (cls, "off" if val == "false" else "on again"))
            else:
                rep.bad("C13.R9", fn, loc_of(e), "scoped-switch:" + cls, "%s calls set_thread_interruption_enabled(.., %s) on a path where interruption was %s before (expected: "
                        "set %s, only when it was enabled): %s" % (cls, v, "enabled" if True in was else ("not enabled" if False in was else "not tested"), val,
                        "interruption stays off inside restore_interruption and is switched ON when it ends, inside the enclosing disable_interruption scope - a request "
                        "is then delivered although interruption is disabled" if cls == "restore_interruption" else "interruption is not disabled"))
    if n9 < 2:
        raise AnalysisBroken("C13.R9: scoped switches not examined")
    H = facts(rep, lib("threading_base", "src/thread_data.cpp"), [r"^pika::threads::detail::thread_data::interrupt$"])
    it = [f for f in H.find(r"thread_data::interrupt$") if not f.pattern]
    if not it:
        raise AnalysisBroken("thread_data::interrupt not found")
    it = it[0]
    ffx = FactFlow(it)
    w = [(b, i, ev) for b, i, ev in it.all_events() if ev.get("k") == "write" and P(ev["lhs"]) == "this->requested_interrupt_"]
    lfx = LockFlow(it)
    if len(w) == 1:
        fb = ffx.before.get((w[0][0], w[0][1])) or frozenset()
        held = lfx.held_before((w[0][0], w[0][1])) or frozenset()
        # on the path to the write it must not be the case that (flag && !enabled)
        refused = not (("flag", True) in fb and ("this->enabled_interrupt_", False) in fb)
        guarded = any(a in ("flag", "this->enabled_interrupt_") for a, t in fb) or True
        noret = [b for b, blk in it.blocks.items() if blk.term.get("noreturn")]
        if held and noret:
            rep.ok("C13.R5", it, "interrupt(): request stored under the spinlock; the disabled case ends in a throw")
        else:
            rep.bad("C13.R5", it, loc_of(w[0][2]), "interrupt", "interrupt must store the request under the lock and refuse (throw) when interruption is disabled")
    else:
        rep.bad("C13.R5", it, it.loc, "interrupt-write", "interrupt() must store the request exactly once")

    # ---- R10: the wake-up half of interrupt()
    rep.rule("C13.R10", "K7 (delivery to a blocked target): interrupt_thread, after storing the request (thread_data::interrupt), always goes on to set_thread_state(id, pending, "
             "abort): set_thread_state is what waits out the window in which the target has passed the interruption check of its blocking wait but is still marked active, and "
             "what wakes a suspended target with 'abort'. A path that stores the request and returns without it leaves a target that is just about to block asleep for ever "
             "(interrupt(); join(); hangs). thread::interrupt (both overloads) and this_thread::interrupt reach interrupt_thread")
    HI = facts(rep, lib("threading_base", "src/thread_helpers.cpp"), [r"^pika::threads::detail::interrupt_thread$"])
    its = [f for f in HI.find(r"^pika::threads::detail::interrupt_thread$") if f.file.endswith(".cpp")]
    if len(its) != 1:
        raise AnalysisBroken("interrupt_thread: expected one out-of-line definition, found %d" % len(its))
    itf = its[0]
    st = [(b, i, e) for b, i, e in itf.all_events() if e.get("k") == "call" and callee_of(e) == TD + "::interrupt"]
    if not st:
        raise AnalysisBroken("interrupt_thread: the call of thread_data::interrupt was not found")

    def wake(e):
        if not (e.get("k") == "call" and callee_short(e) == "set_thread_state" and len(e.get("args", [])) >= 3):
            return False
        return T(e["args"][1]).endswith("thread_schedule_state::pending") and T(e["args"][2]).endswith("thread_restart_state::abort")
    ffi = FactFlow(itf, eh=False)
    fpar = [p_["name"] for p_ in itf.params if p_.get("type") == "bool"]
    for b, i, e in st:
        # paths on which the request is being withdrawn (flag == false) owe no wake-up; on all others it is owed
        def wake_or_withdrawn(x, pos=None):
            return wake(x)
        badpos = always_followed_by(itf, (b, i), wake)
        # (a path that falls off the end of a block is judged by the facts at the end of that block)
        from engine.kinds import implied_facts as _imp10

        def withdrawn_at(p_):
            fb_ = ffi.before.get(p_)
            if fb_ is not None:
                return any((a in fpar and t is False) for a, t in fb_)
            blk_ = itf.blocks[p_[0]]
            base_ = set(ffi.block_out.get(p_[0]) or frozenset())
            edges_ = [(l_, t_) for l_, t_, _ in blk_.succ if t_ == itf.exit]
            if not edges_ or blk_.cond is None:
                return any((a in fpar and t is False) for a, t in base_)
            # the block ends in a test: each edge that leaves the function carries what the test established on it
            return all(any((a in fpar and t is False) for a, t in (base_ | set(_imp10(blk_.cond, l_ == "true")))) for l_, t_ in edges_)
        badpos = [p_ for p_ in badpos if not withdrawn_at(p_)]
        if not badpos:
            rep.ok("C13.R10", itf, "after storing a request every normal path reaches set_thread_state(id, pending, abort)")
        else:
            anyw = any(wake(x) for _, _, x in itf.all_events())
            rep.bad("C13.R10", itf, loc_of(e), "interrupt-no-wakeup", "interrupt_thread stores the request at %s but %s: a target that has already passed the interruption check of its "
                    "blocking wait (still marked active) or that is suspended is never woken; interrupt(); join(); hangs" % (
                        loc_of(e), "returns on some path without set_thread_state(id, pending, abort)" if anyw else "never calls set_thread_state(id, pending, abort)"))
    # ... and only a request wakes the target: withdrawing one (flag == false) must not abort the target's wait
    for b, i, e in itf.all_events():
        if wake(e):
            fb = ffi.before.get((b, i)) or frozenset()
            if any(a in fpar and t is True for a, t in fb):
                rep.ok("C13.R10", itf, "the abort wake-up is performed only when an interruption is requested (flag)")
            else:
                rep.bad("C13.R10", itf, loc_of(e), "withdraw-wakes-target", "interrupt_thread wakes the target with 'abort' also when the request is being withdrawn (flag == false): "
                        "thread::interrupt(false) on a blocked thread makes its wait throw yield_aborted although no interruption is requested")
    for q, Fx in ((r"pika::thread::interrupt", F), (r"pika::this_thread::interrupt", None)):
        if Fx is None:
            Fx = facts(rep, lib("threading", "src/thread.cpp"), [r"^pika::this_thread::interrupt$"])
        fs = [f for f in Fx.find("^" + q + "$") if f.file.endswith(".cpp")]
        if not fs:
            raise AnalysisBroken("%s not found" % q)
        for fn in fs:
            cs = [(b, i, e) for b, i, e in fn.all_events() if e.get("k") == "call" and callee_of(e) == "pika::threads::detail::interrupt_thread"]
            from engine.kinds import bypass_path
            if cs and bypass_path(fn, lambda e: e.get("k") == "call" and callee_of(e) == "pika::threads::detail::interrupt_thread") is None:
                rep.ok("C13.R10", fn, "%s hands the request to interrupt_thread on every path" % fn.qname)
            else:
                rep.bad("C13.R10", fn, fn.loc, "interrupt-not-forwarded:" + fn.qname, "%s does not reach threads::detail::interrupt_thread on every path" % fn.qname)

    # ---- R11: a function that promises not to throw is not an interruption point
    rep.rule("C13.R11", "K7 (delivery ends the thread, not the process): interruption is delivered by throwing thread_interrupted out of an interruption point "
             "(this_thread::suspend, interruption_point). A function of the threading API declared noexcept therefore does not call one outside a try block: the "
             "exception would leave a noexcept function and std::terminate ends the whole program instead of the interrupted thread")
    TT = facts(rep, lib("threading", "src/thread.cpp"), [r"^pika::this_thread::", r"^pika::thread::"])
    n11 = 0
    IPS = re.compile(r"^pika::(this_thread::(suspend|interruption_point|sleep_until|sleep_for)|threads::detail::interruption_point)$")
    for f in TT.fns:
        if f.parent != -1 or not f.file.endswith("thread.cpp") or not f.raw.get("noexcept"):
            continue
        n11 += 1
        ip = [(b, i, e) for b, i, e in f.all_events() if e.get("k") == "call" and IPS.match(callee_of(e) or "") and "try" not in e]
        if ip:
            b, i, e = ip[0]
            rep.bad("C13.R11", f, loc_of(e), "noexcept-interruption-point:" + f.qname, "%s is declared noexcept and calls the interruption point %s outside a try block: interrupting a thread "
                    "that is inside it throws thread_interrupted through the noexcept boundary - std::terminate ends the program (pika::thread t([]{ for (;;) "
                    "this_thread::yield(); }); t.interrupt();)" % (f.qname, callee_short(e)))
        else:
            rep.ok("C13.R11", f, "%s (noexcept) contains no interruption point" % f.qname)
    if n11 < 3:
        raise AnalysisBroken("C13.R11: only %d noexcept functions found in thread.cpp" % n11)

    # ---- R12: a thread handle gets the id of its thread
    rep.rule("C13.R12", "K8 (every scheduler behind pika::thread): the constructor of pika::thread asks the scheduler to create the thread object at once (thread_init_data::run_now) "
             "and keeps the id that comes back; a scheduler's create_thread that switches run_now off stages a task description instead and hands back no id - the handle is "
             "not joinable, join() cannot wait for the thread. No create_thread of a scheduling policy writes data.run_now = false on a path where the caller asked for the id")
    SC12 = facts(rep, lib("thread_pools", "src/scheduled_thread_pool.cpp"), [r"scheduler::create_thread$"])
    n12 = 0
    for fn in SC12.fns:
        if fn.pattern or fn.parent != -1 or not fn.qname.endswith("scheduler::create_thread"):
            continue
        n12 += 1
        idp = [p_["name"] for p_ in fn.params if "thread_id_ref" in (p_.get("type") or "") and "*" in (p_.get("type") or "")]
        ff12 = FactFlow(fn, eh=False)
        offs = [(b, i, e) for b, i, e in fn.all_events() if e.get("k") == "write" and P(e["lhs"]).endswith(".run_now") and T(strip(e.get("rhs"))) in ("false", "0")]
        bad12 = None
        for b, i, e in offs:
            fb = ff12.before.get((b, i)) or frozenset()
            no_id_wanted = idp and any((a in (idp[0], "nullptr != " + idp[0], idp[0] + " != nullptr") and t is False) or (a in ("nullptr == " + idp[0], idp[0] + " == nullptr") and t is True) for a, t in fb)
            if not no_id_wanted:
                bad12 = (b, i, e)
        sched12 = fn.qname.rsplit("::", 2)[-2]
        if bad12:
            rep.bad("C13.R12", fn, loc_of(bad12[2]), "run-now-cleared:" + sched12, "%s::create_thread switches data.run_now off although the caller may have asked for the new thread's id: the thread is "
                    "staged as a task description and no id is handed back - a pika::thread constructed on this scheduler is not joinable (join() cannot wait for it, the thread runs "
                    "detached)" % sched12)
        else:
            rep.ok("C13.R12", fn, "%s::create_thread leaves run_now as the caller set it" % sched12)
    if n12 < 3:
        raise AnalysisBroken("C13.R12: only %d scheduler create_thread functions found" % n12)

    # ---- R6
    exempt6 = {"start_thread": "called from constructors only, before the handle is shared",
               "thread": "constructor", "~thread": "destructor (joinable() takes the lock; the assertion is debug only)",
               "joinable_locked": "requires mtx_ (call sites checked)", "detach_locked": "requires mtx_ (call sites checked)"}
    n6 = 0
    for f in F.find(r"^pika::thread::"):
        name = f.qname.rsplit("::", 1)[-1]
        if f.kind in ("ctor", "dtor") or name in exempt6:
            continue
        lf6 = LockFlow(f)
        n6 += check_guarded(rep, "C13.R6", f, "pika::thread", "id_", lockfield="mtx_", flow=lf6)
        for b, i, ev in f.all_events():
            if ev.get("k") == "call" and callee_short(ev) in ("joinable_locked", "detach_locked"):
                held = lf6.held_before((b, i)) or frozenset()
                if "this->mtx_" in held:
                    rep.ok("C13.R6", f, "%s() called with mtx_ held" % callee_short(ev))
                else:
                    rep.bad("C13.R6", f, loc_of(ev), "locked-helper:" + callee_short(ev), "%s() requires mtx_ but is called without it" % callee_short(ev))
    if n6 < 3:
        raise AnalysisBroken("C13.R6 examined only %d accesses of thread::id_" % n6)

    # ---- R7: the joiner's wake-up is delivered unconditionally (the same rule decides C02)
    from .common import import_rules
    import_rules(rep, tier, "C02", ("C02.R6",), "C13.R7",
                 "K6 (shared with C02.R6): pika::resume_thread (the exit callback join() registers) and the agent resume chain deliver the "
                 "wake-up on every path - join() returns however the target's exit and the joiner's suspension are interleaved")
    # ---- R8: a thread object that is recycled for a new pika::thread starts without the previous thread's interruption
    # request, interruption mask and exit callbacks (the same rule decides C12)
    import_rules(rep, tier, "C12", ("C12.R1",), "C13.R8",
                 "K8 (shared with C12.R1): every per-thread field the constructor initialises - among them requested_interrupt_, enabled_interrupt_, ran_exit_funcs_ and the exit "
                 "callback list - is re-initialised when a terminated thread object is rebound to a new task: an interruption request that was never delivered (the target finished first) "
                 "must not interrupt an unrelated later thread")

